"""Engine scenarios: ground-truth graph generator, manifest rendering, scenario text, trace parser and
the reference semantics (clean-build contents, make-semantics must_run) used as property oracles.
Everything random derives from one random.Random."""
import random, re
from vlib import hexs, unhex

def hx(s): return hexs(s.encode() if isinstance(s, str) else s)
def uh(s): return unhex(s).decode('latin1')

def fnv(b):
    h = 1469598103934665603
    for c in b:
        h ^= c; h = (h * 1099511628211) & 0xFFFFFFFFFFFFFFFF
    return h

class Edge:
    dd_at_rule = False; bl = False; blf = False; selfref = None; rsp_empty = False      # defaults for ground truth pickled by earlier versions
    def __init__(s, idx):
        s.idx = idx; s.outs = []; s.n_imp_out = 0
        s.exp = []; s.imp = []; s.oo = []; s.vals = []
        s.phony = False; s.restat = False; s.generator = False
        s.deps = ''; s.depfile = ''; s.hidden = []
        s.pool = ''; s.ver = 0; s.rsp = None; s.rspver = 0
        s.dyndep = None; s.console = False; s.dd_at_rule = False; s.bl = False; s.blf = False
    @property
    def out0(s): return s.outs[0]
    def cmd(s):
        c = 'cmd%d v%d' % (s.idx, s.ver)
        if s.rsp: c += ' @' + s.rsp
        return c
    def rspcontent(s):
        # rsp_empty: the content EVALUATES to the empty string ("rspfile_content = $nothing"): the file must still be written (empty)
        return '' if s.rsp_empty else 'rsp%d.%d' % (s.idx, s.rspver)
    def eval_command(s):
        """Edge::EvaluateCommand(incl_rsp_file=true)"""
        c = s.cmd()
        if s.rsp and s.rspcontent(): c += ';rspfile=' + s.rspcontent()      # EvaluateCommand appends it only when non-empty
        return c
    def reads(s): return s.exp + s.imp + s.hidden
    def manifest_ins(s): return s.exp + s.imp + s.oo

class Graph:
    def __init__(s):
        s.edges = []; s.sources = {}   # name -> content
        s.pools = {}                   # name -> depth
        s.defaults = []
        s.ddtext = {}                  # dyndep file -> text (when it is a source or produced)
        s.dd_info = {}                 # dyndep file -> {out0: (imp_outs, imp_ins, restat)}
        s.inc = None                   # ('include'|'subninja', idx threshold): statements with idx >= threshold live in part.ninja
    def producer(s):
        p = {}
        for e in s.edges:
            for o in e.outs: p[o] = e
            dd = e.dyndep
        # dyndep-discovered implicit outputs
        for f, info in s.dd_info.items():
            for out0, (io, ii, rs) in info.items():
                for e in s.edges:
                    if e.out0 == out0:
                        for o in io: p[o] = e
        return p
    def eff_outs(s, e):
        o = list(e.outs)
        if e.dyndep and e.dyndep in s.dd_info and e.out0 in s.dd_info[e.dyndep]:
            o += s.dd_info[e.dyndep][e.out0][0]
        return o
    def eff_imp(s, e):
        i = list(e.imp)
        if e.dyndep and e.dyndep in s.dd_info and e.out0 in s.dd_info[e.dyndep]:
            i += s.dd_info[e.dyndep][e.out0][1]
        return i
    def eff_restat(s, e):
        if e.restat: return True
        if e.dyndep and e.dyndep in s.dd_info and e.out0 in s.dd_info[e.dyndep]:
            return s.dd_info[e.dyndep][e.out0][2]
        return False
    def all_ins(s, e, with_hidden=True, with_oo=True):
        r = e.exp + s.eff_imp(e) + (e.oo if with_oo else []) + (e.hidden if with_hidden else [])
        if e.dyndep: r = r + [e.dyndep] if e.dyndep not in r else r
        return r
    def in_part(s, e):
        inc = getattr(s, 'inc', None)
        return bool(inc) and inc[1] <= e.idx < 900
    def manifest(s, part=False):
        """build.ninja (part=False) or, when the graph is split, part.ninja (part=True): the statements with idx >= threshold and
        their rules, pulled in by an include / subninja line in front of the default statement"""
        L = []
        if not part:
            for p, d in sorted(s.pools.items()): L += ['pool %s' % p, '  depth = %d' % d]
        for e in s.edges:
            if s.in_part(e) != part: continue
            if e.phony: continue
            L.append('rule r%d' % e.idx)
            L.append('  command = ' + ('decoy%d' % e.idx if getattr(e, 'bl', False) else e.cmd()))
            if not e.blf:
                if e.restat: L.append('  restat = 1')
                if e.generator: L.append('  generator = 1')
                if e.deps: L.append('  deps = ' + e.deps)
                if e.depfile: L.append('  depfile = ' + e.depfile)
            if e.rsp: L += ['  rspfile = ' + e.rsp, '  rspfile_content = ' + (e.rspcontent() or '$nothing')]
            if e.dyndep and e.dd_at_rule and not e.pool and not getattr(e, 'bl', False) and not (e.blf and (e.restat or e.generator or e.deps or e.depfile)): L.append('  dyndep = ' + e.dyndep)
        for e in s.edges:
            if s.in_part(e) != part: continue
            outs = ' '.join(e.outs[:len(e.outs) - e.n_imp_out])
            if e.n_imp_out: outs += ' | ' + ' '.join(e.outs[len(e.outs) - e.n_imp_out:])
            l = 'build %s: %s' % (outs, 'phony' if e.phony else 'r%d' % e.idx)
            # selfref: the legacy CMake form "build a: phony ... a ..." (one output, nothing implicit); the parser erases that input
            # (with a warning), so it is no part of the ground-truth input lists
            exp = e.exp + ([e.out0] if e.selfref == 'exp' else []); oo = e.oo + ([e.out0] if e.selfref == 'oo' else [])
            if exp: l += ' ' + ' '.join(exp)
            if e.imp: l += ' | ' + ' '.join(e.imp)
            if oo: l += ' || ' + ' '.join(oo)
            if e.vals: l += ' |@ ' + ' '.join(e.vals)
            L.append(l)
            if getattr(e, 'bl', False) and not e.phony: L.append('  command = ' + e.cmd())   # build-level binding shadows the rule's
            if e.blf and not e.phony:          # the flags bound on the build statement (gn style) instead of the rule
                if e.restat: L.append('  restat = 1')
                if e.generator: L.append('  generator = 1')
                if e.deps: L.append('  deps = ' + e.deps)
                if e.depfile: L.append('  depfile = ' + e.depfile)
            if e.pool: L.append('  pool = ' + e.pool)
            if e.dyndep and not (e.dd_at_rule and not e.pool and not getattr(e, 'bl', False) and not (e.blf and (e.restat or e.generator or e.deps or e.depfile))): L.append('  dyndep = ' + e.dyndep)
        if not part and getattr(s, 'inc', None) and any(s.in_part(e) for e in s.edges): L.append('%s part.ninja' % s.inc[0])
        if not part and s.defaults: L.append('default ' + ' '.join(s.defaults))
        return '\n'.join(L) + '\n'
    def is_split(s): return bool(getattr(s, 'inc', None)) and any(s.in_part(e) for e in s.edges)

    # ---- reference semantics ------------------------------------------------------------
    def content(s, e, out, files):
        """what command e writes to `out` when it reads `files` (dict path->content or missing)"""
        if out in s.ddtext: return s.ddtext[out]
        acc = (b'generator' if e.generator else e.eval_command().encode()) + b'\0' + out.encode() + b'\0'
        for c in sorted(files.get(p, '<missing>').encode('latin1') for p in set(e.reads())):
            acc += c + b'\0'
        return 'H:%016x' % fnv(acc)
    def clean_contents(s, sources):
        """contents of every buildable node after a from-scratch build of `sources` (dict)"""
        prod = s.producer(); memo = dict(sources)
        def get(n, depth=0):
            if n in memo: return memo[n]
            if depth > 200: raise RecursionError
            e = prod.get(n)
            if e is None or e.phony: memo[n] = None; return None
            files = {}
            for p in e.reads():
                v = get(p, depth + 1)
                if v is not None: files[p] = v
            for o in s.eff_outs(e): memo[o] = s.content(e, o, files)
            return memo[n]
        for e in s.edges:
            for o in s.eff_outs(e): get(o)
        return memo
    def closure(s, targets, with_vals=True):
        """all nodes the targets transitively depend on (every input kind, hidden reads, validations)"""
        prod = s.producer(); seen = set(); todo = list(targets)
        while todo:
            n = todo.pop()
            if n in seen: continue
            seen.add(n)
            e = prod.get(n)
            if e:
                todo += s.all_ins(e)
                if with_vals: todo += e.vals
                todo += s.eff_outs(e)
        return seen
    def dependents_of(s, e0):
        """edges that depend (transitively, any input kind incl. hidden/dyndep) on an output of e0"""
        res = set(); changed = True; outs = set(s.eff_outs(e0))
        while changed:
            changed = False
            for e in s.edges:
                if e.idx in res or e is e0: continue
                if any(i in outs for i in s.all_ins(e)):
                    res.add(e.idx); outs |= set(s.eff_outs(e)); changed = True
        return res

FEATURES = dict(implicit=0.4, orderonly=0.35, multiout=0.25, impout=0.15, phony=0.2, restat=0.3, generator=0.08, alias=0.5,
                deps=0.3, validations=0.15, pools=0.3, rsp=0.15, dyndep=0.0, subdirs=0.2)

def gen_graph(rnd, nedges, feat=None, wf_reads=True):
    f = dict(FEATURES); f.update(feat or {})
    g = Graph()
    nsrc = rnd.randrange(1, max(2, nedges) + 2)
    for i in range(nsrc): g.sources['s%d' % i] = 'common' if rnd.random() < 0.3 else 'src%d.0' % i
    avail = list(g.sources)
    if rnd.random() < f['pools']:
        for p in range(rnd.randrange(1, 3)): g.pools['p%d' % p] = rnd.randrange(1, 4)
    for idx in range(nedges):
        e = Edge(idx)
        pick = lambda k: rnd.sample(avail, min(len(avail), k))
        d = ('d%d/' % rnd.randrange(3)) if rnd.random() < f['subdirs'] else ''
        if rnd.random() < f['phony'] and idx > 0:
            e.phony = True; e.outs = ['ph%d' % idx]
            e.exp = pick(rnd.randrange(0, 3))
            if rnd.random() < 0.3: e.oo = pick(1)
            if rnd.random() < 0.12: e.selfref = rnd.choice(['exp', 'oo'])     # legacy CMake form: names itself as an input (dropped with a warning)
        else:
            e.outs = [d + 'o%d' % idx]
            if rnd.random() < f['multiout']:
                # second output: same dir, or a not-yet-existing subdirectory of the first one's directory
                e.outs.append((d + 'sub%d/' % idx if rnd.random() < 0.4 else d) + 'o%db' % idx)
            if rnd.random() < f['impout']: e.outs.append('io%d' % idx); e.n_imp_out = 1
            e.exp = pick(rnd.randrange(1, 4))
            rest = [a for a in avail if a not in e.exp]
            if rnd.random() < f['implicit'] and rest: e.imp = rnd.sample(rest, min(len(rest), rnd.randrange(1, 3)))
            rest = [a for a in rest if a not in e.imp]
            if rnd.random() < f['orderonly'] and rest: e.oo = rnd.sample(rest, min(len(rest), rnd.randrange(1, 3)))
            e.restat = rnd.random() < f['restat']
            e.generator = rnd.random() < f['generator']
            e.bl = rnd.random() < 0.15     # the real command is bound at build level, the rule carries a decoy
            e.blf = rnd.random() < 0.2     # restat/generator/deps/depfile bound at build level
            if rnd.random() < f['deps'] and len(e.outs) - e.n_imp_out >= 1:
                kind = rnd.choice(['gcc', 'msvc', 'depfile', 'gcc'])
                if len(e.outs) > 1 and kind != 'depfile': kind = 'depfile' if rnd.random() < 0.5 else ''
                if kind:
                    if kind != 'depfile': e.deps = kind
                    if kind != 'msvc': e.depfile = (d + 'o%d.d' % idx)
                    rest = [a for a in avail if a not in e.exp + e.imp]
                    e.hidden = rnd.sample(rest, min(len(rest), rnd.randrange(0, 3)))
                    if wf_reads:
                        # a generated hidden read needs a manifest path to its producer: order-only
                        prod = g.producer()
                        for h in e.hidden:
                            if h in prod and h not in e.oo: e.oo.append(h)
            if g.pools and rnd.random() < 0.6: e.pool = rnd.choice(sorted(g.pools))
            elif rnd.random() < 0.08: e.pool = 'console'
            if rnd.random() < f['rsp']:
                e.rsp = d + 'o%d.rsp' % idx
                e.rsp_empty = rnd.random() < 0.15
        if rnd.random() < f['validations'] and idx > 0 and not e.phony:
            cand = [o for pe in g.edges for o in pe.outs if not pe.phony]
            if cand: e.vals = [rnd.choice(cand)]
        g.edges.append(e)
        for o in e.outs:
            avail.append(o)
        # motif: phony aliases of a restat statement's outputs (so that pruning passes through phony edges)
        if e.restat and not e.phony and rnd.random() < f['alias']:
            for a in range(rnd.randrange(1, 3)):
                pe = Edge(1000 + idx * 10 + a); pe.phony = True; pe.outs = ['al%d_%d' % (idx, a)]; pe.exp = [rnd.choice(e.outs)]
                g.edges.append(pe); avail.append(pe.out0); avail.append(pe.out0)
    if rnd.random() < f['dyndep']: add_dyndep(rnd, g)
    if rnd.random() < 0.3:
        outs = [e.out0 for e in g.edges]
        g.defaults = rnd.sample(outs, rnd.randrange(1, min(3, len(outs)) + 1))
    if nedges >= 2 and rnd.random() < 0.15: g.inc = (rnd.choice(['include', 'subninja']), rnd.randrange(1, nedges))   # the later statements live in part.ninja
    return g

def dd_text(info):
    L = ['ninja_dyndep_version = 1']
    for out0, (io, ii, rs) in info.items():
        l = 'build ' + out0
        if io: l += ' | ' + ' '.join(io)
        l += ': dyndep'
        if ii: l += ' | ' + ' '.join(ii)
        L.append(l)
        # any NON-EMPTY value means true (GetBindingBool), as in a manifest: the value varies with the statement's name
        if rs: L.append('  restat = ' + ['1', '0', 'true', '1', 'no'][sum(out0.encode()) % 5])
    return '\n'.join(L) + '\n'

def add_dyndep(rnd, g, produced=None):
    """bind 1-3 statements to a dyndep file (a source, or produced by a new statement placed first)"""
    cands = [e for e in g.edges if not e.phony and e.idx < 900]
    if not cands: return
    k = len(g.dd_info)
    dd = 'dd%d' % k
    bound = rnd.sample(cands, min(len(cands), rnd.randrange(1, 4)))
    first = min(g.edges.index(e) for e in bound)
    before = list(g.sources) + [o for e in g.edges[:first] for o in e.outs]
    info = {}
    for e in bound:
        pos = g.edges.index(e)
        earlier = list(g.sources) + [o for pe in g.edges[:pos] for o in pe.outs]
        ii = [x for x in rnd.sample(earlier, min(len(earlier), rnd.randrange(0, 3))) if x not in e.exp + e.imp and x != dd]
        # the common idiom "build obj: cc src || gen.h dd": the dyndep file names an input the manifest lists order-only
        if e.oo and rnd.random() < 0.25:
            x = rnd.choice(e.oo)
            if x != dd and x not in ii: ii.append(x)
        io = ['ddo%d_%d' % (k, e.idx)] if rnd.random() < 0.4 else []
        info[e.out0] = (io, ii, rnd.random() < 0.3)
        e.dyndep = dd; e.dd_at_rule = rnd.random() < 0.3
        if rnd.random() < 0.5: e.oo.append(dd)
        else: e.imp.append(dd)
        e.hidden = e.hidden + [x for x in ii if x not in e.hidden]
    g.dd_info[dd] = info
    if produced is None: produced = rnd.random() < 0.6
    if produced:
        pe = Edge(900 + k); pe.outs = [dd]
        pe.exp = rnd.sample(before, min(len(before), rnd.randrange(1, 3)))
        pe.restat = rnd.random() < 0.3
        g.edges.insert(first, pe)
        g.ddtext[dd] = dd_text(info)
    else:
        g.sources[dd] = dd_text(info)

def inline_dyndep(g):
    """the same graph with the dyndep information written into the manifest"""
    import copy
    g2 = copy.deepcopy(g)
    for e in g2.edges:
        if e.dyndep and e.dyndep in g2.dd_info and e.out0 in g2.dd_info[e.dyndep]:
            io, ii, rs = g2.dd_info[e.dyndep][e.out0]
            # ninja splices every dyndep-discovered input in as an IMPLICIT input, also when the manifest already lists it order-only
            e.imp = e.imp + [x for x in ii if x not in e.exp + e.imp]
            e.oo = [x for x in e.oo if x not in ii]
            e.hidden = [x for x in e.hidden if x not in ii]
            e.outs = e.outs + io; e.n_imp_out += len(io)
            e.restat = e.restat or rs
            e.dyndep = None
    g2.dd_info = {}
    return g2

def inline_deps(g):
    """the same graph with every discovered (hidden) dependency declared as an implicit input"""
    import copy
    g2 = copy.deepcopy(g)
    for e in g2.edges:
        if e.hidden and (e.deps or e.depfile):
            dd = g2.dd_info.get(e.dyndep, {}).get(e.out0, ([], [], False))[1] if e.dyndep else []
            mv = [x for x in e.hidden if x not in dd]
            e.imp = e.imp + [x for x in mv if x not in e.exp + e.imp]
            e.oo = [x for x in e.oo if x not in mv]
            e.hidden = [x for x in e.hidden if x in dd]
    return g2

def scenario_header(sid, g, sources=None):
    L = ['scenario %s' % sid]
    L.append('file %s %s' % (hx('build.ninja'), hx(g.manifest())))
    if g.is_split(): L.append('file %s %s' % (hx('part.ninja'), hx(g.manifest(part=True))))
    for n, c in sorted((sources or g.sources).items()): L.append('file %s %s' % (hx(n), hx(c)))
    for e in g.edges:
        if e.hidden: L.append('hidden %s %s' % (hx(e.out0), ' '.join(hx(h) for h in e.hidden)))
    for p, t in sorted(g.ddtext.items()): L.append('ddtext %s %s' % (hx(p), hx(t)))
    return L

def build_step(j=1, k=1, targets=(), sched=(), faults=None, **kw):
    l = 'step build j=%d k=%d' % (j, k)
    if targets: l += ' targets=' + ','.join(hx(t) for t in targets)
    if sched: l += ' sched=' + ','.join(str(x) for x in sched)
    if faults: l += ' faults=' + ','.join('%s:%d:%d' % (hx(o), c, 1 if t else 0) for o, (c, t) in sorted(faults.items()))
    for a, v in kw.items():
        if v is None: continue
        if a == 'partial': l += ' partial=' + ','.join(hx(p) for p in v) if v else ''
        elif a == 'midedits': l += ' midedits=' + ','.join('%d:%s:%s:%s' % (at, kind, hx(p), hx(c)) for at, kind, p, c in v) if v else ''
        else: l += ' %s=%s' % (a, v)
    return l

# ------------------------------------------------------------------ trace parsing
class Build:
    def __init__(s):
        s.events = []; s.files = {}; s.log = {}; s.deps = {}; s.exit = None; s.err = ''
        s.started = []; s.finished = []; s.uptodate = False; s.now = 0; s.kind = 'build'
        s.raw = []; s.snap = {}; s.ps = []
    def order(s, kind, out0):
        for i, ev in enumerate(s.events):
            if ev[0] == kind and ev[1] == out0: return i
        return None

def parse_trace(lines):
    """returns {scenario_id: [Build,...]}"""
    res = {}; cur = None; b = None
    for l in lines:
        w = l.split()
        if not w: continue
        if w[0] == 'scenario': cur = res.setdefault(w[1], []); b = None
        elif w[0] in ('build', 'clean'): b = Build(); b.kind = w[0]; cur.append(b)
        elif w[0] == 'end': b = None
        elif b is None: continue
        elif w[0] == 'ev':
            b.raw.append(l)
            k = w[1]
            if k == 'start':
                kv = dict(x.split('=', 1) for x in w[3:])
                ins = [] if kv['ins'] == '-' else [uh(x) for x in kv['ins'].split(',')]
                b.events.append(('start', uh(w[2]), dict(ins=ins, dirs=kv['dirs'], rsp=kv['rsp'], pool=uh(kv['pool']), tick=int(kv['tick']))))
                b.started.append(uh(w[2]))
            elif k == 'finish':
                b.events.append(('finish', uh(w[2]), int(w[3]))); b.finished.append((uh(w[2]), int(w[3])))
            elif k == 'exit': b.exit = int(w[2]); b.err = uh(w[3]) if len(w) > 3 else ''; b.events.append(('exit', b.exit, b.err))
            elif k == 'uptodate': b.uptodate = True
            else: b.events.append((k,) + tuple(w[2:]))
        elif w[0] == 'snap':
            if w[1] == 'edge':
                kv = dict(x.split('=', 1) for x in w[3:])
                b.snap[uh(w[2])] = kv
        elif w[0] == 'ps':
            b.raw.append(l); b.events.append(('ps',) + tuple(w[1:]))
        elif w[0] == 'st':
            b.raw.append(l); b.events.append(('st',) + tuple(w[1:]))
        elif w[0] == 'state':
            if w[1] == 'file': b.files[uh(w[2])] = (int(w[3]), uh(w[4]))
            elif w[1] == 'log': b.log[uh(w[2])] = (w[3], int(w[4]))
            elif w[1] == 'deps': b.deps[uh(w[2])] = (int(w[3]), [] if w[4] == '-' else [uh(x) for x in w[4].split(',')])
            elif w[1] == 'now': b.now = int(w[2])
    return res
