"""C16: file names and response files reach commands intact.
 (i)  escaper: real Edge::EvaluateCommand($in/$in_newline/$out) vs extracted make_path_list, exhaustive on
      1- and 2-byte names and 3-byte names over the shell-special alphabet, in all positions of 3-name lists;
 (ii) the sh model itself is tied to the real /bin/sh: argv seen by a helper = the names (oracle, model-free);
 (iii) rspfile content/lifetime through the real ninja binary (RealDiskInterface::WriteFile path)."""
import itertools, os, random, subprocess, tempfile, shutil, concurrent.futures
import vlib
from vlib import hexs, unhex

LEVEL = 'proof'
TRUSTED = ['Coq 8.16.1 kernel (coqc); vm_compute only in Examples',
           'extraction: ExtrOcamlBasic only; OCaml driver extract/model_run.ml',
           'harness/run_esc.cc (real Edge::EvaluateCommand) under ASan; helpers/argv_dump.c; /bin/sh (dash) as the judge of what a word is',
           'ShModel.sh_words models only the sub-language the escaper emits (validated against dash by this check); the rest of sh is not modelled',
           'rspfile clause: exercised through the real binary and the engine harness (C04 monitor), proved only as the LTS fact in Engine/Plan']
ASSUMPTIONS = ['names contain no NUL; names with a newline are excluded from the /bin/sh comparison (property quantifier)', 'POSIX shell = /bin/sh of this image (dash)']

SPECIAL = b" '\"\\$`*?[]{}()<>|&;!~#=%^,:@+-./\t" + bytes([0x7f, 0x80, 0xff, 1])

def names(ctx):
    L = [bytes([b]) for b in range(1, 256) if b != 10]
    two = [bytes(t) for t in itertools.product([b for b in range(1, 256) if b != 10], repeat=2)]
    rnd = random.Random(ctx.seed * 31 + 16)
    if ctx.quick():
        # all 2-byte names where at least one byte is special, plus a sample of the rest
        sp = set(SPECIAL)
        two = [t for t in two if t[0] in sp or t[1] in sp] + rnd.sample(two, 6000)
    L += two
    L += [bytes(t) for t in itertools.product(SPECIAL[:(18 if ctx.quick() else 30)], repeat=3)]
    for _ in range(2000 if ctx.quick() else 20000):
        n = rnd.choice([1, 2, 5, 20, 200])
        L.append(bytes(rnd.choice([rnd.randrange(1, 256), rnd.choice(SPECIAL), 0x61]) for _ in range(n)).replace(b'\n', b'_'))
    return L

def sh_batch(args):
    helper, chunk = args
    script = b''.join(b'%s %s\n' % (helper.encode(), esc) for esc in chunk)
    p = subprocess.run(['/bin/sh'], input=script, stdout=subprocess.PIPE, stderr=subprocess.PIPE, timeout=120)
    o = p.stdout; recs = []; cur = []; i = 0
    while i + 4 <= len(o):
        n = int.from_bytes(o[i:i + 4], 'big'); i += 4
        if n == 0xFFFFFFFF: recs.append(cur); cur = []
        else: cur.append(o[i:i + n]); i += n
    return recs, p.stderr[-300:]

def rsp_real_binary(ctx, ninja):
    """response file: exact content before the command starts, kept on failure, removed on success,
    shorter content later is not followed by a stale tail"""
    bad = []
    d = tempfile.mkdtemp(prefix='verif-c16-', dir='/dev/shm')
    try:
        def manifest(content, code):
            return ('rule r\n  command = cp $out.rsp $out.seen && exit %d\n  rspfile = $out.rsp\n  rspfile_content = %s\n'
                    'build a: r in$ 1 in2\nbuild sub/b: r in2\n' % (code, content))
        open(d + '/in 1', 'w').write('x'); open(d + '/in2', 'w').write('y')
        def run(content, code):
            open(d + '/build.ninja', 'w').write(manifest(content, code))
            return subprocess.run([ninja, '-C', d, '-k', '0'], stdout=subprocess.PIPE, stderr=subprocess.STDOUT, timeout=60)
        long_c = '-O2 $in --flag="q u o t e" ' + 'L' * 300
        p = run(long_c, 1)
        exp = long_c.replace('$in', "'in 1' in2")
        seen = open(d + '/a.seen').read() if os.path.exists(d + '/a.seen') else None
        if seen != exp: bad.append('rspfile content at command start differs (failing run): %r' % (seen,))
        if not os.path.exists(d + '/a.rsp') or open(d + '/a.rsp').read() != exp: bad.append('rspfile not kept with its content after a FAILED command')
        short_c = 'short $in'
        p = run(short_c, 0)
        for o, e in (('a', "short 'in 1' in2"), ('sub/b', 'short in2')):
            seen = open(d + '/%s.seen' % o).read() if os.path.exists(d + '/%s.seen' % o) else None
            if seen != e: bad.append('rspfile of %s held %r at command start, expected %r' % (o, seen, e))
            if os.path.exists(d + '/%s.rsp' % o): bad.append('rspfile of %s not removed after the command succeeded' % o)
        # boundary: the content evaluates to the EMPTY string (e.g. $in_newline of a statement with implicit inputs only) after a failed
        # run left the file behind with the old list: the command must find an empty response file, not the stale one and not none
        def manifest3(ins, code):
            return ('rule r\n  command = cp $out.rsp $out.seen && exit %d\n  rspfile = $out.rsp\n  rspfile_content = $in_newline\nbuild c: r %s\n' % (code, ins))
        for first in (True, False):
            for f in ('c.rsp', 'c.seen', 'c'):
                if os.path.exists(d + '/' + f): os.unlink(d + '/' + f)
            if first:
                open(d + '/build.ninja', 'w').write(manifest3('in2 in$ 1', 1))
                subprocess.run([ninja, '-C', d], stdout=subprocess.PIPE, stderr=subprocess.STDOUT, timeout=60)
                if not os.path.exists(d + '/c.rsp'): bad.append('rspfile not kept after a failed command ($in_newline)')
            open(d + '/build.ninja', 'w').write(manifest3('| in2', 0))
            p = subprocess.run([ninja, '-C', d], stdout=subprocess.PIPE, stderr=subprocess.STDOUT, timeout=60)
            seen = open(d + '/c.seen').read() if os.path.exists(d + '/c.seen') else None
            if seen != '':
                bad.append('empty rspfile_content%s: the command found %s at start, expected an empty response file (ninja exit %d)'
                           % (' after a failed run left the old file' if first else '', 'no response file' if seen is None else repr(seen[:80]), p.returncode))
        # "kept when it fails" for EVERY way of failing: exit statuses other than 1 (2, 126, 127, 255) and death by a signal
        for how, cmdtail in (('exit 2', 'exit 2'), ('exit 3', 'exit 3'), ('exit 126', 'exit 126'), ('exit 127', 'exit 127'), ('exit 255', 'exit 255'),
                             ('killed by SIGKILL', 'kill -9 $$$$'), ('killed by SIGSEGV', 'kill -11 $$$$'), ('exit 1', 'exit 1')):
            for f in ('f.rsp', 'f.seen', 'f'):
                if os.path.exists(d + '/' + f): os.unlink(d + '/' + f)
            open(d + '/build.ninja', 'w').write('rule r\n  command = cp $out.rsp $out.seen && %s\n  rspfile = $out.rsp\n  rspfile_content = X $in Y\nbuild f: r in2\n' % cmdtail)
            p = subprocess.run([ninja, '-C', d], stdout=subprocess.PIPE, stderr=subprocess.STDOUT, timeout=60)
            if p.returncode == 0: bad.append('command `%s` failed but ninja exited 0' % how)
            if not os.path.exists(d + '/f.rsp'): bad.append('rspfile not kept after a command that failed by `%s`' % how)
            elif open(d + '/f.rsp').read() != 'X in2 Y': bad.append('rspfile kept after `%s` holds %r' % (how, open(d + '/f.rsp').read()[:60]))
    finally:
        shutil.rmtree(d, ignore_errors=True)
    return bad

def run(ctx):
    d = vlib.build_impl('asan')
    impl = os.path.join(d, 'impl_run'); helper = os.path.join(d, 'argv_dump')
    ninja = os.path.join(vlib.build_impl('plain'), 'ninja')
    N = names(ctx)
    rnd = random.Random(ctx.seed + 160)
    # lists of three names: the name under test in every position
    lists = []
    for i, n in enumerate(N):
        a, b = N[(i * 7 + 3) % len(N)], N[(i * 13 + 5) % len(N)]
        pos = i % 3
        if a == n or a == b: a = a + b'A'
        if b == n: b = b + b'B'
        l = [a, b]; l.insert(pos, n); lists.append(l)
    var = ['in', 'out', 'in'][:]
    lines = ['%s %s' % (('in', 'out', 'in_newline')[i % 3], ' '.join(hexs(x) for x in l)) for i, l in enumerate(lists)]
    rc, iout, ierr = vlib.run_lines(impl, 'pathlist', lines)
    if rc != 0 or len(iout) != len(lines):
        ctx.violation('memory-safety', 'component pathlist\n' + '\n'.join(lines[max(0, len(iout) - 1):len(iout) + 1]) + '\n', 'escaper crashed (rc=%s): %s' % (rc, ierr[-500:]))
        return
    mout = mw = None
    if ctx.model:
        rc, mout, merr = vlib.run_lines(ctx.model, 'pathlist', lines)
        rc2, mw, _ = vlib.run_lines(ctx.model, 'shwords', iout)
    # real /bin/sh on the implementation's text (space-separated variants only)
    idx = [i for i in range(len(lists)) if i % 3 != 2]
    chunks = [idx[k:k + 1500] for k in range(0, len(idx), 1500)]
    seen = {}
    with concurrent.futures.ThreadPoolExecutor(max_workers=12) as ex:
        for ch, (recs, err) in zip(chunks, ex.map(sh_batch, [(helper, [unhex(iout[i]) for i in ch]) for ch in chunks])):
            if len(recs) != len(ch):
                # a syntax error in the script = an escaping failure; locate it by bisection-free rerun one by one
                for i in ch:
                    r, e = sh_batch((helper, [unhex(iout[i])]))
                    seen[i] = r[0] if len(r) == 1 else None
            else:
                for i, r in zip(ch, recs): seen[i] = r
    nontriv = set()
    for i, l in enumerate(lists):
        esc = unhex(iout[i])
        if esc != b' '.join(l) and i % 3 != 2: nontriv.add(iout[i])
        if i in seen and seen[i] != l:
            ctx.violation('sh-argv', 'component pathlist\ncase %s\n' % lines[i], 'names %r are read by /bin/sh as %r (text %r)' % (l, seen[i], esc))
        if mout is not None and mout[i] != iout[i]:
            ctx.corr_broken.append('pathlist %s: model %s impl %s' % (lines[i], mout[i], iout[i]))
        if mw is not None and i % 3 != 2:
            want = 'some ' + ' '.join(hexs(x) for x in l)
            if mw[i] != want: ctx.corr_broken.append('sh_words(impl text) of %s = %s, names %s' % (iout[i], mw[i], want))
        # verbatim clause: names made only of known-safe characters are passed unchanged
        if i % 3 == 0 and all(all((c < 128 and chr(c).isalnum()) or c in b'_+-./' for c in n) for n in l) and esc != b' '.join(l):
            ctx.violation('verbatim', 'component pathlist\ncase %s\n' % lines[i], 'safe names %r were quoted: %r' % (l, esc))
    for w in rsp_real_binary(ctx, ninja):
        ctx.violation('rspfile', 'real-binary rspfile sequence (see tools/props/c16.py rsp_real_binary)\n', w)
    ctx.cov.update(evaluations=len(lists), distinct_nontrivial=len(nontriv),
                   rule='names: every byte 1..255 except LF, 2-byte names (all with a shell-special byte + sample; thorough: all), 3-byte names over the '
                        'shell-special alphabet, random long names; each placed at position i%%3 of a 3-name list, lists cycling through $in/$out/$in_newline; '
                        'non-trivial = the emitted text differs from the plain join (quoting happened), distinct by emitted text; %d lists judged by the real /bin/sh' % len(seen),
                   samples=[{'names': [repr(x) for x in lists[i]], 'text': repr(unhex(iout[i])), 'sh_argv': [repr(x) for x in (seen.get(i) or [])]} for i in (3, 40, 100, 5000, len(lists) - 2) if i < len(lists)],
                   distribution={'names': len(N), 'sh_checked': len(seen), 'rspfile_real_binary_sequences': 1})
