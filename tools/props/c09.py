"""C09: the deps log (.ninja_deps) survives torn writes, restarts and compaction -- plus the deps-log part of C13
(no bytes in .ninja_deps crash the reader).

Three parties see every case line (protocol: extract/depslog_run.ml = harness/run_depslog.cc):
  impl  : the REAL DepsLog (Load / OpenForWrite / RecordDeps / Close / Recompact / GetDeps) from the working tree, ASan+UBSan,
          one forked child per case on real files under /dev/shm
  model : the extracted Gallina transliteration coq/Log/DepsLogDefs.v (what the theorems of Properties_C09.v talk about);
          it describes the reader AS WRITTEN, undefined behaviour included (`unsafe <class>`)
  ref   : an independent struct-based reader/writer in this file implementing the INTENDED format semantics: keep exactly the
          whole well-formed records, cut the file back to the end of the last one, latest record per output wins, recompaction
          drops exactly the dead outputs.  It is the property oracle, and it is itself checked against the abstract history
          (a dict "output -> last recorded (mtime, inputs)") on every case.
  impl = model  -> correspondence;   impl = ref (and no crash)  -> the property holds on this case.
A failure is a known finding only if the independent parse of the INPUT bytes puts it in a listed defect class:
  stray-size-bytes-not-truncated : the file (or an ancestor in the history) ends 1-3 bytes after a record boundary
  depslog-reader-ub              : the first record the intended reader rejects is one of UB_CLASSES
DOCUMENTED DEVIATIONS model <-> implementation (never reported, neither as violation nor as broken correspondence; counted in the evidence
under distribution.documented_model_deviations).  DepsLogDefs.v transliterates the loader as it was when the model was written, defects
included; once a defect is repaired in the working tree the implementation agrees with `ref` and no longer with the model:
  fixed-stray-bytes : the input (or an ancestor) ends 1-3 bytes after a record boundary; the model says "no truncation" and lets the next
                      session append behind the stray bytes, the repaired loader cuts the file back to the boundary (= ref)
  fixed-reader-ub   : the first bad record is in UB_CLASSES; the model says `unsafe <class>` (or accepts a phantom out id), the repaired
                      loader rejects the record and truncates in front of it (= ref)
A deviation is accepted ONLY when the implementation's result equals the reference result AND the input is in one of these two classes."""
import os, random, re, shutil, struct, subprocess, resource, tempfile, time
from concurrent.futures import ThreadPoolExecutor
import vlib
from vlib import unhex

LEVEL = 'proof'
TRUSTED = ['Coq 8.16.1 kernel (coqc)', 'extraction: ExtrOcamlBasic only; OCaml driver extract/depslog_run.ml (run with an unlimited stack)',
           'harness/run_depslog.cc: real DepsLog + fresh State per case in a forked child, real files under /dev/shm, ASan+UBSan (-fno-sanitize-recover); '
           'liveness = "has an in-edge whose rule binds deps", set up after Load and before OpenForWrite/Recompact as NinjaMain::OpenDepsLog orders them',
           'the python reference reader/writer in tools/props/c09.py is the statement of the intended format semantics (checked against the abstract "latest record per output" history on every case)']
ASSUMPTIONS = ['little-endian machine with 32-bit int (the model and the reference read the raw memory image as such)',
               'no I/O errors (ferror, failing fwrite/truncate/rename) and no crash point inside Recompact/ReplaceContent (not modelled; C07 covers crash points of the real binary)',
               'recorded paths are non-empty and do not end in NUL (DepsLogDefs.wf_path: RecordId asserts on the empty path, Load strips trailing NULs as padding)',
               'out ids >= 2^23 in damaged files make the unfixed reader allocate more than the 64 MiB the harness allows (ASan max_allocation_size_mb): '
               'counted as a crash of the depslog-reader-ub family, the model (which has no memory limit) says "ok" there',
               'DepsLogDefs.v models the loader with its original defects; where the working tree has repaired one, the implementation is compared with the python reference instead '
               '(documented deviation classes fixed-stray-bytes / fixed-reader-ub, counted in coverage.distribution.documented_model_deviations): the theorems then speak about the old loader on those inputs',
               'torn writes are modelled as prefixes of the byte sequence the writer appended (records are flushed whole, in order)']

HDR = b'# ninjadeps\n' + struct.pack('<i', 4)
MAXREC = (1 << 19) - 1
UB_CLASSES = {'deps-short': 'deps record of 4 or 8 bytes (deps_count < 0: new Node*[negative] aborts)',
              'dep-id-negative': 'dependency id with the sign bit set (nodes_[negative])',
              'out-id-negative': 'output id with the sign bit set (deps_[negative])',
              'out-id-intmax': 'output id INT_MAX (signed overflow in out_id + 1, then a 16 GiB resize)',
              'out-id-unknown': 'output id >= number of path records accepted without a range check (phantom entry; Recompact indexes nodes_ out of bounds; huge resize)',
              'path-all-nul': 'path record whose path part is all NUL (reads buf[-1] for 1-2 bytes; creates the empty path for 3)',
              'path-misaligned': 'path record whose size is not a multiple of 4 (misaligned unsigned load of the checksum)'}
BENIGN = ('eof', 'size0', 'toobig', 'incomplete', 'deps-misaligned', 'dep-id-unknown', 'path-empty', 'checksum', 'dup-path')
STRAY = 'stray-size-bytes-not-truncated'
READER_UB = 'depslog-reader-ub'

# ---------------------------------------------------------------------------------------------------------------
# independent reference: intended reader / writer / recompaction (struct-based; shares nothing with the model)
class Tab:
    def __init__(s): s.paths = []; s.idx = {}; s.deps = {}; s.total = 0; s.uniq = 0
    def view(s): return {s.paths[o]: (m, [s.paths[i] for i in ids]) for o, (m, ids) in s.deps.items()}

def enc_path(i, p):
    pad = (4 - len(p) % 4) % 4
    return struct.pack('<I', len(p) + pad + 4) + p + b'\0' * pad + struct.pack('<I', ~i & 0xffffffff)
def enc_deps(o, m, ids):
    return struct.pack('<Iiq', 0x80000000 | 4 * (3 + len(ids)), o, m) + struct.pack('<%di' % len(ids), *ids)

def ref_load(data):
    """None = no file / bad header (start over); else (tables of the whole well-formed records, their end, why the next one is not taken)"""
    if data is None or data[:16] != HDR: return None
    t = Tab(); off = 16; n = len(data)
    while True:
        if n - off < 4: why = 'eof' if n == off else 'stray'; break
        w = struct.unpack_from('<I', data, off)[0]; sz = w & 0x7fffffff
        if sz == 0: why = 'size0'; break
        if sz > MAXREC: why = 'toobig'; break
        if off + 4 + sz > n: why = 'incomplete'; break
        body = data[off + 4:off + 4 + sz]
        if w >> 31:
            if sz % 4: why = 'deps-misaligned'; break
            if sz < 12: why = 'deps-short'; break
            v = struct.unpack('<%di' % (sz // 4), body); out = v[0]; ids = list(v[3:])
            bad = next((i for i in ids if i < 0 or i >= len(t.paths)), None)
            if bad is not None: why = 'dep-id-negative' if bad < 0 else 'dep-id-unknown'; break
            if out < 0: why = 'out-id-negative'; break
            if out == 0x7fffffff: why = 'out-id-intmax'; break
            if out >= len(t.paths): why = 'out-id-unknown'; break
            t.total += 1
            if out not in t.deps: t.uniq += 1
            t.deps[out] = (struct.unpack_from('<q', body, 4)[0], ids)
        else:
            if sz <= 4: why = 'path-empty'; break
            p = body[:-4]
            for _ in range(3):
                if p[-1:] == b'\0': p = p[:-1]
            if not p: why = 'path-all-nul'; break
            if sz % 4: why = 'path-misaligned'; break
            if struct.unpack_from('<I', body, sz - 4)[0] != ~len(t.paths) & 0xffffffff: why = 'checksum'; break
            if p in t.idx: why = 'dup-path'; break
            t.idx[p] = len(t.paths); t.paths.append(p)
        off += 4 + sz
    return t, off, why

def wants_recompaction(t, why):
    # after a clean end, or after dropping 1-3 bytes of a torn size word (not an error: the log is whole)
    return why in ('eof', 'stray') and t.total > 1000 and t.total > t.uniq * 3

def ref_record(t, op):
    out, m, ins = op; made = False; w = b''
    for p in [out] + ins:
        if p not in t.idx:
            if not p or len(p) + (4 - len(p) % 4) % 4 + 4 > MAXREC: return w, False
            t.idx[p] = len(t.paths); w += enc_path(len(t.paths), p); t.paths.append(p); made = True
    ids = [t.idx[p] for p in ins]; o = t.idx[out]
    if not made and t.deps.get(o) == (m, ids): return w, True          # deps unchanged: nothing is written
    if 4 * (3 + len(ids)) > MAXREC: return w, False
    t.deps[o] = (m, ids)
    return w + enc_deps(o, m, ids), True

def ref_run(t, ops):
    w = b''
    for op in ops:
        b, ok = ref_record(t, op); w += b
        if not ok: break
    return w

def ref_recompact(t, dead):
    n = Tab(); w = HDR
    for o in sorted(t.deps):
        if t.paths[o] in dead: continue
        m, ids = t.deps[o]
        b, ok = ref_record(n, (t.paths[o], m, [t.paths[i] for i in ids])); w += b
        if not ok: return None
    return n, w

def ref_session(data, dead, ops):
    r = ref_load(data)
    if r is None: t = Tab(); base = HDR
    else:
        t, end, why = r; base = data[:end]
        if wants_recompaction(t, why):
            rc = ref_recompact(t, dead)
            if rc is None: return base
            t, base = rc
    return base + ref_run(t, ops)

def ref_recompact_file(data, dead):
    r = ref_load(data)
    if r is None: return None       # bad header: Load unlinks, `ninja -t recompact` then fails and leaves no deps log
    t, end, why = r
    rc = ref_recompact(t, dead)
    return data[:end] if rc is None else rc[1]

def hx(b): return b.hex() if b else '-'
def fmt_load(data):
    r = ref_load(data)
    if r is None: return 'badheader'
    t, end, why = r
    return 'ok trunc=%s recompact=%d paths=%s deps=%s' % (
        '-' if why == 'eof' else end, wants_recompaction(t, why), ','.join(hx(p) for p in t.paths),
        ';'.join('%d:%d:%s' % (o, m, '+'.join(map(str, ids)) or '-') for o, (m, ids) in sorted(t.deps.items())))

def abstract_after(cmd, data, dead, ops):
    """the abstract history: output -> last recorded (mtime, inputs); None when an op cannot be recorded (size limit)"""
    r = ref_load(data)
    A = r[0].view() if r else {}
    if cmd == 'recompact' or (cmd == 'session' and r and wants_recompaction(r[0], r[2])):
        A = {o: v for o, v in A.items() if o not in dead}
    if cmd == 'session':
        for out, m, ins in ops:
            if any(not p or len(p) + (4 - len(p) % 4) % 4 + 4 > MAXREC for p in [out] + ins) or 4 * (3 + len(ins)) > MAXREC: return None
            A[out] = (m, list(ins))
    return A

# ---------------------------------------------------------------------------------------------------------------
# cases
def op_tok(op): return '%s:%d:%s' % (op[0].hex(), op[1], '+'.join(i.hex() for i in op[2]) or '-')
def file_tok(d): return '-' if d is None else ('empty' if d == b'' else d.hex())
def dead_tok(dead): return ','.join(sorted(p.hex() for p in dead)) or '-'

class Case:
    def __init__(s, oracle, cmd, data, dead=(), ops=(), taint=(), stage='', left=None):
        s.oracle, s.cmd, s.data, s.dead, s.ops, s.taint, s.stage = oracle, cmd, data, frozenset(dead), list(ops), tuple(taint), stage
        s.left = left          # content of a left-over .ninja_deps.recompact (a recompaction that was killed): must make no difference
        f = file_tok(data)
        if cmd == 'load': s.line = 'load ' + f
        elif cmd == 'recompact': s.line = 'recompact %s %s' % (f, dead_tok(s.dead))
        else: s.line = ' '.join(['session', f, dead_tok(s.dead)] + [op_tok(o) for o in s.ops])
        s.iline = s.line + (' left=' + file_tok(left) if left is not None else '')      # the model has no such file: same answer expected
        r = ref_load(data)
        s.why = r[2] if r else 'badheader'
        if cmd == 'load': s.ref = fmt_load(data); s.ref_file = None
        elif cmd == 'session':
            s.ref_file = ref_session(data, s.dead, s.ops); s.ref = s.ref_file.hex() + ' ' + fmt_load(s.ref_file)
        else:
            s.ref_file = ref_recompact_file(data, s.dead)
            s.ref = 'nofile nofile' if s.ref_file is None else s.ref_file.hex() + ' ' + fmt_load(s.ref_file)
        s.A = abstract_after(cmd, data, s.dead, s.ops)
        # self-check of the oracle: the reference result shows exactly the abstract history
        if s.A is not None:
            rr = ref_load(data if cmd == 'load' else s.ref_file)
            if (rr[0].view() if rr else {}) != s.A:
                raise RuntimeError('reference reader/writer disagrees with the abstract history on: ' + s.line[:400])
        s.impl = s.model = None
    def tags(s): return (s.why,) + s.taint

def parse_case(line, taint=()):
    w = line.split()
    left = None
    if w and w[-1].startswith('left='):
        t = w.pop()[5:]; left = b'' if t == 'empty' else bytes.fromhex(t)
        c = parse_case(' '.join(w), taint)
        return Case('replay', c.cmd, c.data, dead=c.dead, ops=c.ops, taint=taint, left=left)
    f = None if w[1] == '-' else (b'' if w[1] == 'empty' else bytes.fromhex(w[1]))
    dl = lambda t: [unhex(x) for x in t.split(',')] if t not in ('-', '') else []
    if w[0] == 'load': return Case('replay', 'load', f, taint=taint)
    if w[0] == 'recompact': return Case('replay', 'recompact', f, dead=dl(w[2]), taint=taint)
    ops = []
    for t in w[3:]:
        o, m, i = t.split(':')
        ops.append((unhex(o), int(m), [unhex(x) for x in i.split('+')] if i not in ('-', '') else []))
    return Case('replay', 'session', f, dead=dl(w[2]), ops=ops, taint=taint)

def parse_tables(s):
    """'ok trunc=.. recompact=.. paths=.. deps=..' -> (trunc, recompact, paths, deps) or None"""
    if not s.startswith('ok '): return None
    f = dict(x.split('=', 1) for x in s.split(' ')[1:5])
    paths = [unhex(x) for x in f['paths'].split(',')] if f['paths'] else []
    deps = {}
    for d in (f['deps'].split(';') if f['deps'] else []):
        o, m, ids = d.split(':')
        deps[int(o)] = (int(m), [int(i) for i in ids.split('+')] if ids != '-' else [])
    return (None if f['trunc'] == '-' else int(f['trunc'])), f['recompact'] == '1', paths, deps

def view_of(paths, deps):
    v = {}
    for o, (m, ids) in deps.items():
        v[paths[o] if o < len(paths) else ('phantom', o)] = (m, [paths[i] if 0 <= i < len(paths) else ('dangling', i) for i in ids])
    return v

def norm(i):
    i = i.split(' | ')[0]
    return 'badheader' if i == 'notfound' else i
def crashed(i): return i.startswith(('CRASH', 'SANITIZER'))
def result_file(c):
    """the file on disk after the case (after the reloading process truncated it), from the implementation's line; None = no file"""
    n = norm(c.impl)
    if c.cmd == 'load':
        t = parse_tables(n)
        if n == 'badheader': return None
        return c.data[:t[0]] if t and t[0] is not None else c.data
    if n.startswith('nofile'): return None
    f, rest = n.split(' ', 1)
    f = b'' if f == 'empty' else bytes.fromhex(f)
    t = parse_tables(rest)
    if rest == 'badheader': return None
    return f[:t[0]] if t and t[0] is not None else f

# ---------------------------------------------------------------------------------------------------------------
# running both sides
NPROC = max(2, min(12, (os.cpu_count() or 4) - 2))
IMPL_ENV = {'ASAN_OPTIONS': 'detect_leaks=0:abort_on_error=0:exitcode=99:max_allocation_size_mb=64:symbolize=0',
            'UBSAN_OPTIONS': 'print_stacktrace=0:halt_on_error=1:exitcode=98'}

def _unlimit_stack():
    resource.setrlimit(resource.RLIMIT_STACK, (resource.RLIM_INFINITY, resource.RLIM_INFINITY))

def _run_chunk(argv, lines, env, big_stack):
    if not lines: return []
    p = subprocess.run(argv, input=('\n'.join(lines) + '\n').encode(), stdout=subprocess.PIPE, stderr=subprocess.PIPE, env=env,
                       timeout=3000, preexec_fn=_unlimit_stack if big_stack else None)
    out = p.stdout.decode(errors='replace').split('\n')
    if out and out[-1] == '': out.pop()
    if p.returncode != 0 or len(out) != len(lines):
        raise RuntimeError('%s died (rc=%s) after %d of %d cases; next case: %s; stderr: %s' % (
            argv[0], p.returncode, len(out), len(lines), lines[min(len(out), len(lines) - 1)][:300], p.stderr.decode(errors='replace')[-500:]))
    return out

def run_parallel(argv, lines, env=None, big_stack=False):
    e = dict(os.environ)
    if env: e.update(env)
    # balance by size: big lines are spread round-robin
    order = sorted(range(len(lines)), key=lambda i: -len(lines[i]))
    chunks = [order[k::NPROC] for k in range(NPROC)]
    with ThreadPoolExecutor(NPROC) as ex:
        res = list(ex.map(lambda ch: _run_chunk(argv, [lines[i] for i in ch], e, big_stack), chunks))
    out = [None] * len(lines)
    for ch, r in zip(chunks, res):
        for i, o in zip(ch, r): out[i] = o
    return out

class St:
    """bookkeeping of one run"""
    def __init__(s, ctx, impl, model):
        s.ctx, s.impl, s.model = ctx, impl, model
        s.n = 0; s.lines = set(); s.nontrivial = set()
        s.fails = []           # (family|None, case, oracle, detail)
        s.stage = {}; s.whys = {}; s.crash_kinds = {}; s.deviations = {}; s.x86_variant = 0; s.oom = 0; s.crashes = 0
        s.samples = {}
        s.t_impl = s.t_model = 0.0; s.safe_files = 0

def family_of(c, is_crash):
    tags = c.tags()
    if is_crash: return READER_UB if any(t in UB_CLASSES for t in tags) else None
    if 'stray' in tags: return STRAY
    if any(t in UB_CLASSES for t in tags): return READER_UB
    return None

def deviation_class(c):
    tags = c.tags()
    if 'stray' in tags: return 'fixed-stray-bytes'
    if any(t in UB_CLASSES for t in tags): return 'fixed-reader-ub'
    return None

def evaluate(st, cases):
    """run the cases on the implementation and the model, compare three ways; fills c.impl / c.model"""
    if not cases: return
    lines = [c.line for c in cases]
    t0 = time.time()
    iout = run_parallel([st.impl, 'depslog'], [c.iline for c in cases], IMPL_ENV)
    t1 = time.time(); st.t_impl += t1 - t0
    mout = run_parallel([st.model], lines, big_stack=True) if st.model else [None] * len(lines)
    st.t_model += time.time() - t1
    recheck = []
    for c, i, m in zip(cases, iout, mout):
        c.impl, c.model = i, m
        st.n += 1; st.lines.add(c.line)
        st.stage[c.stage] = st.stage.get(c.stage, 0) + 1
        st.whys[c.why] = st.whys.get(c.why, 0) + 1
        cr = crashed(i); n = norm(i)
        if cr:
            st.crashes += 1
            k = i.split(' ')[1 if i.startswith('SANITIZER') else 2] if len(i.split(' ')) > 1 else '?'
            k = re.sub(r'\d+', 'N', re.sub(r'0x[0-9a-f]+|_?\(/[^)]*\)_?', '', k))[:70]
            st.crash_kinds[k] = st.crash_kinds.get(k, 0) + 1
        if not cr and (';' in n or 'trunc=' in n and 'trunc=-' not in n or 'deps=' in n and not n.endswith('deps=')): st.nontrivial.add(c.line)
        # -- correspondence model <-> implementation
        if m is not None:
            mu = m.startswith('unsafe')
            if cr and mu: pass
            elif cr:
                if 'allocation-size-too-big' in i and 'out-id-unknown' in c.tags(): st.oom += 1
                else: st.ctx.corr_broken.append('%s: model %s impl %s' % (c.line[:300], m[:200], i[:200]))
            elif n != m:
                dev = deviation_class(c)
                if n == c.ref and dev: st.deviations[dev] = st.deviations.get(dev, 0) + 1     # documented: the model still has the repaired defect
                else: recheck.append(c)
        # -- the property, on the implementation alone
        if cr:
            st.fails.append((family_of(c, True), c, 'memory-safety', 'the reader crashed: ' + i[:200]))
        elif n != c.ref:
            st.fails.append((family_of(c, False), c, c.oracle, explain(c, n)))
        elif c.A is not None:
            if n == 'badheader' or n.startswith('nofile'): v = {}
            else:
                t = parse_tables(n if c.cmd == 'load' else n.split(' ', 1)[1])
                v = view_of(t[2], t[3]) if t else {}
            if v != c.A: st.fails.append((family_of(c, False), c, c.oracle, 'GetDeps view %r differs from the recorded history %r' % (v, c.A)))
    if recheck and st.model:
        # a reader that reads misaligned checksums safely instead of rejecting them = the model's x86 variant
        xl = [c.line.replace(c.cmd, c.cmd + 'x86', 1) for c in recheck]
        for c, x in zip(recheck, run_parallel([st.model], xl, big_stack=True)):
            if norm(c.impl) == x and 'path-misaligned' in c.tags(): st.x86_variant += 1
            else: st.ctx.corr_broken.append('%s: model %s impl %s' % (c.line[:300], c.model[:200], norm(c.impl)[:200]))

def explain(c, n):
    """what differs from the intended result, in words"""
    want = c.ref
    if c.cmd != 'load' and ' ' in n and ' ' in want:
        fi, li = n.split(' ', 1); fw, lw = want.split(' ', 1)
        ti, tw = parse_tables(li), parse_tables(lw)
        if ti and tw:
            vi, vw = view_of(ti[2], ti[3]), view_of(tw[2], tw[3])
            lost = sorted(o for o in vw if vi.get(o) != vw[o])
            if lost:
                return 'after the session the next load %s and GetDeps differs from the recorded history for %s (e.g. %r: got %r, recorded %r)' % (
                    'cuts the file back to %d bytes' % ti[0] if ti[0] is not None else 'keeps the file', [repr(o) for o in lost[:4]], lost[0], vi.get(lost[0]), vw[lost[0]])
        if fi != fw: return 'resulting file differs from the intended one: got %s want %s' % (fi[:160], fw[:160])
    ti, tw = parse_tables(n), parse_tables(want)
    if ti and tw and ti[2:] == tw[2:] and ti[0] != tw[0]:
        return 'load keeps the right records but leaves the file at %s bytes instead of cutting it back to %s (input %d bytes)' % (
            ti[0] if ti[0] is not None else 'its', tw[0] if tw[0] is not None else 'leaving it', len(c.data or b''))
    return 'got %s want %s' % (n[:300], want[:300])

# ---------------------------------------------------------------------------------------------------------------
# generation
MTIMES = [0, 1, -1, 2, 2**31 - 1, 2**31, 2**32 - 1, 2**32, 2**32 + 1, -2**31, -2**32, -2**32 - 1, 2**63 - 1, -2**63, 1758800000123456789, 5 * 2**32 + 7]
ALPHA = b'abcxyz/._- +,:' + bytes([0xc3, 0xa9, 0xff, 0x01, 0x80])

def mk_path(rnd, n):
    p = bytes(rnd.choice(ALPHA) for _ in range(n))
    return p

def mk_pool(rnd, long_ones=False):
    pool = []
    for n in range(1, 10):
        for _ in range(2):
            p = mk_path(rnd, n)
            if p not in pool: pool.append(p)
    pool.append(b'a\0b')                                   # NUL inside a path is legal for the format
    if long_ones:
        for n in rnd.sample(range(497, 505), 4): pool.append(mk_path(rnd, n))
    return pool

def mk_ops(rnd, pool, n, outs=None):
    outs = outs or rnd.sample(pool, rnd.randrange(1, 4))
    ops = []
    for _ in range(n):
        r = rnd.random()
        if ops and r < 0.15: ops.append(rnd.choice(ops))                                   # identical: possibly "unchanged => no write"
        elif ops and r < 0.30: o, m, i = rnd.choice(ops); ops.append((o, rnd.choice(MTIMES), i))   # same deps, new mtime
        elif ops and r < 0.42:
            # same output, same mtime, same NUMBER of deps, every path already known: only the list differs (one entry / order)
            o, m, i = rnd.choice(ops); i = list(i)
            known = sorted(set(p for op in ops for p in [op[0]] + op[2]))
            if len(i) >= 2 and rnd.random() < 0.4:
                a, b = rnd.sample(range(len(i)), 2); i[a], i[b] = i[b], i[a]
            elif i: i[rnd.randrange(len(i))] = rnd.choice(known)
            ops.append((o, m, i))
        else:
            k = rnd.randrange(0, 5)
            ins = rnd.sample(pool, k) if rnd.random() < 0.8 else [rnd.choice(pool) for _ in range(k)]
            ops.append((rnd.choice(outs), rnd.choice(MTIMES) if rnd.random() < 0.75 else rnd.randrange(-2**63, 2**63), ins))
    return ops

def boundaries(data):
    """offsets of the record boundaries of a well-formed log"""
    offs = [16]; off = 16
    while off + 4 <= len(data):
        off += 4 + (struct.unpack_from('<I', data, off)[0] & 0x7fffffff)
        if off > len(data): break
        offs.append(off)
    return offs

def W(*ws): return b''.join(struct.pack('<I', w & 0xffffffff) for w in ws)

def handmade():
    """(label, bytes after the prefix) -- one malformed/edge record each"""
    D = 0x80000000; out = []
    for sz in (0, 4, 8, 12, 16, 20):
        for fill in (0, 1, 0xffffffff):
            out.append(('deps size %d fill %x' % (sz, fill), W(D | sz) + W(*([fill] * (sz // 4)))))
    for sz in (1, 2, 3, 5, 6, 7, 13, 14, 15): out.append(('deps size %d' % sz, W(D | sz) + b'\0' * sz))
    for oid in (-1, -2**31, 2**31 - 1, 2, 3, 1000, 2**23, 2**23 - 1):
        out.append(('out id %d' % oid, W(D | 12, oid, 5, 0)))
        out.append(('out id %d with deps' % oid, W(D | 20, oid, 5, 0, 0, 1)))
    for did in (-1, -2**31, -2, 2, 3, 2**30, 2**31 - 1):
        out.append(('dep id %d' % did, W(D | 16, 0, 5, 0, did)))
        out.append(('dep ids 0,%d' % did, W(D | 20, 0, 5, 0, 0, did)))
        out.append(('dep ids %d,7' % did, W(D | 20, 0, 5, 0, did, 7)))
    for n in (0, 2):          # expected id of the next path record: both prefixes are tried, one of them fits
        for sz in range(1, 13):
            for body in (b'\0', b'x'):
                b = (body * sz)[:max(sz - 4, 0)]
                out.append(('path size %d %r id %d' % (sz, body, n), W(sz) + (b + W(~n))[:sz].ljust(sz, b'\xff')))
        out.append(('path x NUL NUL NUL', W(8) + b'x\0\0\0' + W(~n)))
        out.append(('path NUL x NUL NUL', W(8) + b'\0x\0\0' + W(~n)))
        out.append(('path bad checksum', W(8) + b'q\0\0\0' + W(~(n + 1))))
        out.append(('path raw id checksum', W(8) + b'q\0\0\0' + W(n)))
        out.append(('path duplicate', W(8) + b'a\0\0\0' + W(~n)))
        out.append(('path 5 misaligned', W(5) + b'q' + W(~n)))
        out.append(('path 6 misaligned', W(6) + b'qq' + W(~n)))
        out.append(('path 7 misaligned', W(7) + b'qqq' + W(~n)))
        out.append(('path 9 misaligned', W(9) + b'qqqqq' + W(~n)))
    for w in (MAXREC + 1, MAXREC, MAXREC - 3, 2**31 - 1, 2**31 + MAXREC + 1, 2**32 - 1, 2**31 + MAXREC, 65536):
        out.append(('size word %#x' % w, W(w) + b'\0' * 24))
    return out

WORDS_Q = [0, 1, 4, 5, 8, 12, 0x80000000, 0x80000004, 0x80000008, 0x8000000c, 0x80000010, 0xffffffff, 0xfffffffe, 0x7fffffff]
WORDS_T = WORDS_Q + [2, 3, 7, 11, 16, 0x80000005, 0x80000014, 0xfffffffd, MAXREC, MAXREC + 1, 0x00000061, 0x80000000 | MAXREC]

def words_upto(ws, L):
    cur = [b'']
    for _ in range(L):
        cur = [c + W(w) for c in cur for w in ws]
        for c in cur: yield c

# ---------------------------------------------------------------------------------------------------------------
def history_rounds(st, hists, final_load=True):
    """hists: dicts {file, steps:[(cmd, dead, ops) | ('cut', k) | ('tail', bytes)], oracle, stage, taint:set}; steps run in lockstep rounds"""
    active = list(hists)
    while active:
        cases = []; owners = []
        for h in active:
            while h['steps'] and h['steps'][0][0] in ('cut', 'tail'):
                s = h['steps'].pop(0)
                f = h['file'] or b''
                h['file'] = f[:int(s[1] * len(f)) if isinstance(s[1], float) else s[1]] if s[0] == 'cut' else f + s[1]
            if not h['steps']: continue
            step = h['steps'].pop(0); cmd, dead, ops = step[:3]; left = None
            if len(step) > 3 and step[3] is not None:
                # what a recompaction that was killed left behind: a prefix of the file it was writing, or arbitrary bytes
                kind, x = step[3]
                if kind == 'prefix':
                    full = (ref_recompact_file(h['file'], frozenset(dead)) if h['file'] is not None else None) or HDR
                    left = full[:max(1, int(x * len(full)))]
                else: left = x
            c = Case(h['oracle'], cmd, h['file'], dead, ops, taint=sorted(h['taint']), stage=h['stage'], left=left)
            cases.append(c); owners.append(h)
        evaluate(st, cases)
        active = []
        for h, c in zip(owners, cases):
            if c.why not in BENIGN and c.why != 'badheader': h['taint'].add(c.why)
            if crashed(c.impl): continue
            h['file'] = result_file(c)
            h.setdefault('cases', []).append(c)
            if h['steps']: active.append(h)

def run(ctx):
    impl = os.path.join(vlib.build_impl('asan'), 'impl_run')
    model = os.path.join(os.path.dirname(ctx.model), 'depslog_run') if ctx.model else None
    if model and not os.path.exists(model): model = None; ctx.proof['broken'].append('depslog_run was not built')
    # private copies: the shared build caches are pruned by concurrent checks
    with tempfile.TemporaryDirectory(prefix='verif-c09-', dir='/dev/shm') as tmp:
        impl = shutil.copy(impl, os.path.join(tmp, 'impl_run'))
        if model: model = shutil.copy(model, os.path.join(tmp, 'depslog_run'))
        return run_in(ctx, impl, model)

def run_in(ctx, impl, model):
    st = St(ctx, impl, model)
    rnd = random.Random(ctx.seed * 1009 + 9)
    q = ctx.quick()
    if ctx.replay:
        taint = (); cases = []
        for l in open(ctx.replay):
            l = l.strip()
            if l.startswith('taint '): taint = tuple(x for x in l[6:].split(',') if x)
            elif l.startswith('case '): cases.append(parse_case(l[5:], taint)); taint = ()
        for c in cases: c.stage = 'replay'
        evaluate(st, cases)
        for c in cases: vlib.log('replay: %s\n  impl : %s\n  model: %s\n  ref  : %s' % (c.line[:200], c.impl[:300], (c.model or '-')[:300], c.ref[:300]))
        return report(ctx, st, q)

    # ---- 0. encoders: model = reference (keeps the theorems' enc_* and this file's writer the same thing)
    if model:
        el = []; want = []
        for i, p in [(0, b'a'), (1, b'bb'), (2, b'ccc'), (3, b'dddd'), (70000, b'eeeee'), (2**31 - 2, b'x' * 9)]:
            el.append('encpath %d %s' % (i, p.hex())); want.append(enc_path(i, p).hex())
        for o, m, ids in [(0, 0, []), (1, -1, [0]), (5, 2**32, [1, 2, 3]), (2, -2**63, [7]), (3, 2**63 - 1, [0, 0])]:
            el.append('encdeps %d %d %s' % (o, m, ','.join(map(str, ids)) or '-')); want.append(enc_deps(o, m, ids).hex())
        for l, w, g in zip(el, want, _run_chunk([model], el, dict(os.environ), True)):
            if w != g: ctx.corr_broken.append('%s: model %s reference %s' % (l, g, w))

    # ---- A. op sequences -> one session on no file (roundtrip, latest wins, "unchanged => no write")
    seqs = []
    canon = [(b'a', 1, [])]
    seqs.append(canon)
    seqs.append([(b'out.o', 5, [b'a.h', b'bb.h']), (b'out.o', 5, [b'a.h', b'bb.h']), (b'out.o', 6, [b'a.h', b'bb.h']), (b'o2', 2**32, [b'a.h', b'out.o'])])
    for k in range(300 if q else 3000):
        pool = mk_pool(rnd, long_ones=(k % 10 == 0))
        seqs.append(mk_ops(rnd, pool, rnd.randrange(1, 9)))
    A = [Case('roundtrip', 'session', None if k % 5 else b'', (), ops, stage='A-roundtrip') for k, ops in enumerate(seqs)]
    evaluate(st, A)
    logs = []
    for c in A:
        if crashed(c.impl): continue
        f = result_file(c)
        logs.append((f, c.ops))
        # explicit: one deps record per op that changed something, none for the others
        t = Tab(); changing = 0
        for op in c.ops:
            before = (len(t.paths), dict(t.deps)); ref_record(t, op)
            changing += (len(t.paths), t.deps) != before
        r = ref_load(f)
        if r is None or r[0].total != changing or r[2] != 'eof':
            st.fails.append((None, c, 'no-write-when-unchanged', 'the log holds %s deps records, %d of the %d RecordDeps calls changed something' % (r and r[0].total, changing, len(c.ops))))
    if model:
        # the theorems' specification (abstract_ops / spec_view) is this file's abstract history
        sl = []; want = []
        for c in A[:400]:
            outs = sorted(set(o[0] for o in c.ops) | set(p for o in c.ops for p in o[2]))[:6]
            sl.append('spec %s %s' % (','.join(o.hex() for o in outs), ' '.join(op_tok(o) for o in c.ops)))
            want.append(' '.join('%d:%s' % (c.A[o][0], '+'.join(i.hex() for i in c.A[o][1]) or '-') if o in c.A else 'none' for o in outs))
        for l, w, g in zip(sl, want, run_parallel([model], sl, big_stack=True)):
            if w != g: ctx.corr_broken.append('%s: model %s abstract history %s' % (l[:300], g, w))
    st.samples['roundtrip'] = {'case': A[1].line, 'result': norm(A[1].impl)[:400]}

    # ---- B. torn writes: real logs cut at every offset x {reload; second session + reload; third load}
    small = sorted([l for l in logs if 44 <= len(l[0]) <= 230], key=lambda l: len(l[0]))
    exh = [small[0]] + rnd.sample(small[1:], min(len(small) - 1, 3 if q else 12)) if small else []
    sampled = rnd.sample(logs, min(len(logs), 40 if q else 400))
    hists = []; n_exh_cuts = 0
    for (f, ops), full in [(l, True) for l in exh] + [(l, False) for l in sampled]:
        if full: offs = range(0, len(f)); n_exh_cuts += len(f)
        else:
            bs = boundaries(f)
            offs = sorted(set(k for b in bs for k in range(b - 2, b + 6) if 0 <= k < len(f)) | set(rnd.randrange(len(f)) for _ in range(6)))
            if len(offs) > 60: offs = sorted(rnd.sample(offs, 60))
        pool = sorted(set(p for o in ops for p in [o[0]] + o[2]))
        for k in offs:
            cut = f[:k]
            ops2 = [(b'b', 2, [])] if ops == canon else mk_ops(rnd, pool + mk_pool(rnd)[:6], rnd.randrange(1, 4), outs=rnd.sample(pool, 1) + [mk_path(rnd, rnd.randrange(1, 7))])
            hists.append(dict(file=cut, steps=[('load', (), ())], oracle='torn-recovery', stage='B-torn-load', taint=set()))
            hists.append(dict(file=cut, steps=[('session', (), ops2), ('load', (), ())], oracle='torn-next-session', stage='B-torn-session', taint=set()))
    history_rounds(st, hists)
    h = hists[min(61, len(hists) - 1)]
    if h.get('cases'): st.samples['torn'] = {'case': h['cases'][0].line[:600], 'result': norm(h['cases'][0].impl)[:400]}

    # ---- C. garbage after a valid prefix
    hists = []
    for k in range(1200 if q else 15000):
        f, ops = rnd.choice(logs)
        bs = boundaries(f); b = rnd.choice(bs)
        r = rnd.random()
        if r < 0.35: tail = bytes(rnd.randrange(256) for _ in range(rnd.randrange(1, 28)))
        elif r < 0.6: tail = W(*[rnd.choice(WORDS_T) for _ in range(rnd.randrange(1, 6))]) + bytes(rnd.randrange(256) for _ in range(rnd.choice((0, 0, 1, 2, 3))))
        else:
            rest = bytearray(f[b:]) or bytearray(rnd.choice(logs)[0][16:])
            for _ in range(rnd.randrange(1, 3)):
                if rest: rest[rnd.randrange(len(rest))] = rnd.choice((0, 1, 0x7f, 0x80, 0xff, rnd.randrange(256)))
            tail = bytes(rest)
        pool = sorted(set(p for o in ops for p in [o[0]] + o[2]))
        ops2 = mk_ops(rnd, pool + mk_pool(rnd)[:5], rnd.randrange(1, 4))
        hists.append(dict(file=f[:b] + tail, steps=[('load', (), ())], oracle='garbage-prefix-kept', stage='C-garbage-load', taint=set()))
        hists.append(dict(file=f[:b] + tail, steps=[('session', (), ops2), ('load', (), ())], oracle='garbage-then-session', stage='C-garbage-session', taint=set()))
    history_rounds(st, hists)

    # ---- D. hand-made malformed records, bad headers, word-level enumeration
    P0 = HDR; P1 = HDR + enc_path(0, b'a') + enc_path(1, b'bb'); P2 = P1 + enc_deps(0, 5, [1])
    hists = []
    for label, rec in handmade():
        for pre in (P0, P1, P2):
            for follow in (b'', enc_path(2, b'zz')):
                f = pre + rec + follow
                hists.append(dict(file=f, steps=[('load', (), ())], oracle='malformed-rejected', stage='D-handmade', taint=set()))
                if not follow:
                    hists.append(dict(file=f, steps=[('recompact', (), ()), ('load', (), ())], oracle='malformed-rejected', stage='D-handmade', taint=set()))
                    hists.append(dict(file=f, steps=[('session', (), [(b'n1', 3, [b'n2'])]), ('load', (), ())], oracle='malformed-rejected', stage='D-handmade', taint=set()))
    for n in range(0, 17):
        hists.append(dict(file=HDR[:n], steps=[('session', (), [(b'a', 1, [b'b'])]), ('load', (), ())], oracle='bad-header-starts-over', stage='D-header', taint=set()))
    for bad in (HDR[:12] + W(1), HDR[:12] + W(3), HDR[:12] + W(5), b'# ninjadepz\n' + W(4), HDR[:12] + W(0x04000000)):
        for cmd in ('load', 'recompact', 'session'):
            hists.append(dict(file=bad + P1[16:], steps=[(cmd, (), [(b'a', 1, [])] if cmd == 'session' else ())], oracle='bad-header-starts-over', stage='D-header', taint=set()))
    hists.append(dict(file=None, steps=[('recompact', (), ())], oracle='bad-header-starts-over', stage='D-header', taint=set()))
    nwords = 0
    for pre in (P0, P1):
        for ws in words_upto(WORDS_Q if q else WORDS_T, 3):
            nwords += 1
            hists.append(dict(file=pre + ws, steps=[('load', (), ())], oracle='malformed-rejected', stage='D-words', taint=set()))
    history_rounds(st, hists)
    if model:
        # C13_depslog_bounds_partial: safe_file f = true -> the reader does not crash on f
        dl = [h['cases'][0] for h in hists if h.get('cases') and h['cases'][0].cmd == 'load' and h['cases'][0].data is not None]
        sf = run_parallel([model], ['safe ' + file_tok(c.data) for c in dl], big_stack=True)
        st.safe_files = sum(1 for x in sf if x.startswith('1'))
        for c, x in zip(dl, sf):
            if x.startswith('1') and crashed(c.impl) and 'allocation-size-too-big' not in c.impl:
                ctx.corr_broken.append('safe_file says no UB class occurs but the reader crashed: %s -> %s' % (c.line[:300], c.impl[:200]))

    # ---- E. multi-session histories: sessions, recompaction (tool and threshold), dead outputs, cuts in between
    hists = []
    for k in range(250 if q else 3000):
        pool = mk_pool(rnd)[:10]; outs = rnd.sample(pool, 3)
        steps = []
        for s in range(rnd.randrange(2, 6)):
            r = rnd.random()
            dead = set(rnd.sample(outs, rnd.randrange(0, 3)))
            if r < 0.6: steps.append(('session', dead, mk_ops(rnd, pool, rnd.randrange(1, 5), outs=outs)))
            elif r < 0.85:
                l = rnd.random()
                steps.append(('recompact', dead, (), None if l < 0.5 else ('prefix', rnd.random()) if l < 0.85 else ('prefix', 1.0) if l < 0.9 else
                              ('bytes', bytes(rnd.randrange(256) for _ in range(rnd.randrange(0, 24))))))
            else: steps.append(('cut', rnd.random()))
        steps.append(('load', (), ()))
        hists.append(dict(file=None, steps=steps, oracle='sessions-latest-wins', stage='E-history', taint=set()))
    # around the recompaction threshold (> 1000 deps records and more than 3 per output)
    for total, nouts in ((1001, 3), (1000, 3), (1002, 334), (1002, 333), (1100, 1)) if q else ((1001, 3), (1000, 3), (1002, 334), (1002, 333), (1100, 1), (1500, 7), (3000, 999), (3001, 1000), (1001, 333), (1001, 334)):
        outs = [b'o%d' % i for i in range(nouts)]
        ops = [(outs[i % nouts], i, [b'h%d' % (i % 5)]) for i in range(total)]
        dead = {outs[0]}
        hists.append(dict(file=None, steps=[('session', (), ops), ('session', dead, [(outs[-1], -7, [b'new'])]), ('load', (), ())],
                          oracle='recompact-live', stage='E-threshold', taint=set()))
        hists.append(dict(file=None, steps=[('session', (), ops), ('session', dead, [(outs[-1], -7, [b'new'])], ('prefix', 0.37)), ('load', (), ())],
                          oracle='recompact-live', stage='E-threshold', taint=set()))
        hists.append(dict(file=None, steps=[('session', (), ops), ('tail', b'\x0c\x00'), ('session', dead, [(outs[-1], -7, [b'new'])]), ('load', (), ())],
                          oracle='recompact-live', stage='E-threshold', taint=set()))
        hists.append(dict(file=None, steps=[('session', (), ops), ('cut', 0.999), ('session', dead, []), ('recompact', {outs[-1]}, ()), ('load', (), ())],
                          oracle='recompact-live', stage='E-threshold', taint=set()))
    history_rounds(st, hists)
    hh = [h for h in hists if h['stage'] == 'E-history' and len(h.get('cases', [])) >= 3]
    if hh: st.samples['history'] = [{'case': c.line[:500], 'result': norm(c.impl)[:300]} for c in hh[0]['cases']]

    # ---- F. records near the 512 KiB limit: writer and reader must agree on which path/deps records are too long
    # (quick tier: the lengths around the limit for path records only; thorough: more lengths, also as a dependency)
    if True:
        hists = []
        for n in ((524280, 524283, 524287, 524288) if q else (524276, 524277, 524279, 524280, 524281, 524283, 524284, 524285, 524286, 524287, 524288, 524292)):
            big = bytes((i * 7 + n) % 251 + 1 for i in range(n))
            for ops in ([(big, 1, [b'a'])],) if q else ([(big, 1, [b'a'])], [(b'a', 1, [big, b'b'])]):
                hists.append(dict(file=None, steps=[('session', (), ops), ('cut', 0.5), ('session', (), [(b'z', 1, [b'a'])]), ('load', (), ())],
                                  oracle='record-limit', stage='F-limit', taint=set()))
        history_rounds(st, hists)
    return report(ctx, st, q, n_exh_cuts=n_exh_cuts, nwords=nwords, nseq=len(seqs))

def report(ctx, st, q, **kw):
    if st.deviations:
        vlib.log('note: the implementation matches the reference reader, not the (unrepaired) model, on %s -- documented deviation classes, not reported' % st.deviations)
    groups = {}
    for fam, c, oracle, detail in st.fails: groups.setdefault(fam, []).append((c, oracle, detail))
    def listed(slug, props):
        return [k for k in ctx.known_list if k.get('property') in props and k.get('id') == slug]
    def scn(cs):
        out = ''
        for c, oracle, detail in cs:
            out += '# oracle %s: %s\n# input class: %s\n# impl : %s\n# model: %s\n# want : %s\n' % (
                oracle, detail[:400], ','.join(c.tags()), c.impl[:300], (c.model or '-')[:300], c.ref[:300])
            if c.taint: out += 'taint %s\n' % ','.join(c.taint)
            out += 'case %s\n' % c.iline
        return out
    # -- family: stray size bytes
    g = groups.pop(STRAY, [])
    if g:
        g.sort(key=lambda x: len(x[0].line))
        loads = [x for x in g if x[0].cmd == 'load'][:1]; sess = [x for x in g if x[0].cmd == 'session' and not x[0].taint][:1]
        wit = loads + sess or g[:1]
        text = ('%d of the cases whose file (or an ancestor in the history) ends 1-3 bytes after a record boundary fail: Load sees feof() on the short read of the size word, '
                'does not set read_failed and leaves the stray bytes; the next session appends behind them and the load after it drops what that session recorded. '
                'Witness load: %s. Witness session: %s' % (len(g), loads[0][2][:200] if loads else '(not in this run)', sess[0][2][:300] if sess else '(not in this run)'))
        hdr = '# verif-scenario 1\n# property C09\n# finding %s\n' % STRAY
        if listed(STRAY, ('C09',)):
            p = ctx.replay_file(STRAY, hdr + scn(wit))
            ctx.known_finding('id=%s replay=%s %s' % (STRAY, p, text))
        else:
            ctx.violation(STRAY, scn(wit), 'id=%s %s' % (STRAY, text))
    # -- family: reader UB / missing validation
    g = groups.pop(READER_UB, [])
    if g:
        g.sort(key=lambda x: len(x[0].line))
        per = {}
        for x in g:
            cl = next(t for t in x[0].tags() if t in UB_CLASSES)
            per.setdefault((cl, ('crash in ' + x[0].cmd) if crashed(x[0].impl) else 'accepted'), []).append(x)
        wit = [v[0] for k, v in sorted(per.items())]
        cls = {}
        for (cl, kind), v in sorted(per.items()):
            d = cls.setdefault(cl, dict(n=0, crash=0, msg=None)); d['n'] += len(v)
            if kind != 'accepted':
                d['crash'] += len(v)
                if d['msg'] is None: d['msg'] = re.sub(r'0x[0-9a-f]+|_\(/[^)]*\)_?', '', v[0][0].impl.split(' | ')[0])[:90]
        text = '%d cases on damaged files crash DepsLog (Load / Recompact) or make Load accept a record the format does not allow; by class of the first bad record: %s' % (
            len(g), '; '.join('%s x%d (%d crashes%s)' % (cl, d['n'], d['crash'], ', e.g. ' + d['msg'] if d['msg'] else ': accepted silently') for cl, d in sorted(cls.items())))
        hdr = '# verif-scenario 1\n# property C09 (C13 for .ninja_deps)\n# finding %s\n' % READER_UB + ''.join('# class %s: %s\n' % kv for kv in sorted(UB_CLASSES.items()))
        if listed(READER_UB, ('C09', 'C13')):
            p = ctx.replay_file(READER_UB, hdr + scn(wit))
            ctx.known_finding('id=%s replay=%s %s' % (READER_UB, p, text))
        else:
            ctx.violation(READER_UB, scn(wit), 'id=%s %s' % (READER_UB, text))
    # -- anything else is a violation of its own
    rest = groups.pop(None, [])
    rest.sort(key=lambda x: len(x[0].line))
    seen = set()
    for c, oracle, detail in rest:
        if (oracle, c.why) in seen: continue
        seen.add((oracle, c.why))
        ctx.violation(oracle, scn([(c, oracle, detail)]), '%s: %s [%s]' % (oracle, detail[:500], c.line[:200]))
    ctx.cov.update(
        evaluations=st.n, distinct_nontrivial=len(st.nontrivial), exhaustive=True,
        rule='case = one line (load | session | recompact) with explicit file bytes, run on the real DepsLog (forked child, ASan+UBSan), the extracted model and the python reference. '
             'A: RecordDeps sequences over names of every length 1-9 (all paddings) and ~500 bytes, mtimes across the 32-bit split/negative/0/int64 extremes, repeated outputs, identical repeats; '
             'B: logs written by the real RecordDeps cut at EVERY offset (exhaustive for %s small logs = %s cuts; boundary +-5 and random offsets for the others) x {reload; second session + reload; third load}; '
             'C: valid prefix + random bytes / boundary-value words / mutated remainder, then load and session+reload+load; '
             'D: hand-made malformed records (sizes 0-20, sign bits, ids -1/INT_MIN/INT_MAX/too large, checksums, all-NUL paths, size %% 4 != 0, oversize words) after 3 prefixes, each followed by load / recompact / session, '
             'every header prefix and bad versions, all %s sequences of <= 3 words over %d boundary values after 2 prefixes (exhaustive); '
             'E: random histories of 2-5 sessions / tool recompactions with dead outputs / cuts, logs around the 1000-record recompaction threshold; F (thorough): names around the 512 KiB record limit. '
             'non-trivial = the resulting log holds at least one deps record or the reader had to cut the file; distinct by case line'
             % (kw.get('n_exh_cuts') and 'the' or 'no', kw.get('n_exh_cuts', 0), kw.get('nwords', 0), len(WORDS_Q if q else WORDS_T)),
        samples=[st.samples[k] for k in sorted(st.samples)] or ['(replay)'],
        distribution=dict(stages=st.stage, input_class_of_first_rejected_record=st.whys, distinct_case_lines=len(st.lines), impl_crashes=st.crashes, crash_kinds=st.crash_kinds,
                          failures_by_family={str(k): len(v) for k, v in [(STRAY, [f for f in st.fails if f[0] == STRAY]), (READER_UB, [f for f in st.fails if f[0] == READER_UB]), ('unclassified', [f for f in st.fails if f[0] is None])]},
                          documented_model_deviations=st.deviations, impl_matches_x86_model_variant=st.x86_variant, files_safe_by_safe_file=st.safe_files, alloc_limit_crashes_model_ok=st.oom,
                          op_sequences=kw.get('nseq', 0), seconds_impl=round(st.t_impl, 1), seconds_model=round(st.t_model, 1), processes=NPROC))

# ---------------------------------------------------------------------------------------------------------------
# C13: malformed .ninja_deps streams for the aggregator of tools/props/c13.py (crash/sanitizer only, no oracle)
def fuzz_lines(rnd, n):
    L = []
    D = 0x80000000
    def both(f): L.append('load ' + file_tok(f)); L.append('recompact %s -' % file_tok(f))
    # ids at and around the end of the node table, for table sizes at and around the vector's capacity steps
    for k in (0, 1, 2, 3, 4, 5, 7, 8, 9, 15, 16, 17, 31, 32, 33, 64, 128, 255, 256, 1024):
        pre = HDR + b''.join(enc_path(i, b'p%d' % i) for i in range(k))
        for did in (k - 1, k, k + 1, 2 * k, -1):
            both(pre + W(D | 16, 0, 5, 0, did))
            both(pre + W(D | 20, 0, 5, 0, 0, did) + enc_path(k, b'next'))
        for oid in (k, k + 1, -1): both(pre + W(D | 12, oid, 5, 0) + (enc_path(k, b'next') if k % 2 else b''))
    for prefix in (HDR, HDR + enc_path(0, b'a') + enc_path(1, b'bb'), HDR + enc_path(0, b'a') + enc_path(1, b'bb') + enc_deps(0, 5, [1])):
        for _, rec in handmade(): both(prefix + rec)
    while len(L) < n:
        r = rnd.random()
        pre = HDR + b''.join(enc_path(i, mk_path(rnd, rnd.randrange(1, 9)) + b'%d' % i) for i in range(rnd.choice((0, 1, 2, 3, 4, 8))))
        if r < 0.3: f = pre + bytes(rnd.randrange(256) for _ in range(rnd.randrange(0, 40)))
        elif r < 0.8: f = pre + W(*[rnd.choice(WORDS_T) for _ in range(rnd.randrange(1, 9))]) + bytes(rnd.randrange(256) for _ in range(rnd.choice((0, 0, 1, 2, 3))))
        elif r < 0.9: f = bytes(rnd.randrange(256) for _ in range(rnd.randrange(0, 30)))
        else: f = (HDR[:rnd.randrange(len(HDR) + 1)] + bytes(rnd.randrange(256) for _ in range(rnd.randrange(0, 8))))
        both(f)
    return L
