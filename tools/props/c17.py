"""C17: dependency cycles are always diagnosed, and only real ones."""
import random
import enginecheck as ec
from props import engcommon
LEVEL = 'proof'; TRUSTED = engcommon.TRUSTED_ENGINE; ASSUMPTIONS = engcommon.ASSUMPTIONS_ENGINE + ['cycles closed only by deps-log/depfile records of a statement that is already dirty are not spliced by ninja (see C10 finding) and are not planted here']
def run(ctx):
    def extra(ctx):
        rnd = random.Random(ctx.seed * 17 + 1)
        return [ec.gen_cycle_history(rnd, 'C17_cyc_%d' % i) for i in range(2500 if ctx.quick() else 20000)] + \
               [ec.motif_deps_record_cycle(rnd, 'C17_rec%d' % i) for i in range(40 if ctx.quick() else 400)]
    known = {k.get('id') for k in ctx.known_list if k.get('property') == 'C17'}
    def orc(h, st, b, prev=None):
        bad = ec.oracle_c17(h, st, b)
        if bad and isinstance(bad[0], tuple):
            if bad[0][0] == 'KNOWN:dyndep-output-cycle-not-named' and 'dyndep-output-cycle-not-named' in known:
                ctx.known_finding('id=dyndep-output-cycle-not-named ' + bad[0][1][:260]); return None
            return [bad[0][1]]
        return bad
    engcommon.run_engine_property(ctx, 'C17', scan_accept=700, oracles=[('cycle', orc)], faults=0.0, n=300, extra_hists=extra, feat=dict(dyndep=0.2))
