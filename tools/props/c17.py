"""C17: dependency cycles are always diagnosed, and only real ones."""
import random
import enginecheck as ec
from props import engcommon
LEVEL = 'proof'; TRUSTED = engcommon.TRUSTED_ENGINE; ASSUMPTIONS = engcommon.ASSUMPTIONS_ENGINE + ['cycles closed only by deps-log/depfile records of a statement that is already dirty are not spliced by ninja (see C10 finding) and are not planted here']
def run(ctx):
    def extra(ctx):
        rnd = random.Random(ctx.seed * 17 + 1)
        return [ec.gen_cycle_history(rnd, 'C17_cyc_%d' % i) for i in range(2500 if ctx.quick() else 20000)]
    engcommon.run_engine_property(ctx, 'C17', scan_accept=700, oracles=[('cycle', ec.oracle_c17)], faults=0.0, n=300, extra_hists=extra, feat=dict(dyndep=0.2))
