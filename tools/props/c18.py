"""C18: cleaning removes only what ninja built, and all of it (`-t clean` all/targets/rules, -g, -n; `-t cleandead`)."""
import os, random
import enginecheck as ec, cleanmodel as cm
from props import engcommon
LEVEL = 'proof'
TRUSTED = [
    'Coq 8.16.1 kernel (coqc)', 'extraction: ExtrOcamlBasic only (coq/ExtractClean.v); OCaml driver extract/clean_run.ml',
    'harness/run_engine.cc `step clean`: the REAL ManifestParser/State/Cleaner/DyndepLoader/BuildLog over the in-memory DiskInterface; '
    'observed: successful RemoveFile calls in order, cleaned_files_count(), return status, file tree',
    'tools/cleanmodel.py: model input (generator graph + dyndep information of the dyndep files that exist, tracked file tree, build-log entries) '
    'and the set-based scope oracle computed from the generator\'s description',
    'not modelled: ninja.cc ToolClean option parsing (mirrored by the harness), CanonicalizePath of target names (C14), deps-log nodes in State '
    '(the harness does not load the deps log for clean steps; they are g_extra_nodes of the model)']
ASSUMPTIONS = [
    'one path string per file: depfile/rspfile bindings are not canonicalized by ninja; two spellings of one file are two Remove() attempts',
    'depfile/rspfile paths are not also nodes of the graph (aux_paths_disjoint) for the no-source/no-phony/generator claims',
    'dyndep files that exist at clean time are valid for the manifest (a failing DyndepLoader::LoadDyndeps leaves a partially updated graph)',
    'dry-run reports are observed through cleaned_files_count() and the attempted set removed_ (`ev clean-attempted`; the harness runs the Cleaner QUIET); the real run that follows must remove that many']

def run(ctx):
    if ctx.replay:
        ctx.violation('replay-unsupported', open(ctx.replay).read(), 'engine replays are scenario files: run tools/showtrace %s' % ctx.replay, no_input=True)
        return
    if ctx.model: cm.set_model_dir(os.path.dirname(ctx.model))
    known = {k.get('id') for k in ctx.known_list if k.get('property') == 'C18'}
    n = 4000 if ctx.quick() else 15000
    seeds = [ctx.seed] if ctx.quick() else [ctx.seed, ctx.seed + 1000, ctx.seed + 2000]
    hists = cm.directed_histories() + cm.cycle_histories()
    for seed in seeds:
        rnd = random.Random(seed * 1000003 + 18)
        hists += [cm.gen_clean_history(rnd, 'C18_%d_%d' % (seed, i)) for i in range(n)]
    rc, tr, err, out = ec.run_hists(hists)
    crashes = getattr(ec.run_hists, 'crashes', [])
    for hh, crc, cerr in crashes:
        ctx.violation('engine-crash', hh.text(), 'ninja died (rc=%s) in scenario %s: %s' % (crc, hh.sid, cerr.replace('\n', ' ')[-300:]))
    rep = cm.check_hists(hists, tr, crashes, known)
    for h, t in rep.corr[:5]:
        ctx.corr_broken.append('Cleaner model and implementation differ: ' + t)
        ctx.replay_file('clean-mismatch', h.text())
    seen = {}
    for kind, h, t in rep.viol:
        seen[kind] = seen.get(kind, 0) + 1
        if seen[kind] <= 3: ctx.violation(kind, h.text(), t)
    for t in rep.known.values(): ctx.known_finding(t)
    ctx.cov.update(evaluations=rep.evals, distinct_nontrivial=rep.nontrivial,
                   rule='seeded random graphs (2-8 statements + dyndep/phony extras; multi/implicit/dyndep-discovered outputs, shared inputs and rules, depfile, '
                        'rspfile, generator, phony, validations, subdirectories) x histories (full/partial/failing first build or none; rm of outputs/depfiles/dyndep '
                        'files, leftover rspfiles, statements removed or renamed, droplog) x clean steps of every scope (all, -g, targets incl. unknown/duplicate/'
                        'non-canonical names, rules incl. phony/unknown, cleandead; -n; immediate repetition) x rebuild; plus hand-written families; one evaluation = '
                        'one Cleaner run compared with the model (removal order, count, status, tree) and judged by the scope oracle; non-trivial = it removed or reported a file',
                   samples=rep.samples, distribution=dict(scenarios=len(hists), modes=dict(rep.modes), oracle_checks=dict(rep.stats), files_removed=rep.removed_total))
