"""C07: interrupting or killing ninja never poisons the next build."""
import random
import enginecheck as ec, engine, histmodel
from props import engcommon
LEVEL = 'proof'; TRUSTED = engcommon.TRUSTED_ENGINE + ['crash points: every in-memory-disk mutation, command start, before/after each command write, before/after each fflush of a log file (-Wl,--wrap=fflush), torn variants of each flush; the child process _exits there (stdio buffers lost like SIGKILL)']
ASSUMPTIONS = engcommon.ASSUMPTIONS_ENGINE + ['a killed command has written each of its outputs completely or not at all (atomic replacement)', 'real signal delivery/timing is exercised only by the real-binary part']
def run(ctx):
    rnd = random.Random(ctx.seed * 7 + 7)
    nb = 25 if ctx.quick() else 300
    bases = [ec.gen_crash_base(rnd, 'C07_b%d' % i) for i in range(nb)] + [ec.motif_restat_deps_crash(rnd, 'C07_rd%d' % i) for i in range(4)]
    npts = ec.count_crash_points(bases, rnd)
    hists = []
    for b, n in zip(bases, npts): hists += ec.crash_variants(rnd, b, min(n, 120))
    ints = [ec.gen_interrupt_history(rnd, 'C07_i%d' % i) for i in range(600 if ctx.quick() else 6000)]
    known = {k.get('id') for k in ctx.known_list if k.get('property') == 'C07'}
    allh = hists + ints
    rc, tr, err, out = ec.run_hists(allh, chunk=150)
    for hh, crc, cerr in getattr(ec.run_hists, 'crashes', []):
        ctx.violation('engine-crash', hh.text(), 'ninja\'s engine died outside a scheduled crash point (rc=%s) in scenario %s: %s' % (crc, hh.sid, cerr[-200:]))
    nev = 0; nontriv = set(); reached = 0
    for h in allh:
        prs = ec.pair(h, tr.get(h.sid, []))
        prev = (None, None)
        for st, b in prs:
            nev += 1
            if st.opts.get('crash') is not None:
                if any(ev[0] == 'crashed' for ev in b.events): reached += 1; nontriv.add(h.sid)
                prev = (st, b); continue
            bad = ec.oracle_interrupt(h, st, b, prev[1])
            if bad: ctx.violation('interrupt-cleanup', h.text(), '%s: %s' % (h.sid, '; '.join(bad[:3])))
            if any(ev[0] == 'interrupt' for ev in b.events): nontriv.add(h.sid)
            # recovery: the next successful build equals the clean build, and converges
            bad = ec.oracle_c01(h, st, b)
            if bad:
                rest, kn = engcommon.classify_c01(h, st, b, bad, {k.get('id') for k in ctx.known_list if k.get('property') == 'C01'})
                for t in kn: ctx.known_finding(t)
                if rest: ctx.violation('recovery-content', h.text(), '%s: after the crash/interrupt and a successful recovery build: %s' % (h.sid, '; '.join(t for _, _, t in rest[:3])))
            # (after a TORN log record a further rebuild is allowed: 'at worst out of date', C08/C09)
            torn = any(x.kind == 'build' and x.opts.get('tear') for x in h.steps)
            bad = None if torn else ec.oracle_c02(h, st, b, *prev)
            if bad and not engcommon.classify_c02(h, st, b, {k.get('id') for k in ctx.known_list if k.get('property') == 'C02'}):
                ctx.violation('recovery-converge', h.text(), '%s: %s' % (h.sid, bad[0]))
            if b.exit not in (0, 130) and not st.opts.get('faults') and not getattr(st, 'interrupted', False):
                ctx.violation('recovery-fails', h.text(), '%s: the build after a crash/interrupt does not start normally: exit %s %s' % (h.sid, b.exit, (b.err or '')[:100]))
            prev = (st, b)
    import os, vlib, realbin
    ninja = os.path.join(vlib.build_impl('plain'), 'ninja')
    sb, nreal = realbin.signals(ninja)
    unconfirmed = 0
    if any(name in ('signal-hang', 'signal-setup', 'kill-setup') for name, _ in sb):
        # a watchdog expired (30 s): a defect of ninja shows again when the same scenarios are repeated, a stalled host does not.
        # Everything else (wrong exit status, output left behind, ...) is reported from the first round as it is.
        sb2, _ = realbin.signals(ninja)
        again = {name for name, _ in sb2}
        unconfirmed = sum(1 for name, _ in sb if name in ('signal-hang', 'signal-setup', 'kill-setup') and name not in again)
        sb = [(name, w) for name, w in sb if name not in ('signal-hang', 'signal-setup', 'kill-setup') or name in again]
    for name, w in sb: ctx.violation(name, 'real binary: tools/realbin.py signals\n', w)
    nev += nreal
    ctx.cov.update(evaluations=nev, distinct_nontrivial=len(nontriv), exhaustive=True,
                   rule='%d base histories (graph, first build, a change) x EVERY crash point of the following build (%d scenarios incl. torn-write variants of each log flush, %d reached a crash point) '
                        'each followed by a recovery build and a repeat; %d histories with an interrupt at a random wait with a random subset of running commands having modified their outputs; '
                        'oracles: interrupt cleanup rule, recovery build starts normally, equals the clean build, converges' % (len(bases), len(hists), reached, len(ints)),
                   samples=[{'scenario': h.sid, 'steps': [s.line[:100] for s in h.steps[-3:]]} for h in (hists[:2] + ints[:1])],
                   distribution=dict(crash_points_per_base=npts[:40], crash_scenarios=len(hists), interrupt_scenarios=len(ints), real_binary_watchdog_expiries_not_reproduced=unconfirmed))
    # the kill / interrupt model (coq/Engine/HistCrashDefs.v, theorems of Properties_C07hist.v) run against the real engine: every
    # (sampled) crash point of an invocation placed in the model, the state it leaves, the recovery build and its repetition; interrupts
    histmodel.hook_crash(ctx, 'C07', quick=150, thorough=1200, cap=10, key='hist_model_crash_points')
