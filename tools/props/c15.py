"""C15: depfiles written by compilers are read back as the same names.
 raw direction : every byte string of length <= L over the scanner's structural alphabet: real
                 DepfileParser::Parse (ASan) vs extracted parse_depfile (+ highest index read <= length)
 name direction: lists of names written by an INDEPENDENT python encoder of the GCC/Clang dialect in
                 several layouts; oracle: names out = names in (each dependency once, targets apart)
 rejects       : no ':' ; a dependency reappearing as a target with its own dependencies."""
import itertools, os, random
import vlib
from vlib import hexs, unhex

LEVEL = 'proof'
TRUSTED = ['Coq 8.16.1 kernel (coqc)', 'extraction: ExtrOcamlBasic only; OCaml driver extract/model_run.ml',
           'harness/run_depfile.cc (real DepfileParser::Parse, generated depfile_parser.cc is what is compiled) under ASan+UBSan',
           'the python encoder of the GCC dialect in this file is the reference for "what compilers write"; DepfileEnc.render is cross-checked against it']
ASSUMPTIONS = ['names are expressible in the dialect: DepfileEnc.wf_name (non-empty; plain/high bytes, space, #, $, backslash; no backslash directly before $ or :, '
               'not ending in ":" or in an odd run of backslashes)',
               'printable bytes * ; < > ^ | ` are outside the scanner\'s classes: listed known finding']

PLAIN = set(b"abcdefghijklmnopqrstuvwxyzABCDEFGHIJKLMNOPQRSTUVWXYZ0123456789+?\"'&,/_:.~()}{%=@[]!-") | set(range(0x80, 0x100))
UNLISTED = b'*;<>^|`'

def wf_name(n: bytes) -> bool:
    """mirror of DepfileEnc.wf_name (independent re-statement; agreement is checked against the model)"""
    if not n or n[-1:] == b':': return False
    for i, c in enumerate(n):
        if c not in PLAIN and c not in b' #$\\': return False
        if c == 0x5c and i + 1 < len(n) and n[i + 1] in b'$:': return False
    k = len(n) - len(n.rstrip(b'\\'))
    return k % 2 == 0

def enc(n: bytes) -> bytes:
    """what GCC/Clang write for a file name: '\\ ' for space with the backslashes directly before it doubled, '\\#', '$$'"""
    out = bytearray(); i = 0
    while i < len(n):
        c = n[i]
        if c == 0x5c:
            j = i
            while j < len(n) and n[j] == 0x5c: j += 1
            run = j - i
            if j < len(n) and n[j] == 0x20: out += b'\\' * (2 * run)
            else: out += b'\\' * run
            i = j; continue
        if c == 0x20: out += b'\\ '
        elif c == 0x23: out += b'\\#'
        elif c == 0x24: out += b'$$'
        else: out.append(c)
        i += 1
    return bytes(out)

def enc_colon(toks):
    """second, independent writer for names with ESCAPED COLONS (GCC >= 10 / Clang write `\\:` for a colon inside a name): a name is given
    as a token list; tokens: plain bytes, b' ' b'#' b'$' (written \\SP \\# $$) and ('colon', j) = j backslashes followed by ':' inside the name,
    written as j+1 backslashes + ':' (the scanner de-escapes the colon and keeps the other backslashes).  Returns (name, written form)."""
    name = b''; out = b''
    for t in toks:
        if isinstance(t, tuple): name += b'\\' * t[1] + b':'; out += b'\\' * (t[1] + 1) + b':'
        elif t == b' ': name += t; out += b'\\ '
        elif t == b'#': name += t; out += b'\\#'
        elif t == b'$': name += t; out += b'$$'
        else: name += t; out += t
    return name, out

def gen_colon_name(rnd):
    toks = []
    for _ in range(rnd.randrange(1, 6)):
        r = rnd.random()
        if r < 0.35: toks += [('colon', rnd.choice([0, 0, 1, 2, 3, 4])), rnd.choice([b'a', b'hdr.h', b'/x', bytes([0xe9])])]   # a colon is followed by plain text
        elif r < 0.7: toks.append(rnd.choice([b' ', b'#', b'$']))
        else: toks.append(rnd.choice([b'a', b'my', b'dir/', b'C', b'x.y']))
    if isinstance(toks[0], tuple) and rnd.random() < 0.5: toks.insert(0, b'p')
    return enc_colon(toks)

def render(layout, rules, encf=None):
    """layout: (cont, crlf, trail)"""
    global enc
    if encf is not None:
        saved = enc; enc = encf
        try: return render(layout, rules)
        finally: enc = saved
    cont, crlf, trail = layout
    eol = b' ' * trail + (b'\r\n' if crlf else b'\n')
    out = b''
    for ts, ds in rules:
        names = [enc(d) for d in ds]
        head = b' '.join(enc(t) for t in ts) + b':'
        if cont: out += head + b''.join(b' \\' + (b'\r\n' if crlf else b'\n') + b' ' + d for d in names) + eol
        else: out += head + b''.join(b' ' + d for d in names) + eol
    return out

def dedup(l):
    r = []
    for x in l:
        if x not in r: r.append(x)
    return r

def expected(rules):
    """reference reading of a list of rules (what the property states)"""
    outs = []; ins = []
    for ts, ds in rules:
        poisoned = any(t in ins for t in ts)
        for t in ts:
            if t not in ins and t not in outs: outs.append(t)
        for d in ds:
            if d not in ins:
                if poisoned: return 'ERR inputs'
                ins.append(d)
    return 'OK %s %s' % (','.join(hexs(x) for x in outs) or '-', ','.join(hexs(x) for x in ins) or '-')

def run(ctx):
    impl = os.path.join(vlib.build_impl('asan'), 'impl_run')
    rnd = random.Random(ctx.seed * 101 + 15)
    # ---- raw direction -------------------------------------------------------------
    alpha = b'a\\ #:$\n\r*\t'
    L = 5 if ctx.quick() else 6
    raw = [b'']
    for n in range(1, L + 1): raw += [bytes(t) for t in itertools.product(alpha, repeat=n)]
    nexh = len(raw)
    for _ in range(20000 if ctx.quick() else 200000):
        raw.append(bytes(rnd.choice([rnd.choice(alpha), rnd.choice(b'ab/.:\\ \n'), rnd.randrange(256)]) for _ in range(rnd.randrange(6, 60))))
    # ---- name direction ------------------------------------------------------------
    nalpha = b'a\\ #$:%' + bytes([0xe9])
    pool = [bytes(t) for n in range(1, 4) for t in itertools.product(nalpha, repeat=n)]
    pool += [bytes(t) for t in itertools.product(b'a\\ #$', repeat=4)]
    wf = [n for n in pool if wf_name(n)]
    named = []   # (layout, rules)
    layouts = [(c, r, t) for c in (0, 1) for r in (0, 1) for t in (0, 1, 2)]
    for i, n in enumerate(wf):
        lay = layouts[i % len(layouts)]
        other = wf[(i * 17 + 1) % len(wf)]
        named.append((lay, [([b'out.o'], [n, other, n])]))          # duplicate dependency
        named.append((lay, [([n, b't2'], [other])]))                 # as a target
    for _ in range(3000 if ctx.quick() else 40000):
        lay = rnd.choice(layouts)
        rules = []
        for _r in range(rnd.randrange(1, 4)):
            ts = [rnd.choice(wf + [b'x.o', b'dir/y.o']) for _ in range(rnd.randrange(1, 3))]
            ds = [rnd.choice(wf + [b'a.h', b'../b.h', b'C:/c.h']) for _ in range(rnd.randrange(0, 6))]
            rules.append((ts, ds))
        named.append((lay, rules))
    # rejects
    nocolon = [b' '.join(enc(rnd.choice(wf)) for _ in range(rnd.randrange(1, 4))) + b'\n' for _ in range(300)]
    ntext = [render(lay, rules) for lay, rules in named]
    # names with escaped colons (and backslashes in front of them), after earlier escapes that shrink the name: second writer
    named2 = []; ntext2 = []
    for _ in range(2500 if ctx.quick() else 30000):
        lay = rnd.choice(layouts); written = {}
        def nm():
            n, w = gen_colon_name(rnd); written[n] = w; return n
        rules = [([rnd.choice([b'out.o', b'x.o'])] if rnd.random() < 0.8 else [nm()], [nm() if rnd.random() < 0.8 else rnd.choice([b'a.h', b'../b.h']) for _ in range(rnd.randrange(1, 5))])
                 for _r in range(rnd.randrange(1, 3))]
        named2.append((lay, rules)); ntext2.append(render(lay, rules, encf=lambda n: written.get(n, n)))
    cases = raw + ntext + nocolon + ntext2
    lines = [hexs(c) for c in cases]
    rc, iout, ierr = vlib.run_lines(impl, 'depfile', lines)
    if rc != 0 or len(iout) != len(lines):
        ctx.violation('memory-safety', 'component depfile\ninput %s\n' % (lines[len(iout)] if len(iout) < len(lines) else '?'),
                      'DepfileParser crashed / sanitizer report (rc=%s): %s' % (rc, ierr[-600:]))
        return
    mout = midx = None
    if ctx.model:
        rc, mout, merr = vlib.run_lines(ctx.model, 'depfile', lines)
        rc, midx, _ = vlib.run_lines(ctx.model, 'depfile_idx', lines[:nexh])
        # the model's encoder/wf_name agree with this file's (keeps the theorem's hypotheses honest)
        rc, mwf, _ = vlib.run_lines(ctx.model, 'depfile_wf', ['0 ' + hexs(n) for n in pool])
        for n, w in zip(pool, mwf):
            if (w == '1') != wf_name(n): ctx.corr_broken.append('wf_name(%r): model %s python %s' % (n, w, wf_name(n)))
        rl = []
        for lay, rules in named[:4000]:
            rl.append('0 %s%s%s %s' % ('C' if lay[0] else 'O', 'r' if lay[1] else '', 't' * lay[2],
                                       ' '.join('%s:%s' % (','.join(hexs(t) for t in ts), ','.join(hexs(d) for d in ds) or '-') for ts, ds in rules)))
        rc, mr, _ = vlib.run_lines(ctx.model, 'depfile_render', rl)
        for (lay, rules), m, t in zip(named, mr, ntext):
            if unhex(m) != t: ctx.corr_broken.append('render %r %r: model %r python %r' % (lay, rules, unhex(m), t))
    nontriv = set()
    for i, c in enumerate(cases):
        if mout is not None and mout[i] != iout[i]:
            ctx.corr_broken.append('depfile %s: model %s impl %s' % (lines[i], mout[i], iout[i]))
        if midx is not None and i < nexh and int(midx[i]) > len(c):
            ctx.violation('bounds', 'component depfile\ninput %s\n' % lines[i], 'model scanner reads index %s > length %d' % (midx[i], len(c)))
        if iout[i].startswith('OK') and iout[i] != 'OK - -': nontriv.add(iout[i])
    base = len(raw)
    for k, (lay, rules) in enumerate(named):
        want = expected(rules)
        got = iout[base + k]
        if got != want:
            ctx.violation('roundtrip', 'component depfile\ninput %s\n' % lines[base + k],
                          'depfile %r (layout %r) read as %s, names written were %s' % (ntext[k], lay, got, want))
    for k, c in enumerate(nocolon):
        if iout[base + len(named) + k] != 'ERR nocolon':
            ctx.violation('reject-nocolon', 'component depfile\ninput %s\n' % hexs(c), 'depfile without ":" accepted: %r -> %s' % (c, iout[base + len(named) + k]))
    base2 = base + len(named) + len(nocolon)
    for k, (lay, rules) in enumerate(named2):
        want = expected(rules); got = iout[base2 + k]
        if got != want:
            ctx.violation('roundtrip-colon', 'component depfile\ninput %s\n' % lines[base2 + k],
                          'depfile %r (layout %r, names with escaped colons) read as %s, names written were %s' % (ntext2[k], lay, got, want))
    # the listed finding: printable bytes outside the scanner's classes split a name
    kf = [k for k in ctx.known_list if k.get('property') == 'C15' and k.get('id') == 'unlisted-punctuation']
    probe = [b'a' + bytes([c]) + b'b.h' for c in UNLISTED]
    rc, pout, _ = vlib.run_lines(impl, 'depfile', [hexs(b'o: ' + p + b'\n') for p in probe])
    broken = [p for p, o in zip(probe, pout) if o != 'OK 6f %s' % hexs(p)]
    if broken:
        if kf: ctx.known_finding('id=unlisted-punctuation printable bytes %r end a dependency name (e.g. %r is read as two names)' % (bytes(sorted(set(b[1] for b in broken))), broken[0]))
        else:
            for p in broken[:3]: ctx.violation('roundtrip-punct', 'component depfile\ninput %s\n' % hexs(b'o: ' + p + b'\n'), 'name %r is split' % p)
    ctx.cov.update(evaluations=len(cases), distinct_nontrivial=len(nontriv), exhaustive=True,
                   rule='raw: all %d byte strings of length <= %d over {a \\\\ SP # : $ LF CR * TAB} (exhaustive) + random long; names: every wf name of length <= 3 over {a \\\\ SP # $ : %% 0xe9} '
                        '(+ length 4 over 5 symbols) as dependency (duplicated) and as target, in 12 layouts (one line / continuation per name x LF/CRLF x 0-2 trailing blanks), '
                        'random multi-rule lists, colon-less files; non-trivial = parser returned at least one name, distinct by result' % (nexh, L),
                   samples=[{'depfile': repr(ntext[k]), 'read_as': iout[base + k]} for k in (0, 7, len(wf), len(named) - 1)],
                   distribution={'raw_exhaustive': nexh, 'raw_random': len(raw) - nexh, 'name_cases': len(named), 'escaped_colon_name_cases': len(named2), 'wf_names': len(wf), 'nocolon': len(nocolon)})
