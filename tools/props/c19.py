"""C19: dry runs and query tools observe without disturbing, and tell the truth.
 (a) JSON: real EncodeJSONString vs extracted json_encode on all short strings; compdb of the real binary parsed by python's json
 (b) dry runs in the engine harness: nothing on the (in-memory) disk or in the logs changes; commands listed = commands the next real build runs
 (c) real binary: every read-only tool leaves the build directory byte-identical; -t commands = what a from-scratch build runs, in dependency order"""
import hashlib, itertools, json, os, random, shutil, subprocess, tempfile
import vlib, engine, enginecheck as ec, histmodel
from vlib import hexs, unhex
from props import engcommon

LEVEL = 'proof'
TRUSTED = engcommon.TRUSTED_ENGINE + ['harness/run_esc.cc json component (real EncodeJSONString)', 'python json module as the judge of JSON validity', 'the real ninja binary built from the working tree, /bin/sh commands cp/cat in a scratch directory under /dev/shm']
ASSUMPTIONS = ['JSON clause: proved for the byte-level grammar and for valid UTF-8 input (Properties_C19json); bytes >= 0x80 that are not UTF-8 are a listed known finding',
               'dry-run prediction: exact when no restat rule prunes work (checked as equality there, as superset otherwise); at history level a Coq theorem about HistDry.dry_build (Properties_C19dry.v), tied to the real engine by tools/histmodel.py']

def snapshot(d):
    snap = {}
    for root, dirs, files in os.walk(d):
        for f in files:
            p = os.path.join(root, f); st = os.stat(p)
            snap[os.path.relpath(p, d)] = (st.st_size, st.st_mtime_ns, hashlib.sha1(open(p, 'rb').read()).hexdigest())
        for x in dirs: snap[os.path.relpath(os.path.join(root, x), d) + '/'] = None
    return snap

def real_binary_part(ctx, ninja, known):
    d = tempfile.mkdtemp(prefix='verif-c19-', dir='/dev/shm'); n = 0
    try:
        open(d + '/gen.in', 'w').write('G')      # older than build.ninja at first
        open(d + '/build.ninja', 'w').write(
            'rule regen\n  command = echo regen >> regen.log; touch build.ninja\n  generator = 1\nbuild build.ninja: regen gen.in\n'
            'rule cc\n  command = cat $in > $out && echo "$out: hdr.h" > $out.d\n  depfile = $out.d\n  deps = gcc\n'
            'rule cat\n  command = cat $in > $out\nrule rs\n  command = cat $$(cat $out.rsp) > $out\n  rspfile = $out.rsp\n  rspfile_content = $in\n'
            'rule stamp\n  command = cat $in > $out.tmp && (cmp -s $out.tmp $out || cp $out.tmp $out)\n  restat = 1\n'
            'build a.o: cc a.c\nbuild b.o: cc b.c\nbuild sub/dir/c.o: cc c.c\nbuild lib: cat a.o b.o | sub/dir/c.o\nbuild gen.h: stamp hdr.h\n'
            'build prog: rs lib gen.h || al\nbuild al: phony a.o\nbuild check: cat prog\nbuild all: phony prog check |@ lib\ndefault all\n')
        for f, c in (('a.c', 'A'), ('b.c', 'B'), ('c.c', 'C'), ('hdr.h', 'H')): open(d + '/' + f, 'w').write(c)
        def run(*a):
            return subprocess.run([ninja, '-C', d] + list(a), stdout=subprocess.PIPE, stderr=subprocess.STDOUT, timeout=60)
        # -t commands on the fresh tree = what the from-scratch build runs, producers first
        cmds = [l for l in run('-t', 'commands').stdout.decode().split('\n') if l and not l.startswith('ninja:')]
        p = run('-v', '-j1'); n += 2
        ran = [l.split('] ', 1)[1] for l in p.stdout.decode().split('\n') if l.startswith('[') and '] ' in l]
        if sorted(cmds) != sorted(ran):
            ctx.violation('commands-tool', 'real binary, see tools/props/c19.py real_binary_part\n', '-t commands lists %r, a from-scratch build ran %r' % (sorted(set(cmds) ^ set(ran))[:4], len(ran)))
        pos = {c: i for i, c in enumerate(cmds)}
        for a_, b_ in (('a.o', 'lib'), ('lib', 'prog'), ('prog', 'check'), ('sub/dir/c.o', 'lib')):
            ia = [i for c, i in pos.items() if '> %s ' % a_ in c + ' ' or c.endswith('> ' + a_)]; ib = [i for c, i in pos.items() if c.endswith('> ' + b_)]
            if ia and ib and min(ia) > min(ib): ctx.violation('commands-order', 'real binary\n', '-t commands lists the command of %s before the one of its input %s' % (b_, a_))
        if p.returncode != 0: raise RuntimeError('initial real build failed: ' + p.stdout.decode()[-300:])
        # make part of the tree dirty, then every observer must leave it byte-identical
        os.utime(d + '/a.c'); open(d + '/b.c', 'w').write('B2')
        st = os.stat(d + '/hdr.h'); os.utime(d + '/hdr.h', ns=(st.st_atime_ns, st.st_mtime_ns + 5_000_000_000))
        # ... and the manifest itself stale (its generator input is newer): no observer may regenerate it
        stb = os.stat(d + '/build.ninja'); os.utime(d + '/gen.in', ns=(stb.st_atime_ns, stb.st_mtime_ns + 7_000_000_000))
        tools = [('-n',), ('-n', '-v', 'prog'), ('-t', 'commands'), ('-t', 'commands', 'prog'), ('-t', 'inputs', 'prog'), ('-t', 'multi-inputs', 'prog', 'check'), ('-t', 'query', 'prog'),
                 ('-t', 'targets', 'all'), ('-t', 'targets', 'rule', 'cc'), ('-t', 'rules'), ('-t', 'graph'), ('-t', 'compdb'), ('-t', 'compdb', 'cc'),
                 ('-t', 'compdb-targets', 'prog'), ('-t', 'deps'), ('-t', 'deps', 'a.o'), ('-t', 'missingdeps'),
                 ('-t', 'compdb', 'cat'), ('-t', 'compdb', 'cat', 'cc'), ('-t', 'compdb', 'cc', 'cc'), ('-t', 'compdb', 'stamp', 'rs'), ('-t', 'compdb', '-x', 'rs', 'cc'),
                 ('-t', 'compdb', 'nosuchrule'), ('-t', 'compdb-targets', 'check', 'lib'), ('-t', 'query', 'build.ninja'), ('-t', 'inputs', 'all'), ('-t', 'targets', 'depth', '2')]
        for t in tools:
            before = snapshot(d); r = run(*t); after = snapshot(d); n += 1
            after.pop('.ninja_lock', None)
            if before != after:
                diff = sorted(k for k in set(before) | set(after) if before.get(k) != after.get(k))
                txt = 'ninja %s changed the build directory: %s' % (' '.join(t), diff[:5])
                if t[0] == '-n' and 'dry-run-touches-tree' in known and all(k.endswith(('.d', '.rsp', '/')) for k in diff):
                    ctx.known_finding('id=dry-run-touches-tree ' + txt)
                else: ctx.violation('tool-disturbs', 'real binary: ninja %s\n' % ' '.join(t), txt)
            if os.path.exists(d + '/regen.log'):
                ctx.violation('tool-disturbs', 'real binary: ninja %s\n' % ' '.join(t), 'ninja %s ran the manifest generator command (a stale build.ninja must be left alone by observers)' % ' '.join(t)); os.unlink(d + '/regen.log')
            if t[:2] in (('-t', 'compdb'), ('-t', 'compdb-targets')):
                try: json.loads(r.stdout.decode('utf-8'))
                except Exception as ex: ctx.violation('compdb-json', 'real binary: ninja %s\n' % ' '.join(t), 'compdb output is not valid JSON: %s' % ex)
        # -n prediction vs the real build of the same state
        pred = [l.split('] ', 1)[1] for l in run('-n', '-v').stdout.decode().split('\n') if l.startswith('[') and '] ' in l]
        real = [l.split('] ', 1)[1] for l in run('-v', '-j1').stdout.decode().split('\n') if l.startswith('[') and '] ' in l]; n += 2
        real = [c for c in real if 'regen' not in c]      # the real build regenerates the stale manifest first; -n never does
        if not set(real) <= set(pred): ctx.violation('dry-run-prediction', 'real binary\n', 'the real build ran %r which -n did not list' % sorted(set(real) - set(pred))[:3])
        # compdb with every byte value in a command
        cmd_bytes = bytes(b for b in range(1, 128) if b not in (10, 13, 36)) 
        open(d + '/build.ninja', 'wb').write(b'rule r\n  command = ' + cmd_bytes.replace(b'$', b'$$') + b'\nbuild o: r\nrule u\n  command = caf\xc3\xa9 \xe2\x82\xac\nbuild o2: u\nrule bad\n  command = x\xe9\xff y\nbuild o3: bad\n')
        r = run('-t', 'compdb'); n += 1
        try:
            js = json.loads(r.stdout)          # bytes: must be valid UTF-8 JSON text (RFC 8259)
            got = [e['command'] for e in js if e['output'] == 'o']
            if got and got[0].encode() != cmd_bytes: ctx.violation('compdb-json', 'real binary compdb\n', 'command with control bytes does not round-trip through compdb JSON')
        except Exception as ex:
            if 'compdb-invalid-utf8' in known: ctx.known_finding('id=compdb-invalid-utf8 compdb output for a command containing bytes e9 ff (not UTF-8) is rejected by a strict JSON parser: %s' % str(ex)[:80])
            else: ctx.violation('compdb-json', 'real binary compdb with command bytes e9 ff\n', 'compdb output is not valid JSON: %s' % ex)
    finally:
        shutil.rmtree(d, ignore_errors=True)
    return n + dry_run_with_redundant_log(ctx, ninja)

def dry_run_with_redundant_log(ctx, ninja):
    """a state that exists only between runs: .ninja_log holds more than 100 records and more than three per output, so the next session that
    opens it for writing recompacts it.  A dry run (and every read-only tool) with work pending must leave the file byte-identical, and the next
    real build must still do that work"""
    d = tempfile.mkdtemp(prefix='verif-c19-', dir='/dev/shm'); n = 0
    try:
        man = lambda v: 'rule w\n  command = echo %s > $out\nbuild out.txt: w\nbuild o2: w\nbuild o3: w\n' % v
        open(d + '/build.ninja', 'w').write(man('v1'))
        p = subprocess.run([ninja, '-C', d], stdout=subprocess.PIPE, stderr=subprocess.STDOUT, timeout=60); n += 1
        if p.returncode != 0: return n
        lines = open(d + '/.ninja_log').read().split('\n'); recs = [l for l in lines[1:] if l]
        open(d + '/.ninja_log', 'w').write(lines[0] + '\n' + ''.join(r + '\n' for r in recs * 40))
        open(d + '/build.ninja', 'w').write(man('v2'))                     # the command line changed: all three have work to do
        for args in (['-n'], ['-t', 'commands'], ['-t', 'query', 'out.txt'], ['-t', 'targets', 'all'], ['-n', '-v', 'out.txt']):
            # the MEANING of the log (last record per output: mtime and command hash) must not change; a tool that opens the log may recompact it
            def meaning():
                m = {}
                if os.path.exists(d + '/.ninja_log'):
                    for l in open(d + '/.ninja_log', errors='replace').read().split('\n')[1:]:
                        w = l.split('\t')
                        if len(w) == 5: m[w[3]] = (w[2], w[4])
                return m
            rest = lambda: {k: v for k, v in snapshot(d).items() if k != '.ninja_log'}
            before = open(d + '/.ninja_log', 'rb').read(); mb = meaning(); snap = rest()
            p = subprocess.run([ninja, '-C', d] + args, stdout=subprocess.PIPE, stderr=subprocess.STDOUT, timeout=60); n += 1
            after = open(d + '/.ninja_log', 'rb').read() if os.path.exists(d + '/.ninja_log') else None
            if meaning() != mb or rest() != snap:
                ctx.violation('dry-run-rewrites-log', 'real binary: 3 statements built once, .ninja_log = header + the 3 records repeated 40 times (120 records, 3 outputs), command lines changed, then `ninja %s`\n' % ' '.join(args),
                              '`ninja %s` changed what the build log says (last record per output %s -> %s) or another file, although it must only observe (.ninja_log %d -> %s bytes)' % (' '.join(args), sorted(mb.items())[:2], sorted(meaning().items())[:2], len(before), len(after) if after is not None else '-'))
                break
        p = subprocess.run([ninja, '-C', d], stdout=subprocess.PIPE, stderr=subprocess.STDOUT, timeout=60); n += 1
        got = open(d + '/out.txt').read() if os.path.exists(d + '/out.txt') else None
        if p.returncode != 0 or got != 'v2\n':
            ctx.violation('dry-run-poisons-next-build', 'real binary: as above, then a real `ninja`\n', 'after the dry runs the real build leaves out.txt = %r (expected \'v2\\n\'), exit %d: %s' % (got, p.returncode, p.stdout.decode(errors='replace')[-150:].replace('\n', ' | ')))
    finally: shutil.rmtree(d, ignore_errors=True)
    return n

def run(ctx):
    known = {k.get('id') for k in ctx.known_list if k.get('property') == 'C19'}
    d = vlib.build_impl('asan'); impl = os.path.join(d, 'impl_run')
    ninja = os.path.join(vlib.build_impl('plain'), 'ninja')
    # (a) JSON encoder correspondence
    cases = [b''] + [bytes([b]) for b in range(256)] + [bytes(t) for t in itertools.product(b'a"\\\n\t\x01\x1f\x7f\x80\xc3\xa9/', repeat=2)]
    rnd = random.Random(ctx.seed + 19)
    cases += [bytes(rnd.randrange(256) for _ in range(rnd.randrange(3, 40))) for _ in range(3000)]
    lines = [hexs(c) for c in cases]
    rc, iout, ierr = vlib.run_lines(impl, 'json', lines)
    if rc != 0 or len(iout) != len(lines):
        ctx.violation('memory-safety', 'component json\n', 'EncodeJSONString crashed: %s' % ierr[-300:]); return
    if ctx.model:
        rc, mout, _ = vlib.run_lines(ctx.model, 'json', lines)
        for l, a, b in zip(lines, iout, mout):
            if a != b: ctx.corr_broken.append('json %s: model %s impl %s' % (l, b, a))
    nj = 0
    for c, o in zip(cases, iout):
        enc = unhex(o)
        try:
            s = json.loads(b'"' + enc + b'"')   # python decodes the bytes as UTF-8
            if s.encode('utf-8') != c: ctx.violation('json-roundtrip', 'component json\ninput %s\n' % hexs(c), '%r encodes to %r which decodes to %r' % (c, enc, s))
            nj += 1
        except UnicodeDecodeError:
            pass                                # not UTF-8: covered by the real-binary probe / known finding
        except Exception as ex:
            ctx.violation('json-invalid', 'component json\ninput %s\n' % hexs(c), '%r encodes to %r: %s' % (c, enc, ex))
    # (b) dry runs in the engine harness
    hists = []
    for i in range(500 if ctx.quick() else 5000):
        h = ec.gen_history(rnd, 'C19_%d' % i, rnd.randrange(2, 8), rnd.randrange(1, 4), feat=dict(dyndep=0.0, generator=0.0), faults=0.0, repeat_builds=False, tokens=0.0)
        # after the history: a dry run, then the same build for real
        st = [s for s in h.steps if s.kind == 'build'][-1]
        sname = rnd.choice(sorted(x for x in h.sources)); h.edit(sname, 'c19.%d' % rnd.randrange(100000))
        for dry in (1, None):
            line = engine.build_step(targets=st.targets, j=1, k=1, sched=[0] * 20, dry=dry)
            h.add(ec.Step('build', line, g=st.g if False else __import__('copy').deepcopy(h.g), sources=dict(h.sources), targets=list(st.targets), opts=dict(j=1, k=1, dry=dry)))
        hists.append(h)
    # a leftover depfile of a deps=gcc statement (e.g. from an earlier failed command) must survive a dry run
    probes = []
    for i in range(20):
        g = engine.Graph(); g.sources = {'s': 'x', 'h': 'y'}
        e = engine.Edge(0); e.outs = ['o']; e.exp = ['s']; e.deps = 'gcc'; e.depfile = 'o.d'; e.hidden = ['h']; g.edges = [e]
        if i % 2:
            e2 = engine.Edge(1); e2.outs = ['p']; e2.exp = ['o']; e2.rsp = 'sub/p.rsp'; g.edges.append(e2)
        h = ec.Hist('C19_probe%d' % i, g)
        h.build(rnd, None, j=1, k=1, sched=[0] * 4)
        h.edit('o.d', 'o: h\n'); h.edit('s', 'x2')
        import copy as _c
        h.add(ec.Step('build', engine.build_step(j=1, k=1, sched=[0] * 4, dry=1), g=_c.deepcopy(g), sources=dict(h.sources), targets=[], opts=dict(j=1, k=1, dry=1)))
        h.add(ec.Step('build', engine.build_step(j=1, k=1, sched=[0] * 4), g=_c.deepcopy(g), sources=dict(h.sources), targets=[], opts=dict(j=1, k=1)))
        probes.append(h)
    # a dry run that aborts (an output directory cannot be created) must not clean up anything either
    for i in range(10):
        g = engine.Graph(); g.sources = {'s': 'x', 'blocker': 'i am a file'}
        for k in range(3):
            e = engine.Edge(k); e.outs = ['a%d' % k]; e.exp = ['s']; e.depfile = 'a%d.d' % k; e.hidden = []; g.edges.append(e)
        z = engine.Edge(3); z.outs = ['blocker/sub/z']; z.exp = ['s']; g.edges.append(z)
        if i % 2: g.edges.reverse()
        h = ec.Hist('C19_abort%d' % i, g)
        h.build(rnd, ['a0', 'a1', 'a2'], j=1, k=1, sched=[0] * 4)
        h.edit('s', 'x2')
        h.add(ec.Step('build', engine.build_step(j=1, k=1, sched=[0] * 4, dry=1), g=_c.deepcopy(g), sources=dict(h.sources), targets=[], opts=dict(j=1, k=1, dry=1)))
        h.add(ec.Step('build', engine.build_step(j=1, k=1, sched=[0] * 4, targets=['a0', 'a1', 'a2']), g=_c.deepcopy(g), sources=dict(h.sources), targets=['a0', 'a1', 'a2'], opts=dict(j=1, k=1)))
        probes.append(h)
    hists += probes[20:]
    rc, tr, err, out = ec.run_hists(hists)
    nd = 0
    for h in hists:
        prs = ec.pair(h, tr.get(h.sid, []))
        if len(prs) < 3: continue
        (s0, b0), (s1, b1), (s2, b2) = prs[-3], prs[-2], prs[-1]
        nd += 1
        dry_started = [engine.uh(ev[2]) for ev in b1.events if ev[0] == 'st' and ev[1] == 'started']
        if b1.started: ctx.violation('dry-run-executes', h.text(), '%s: the dry run executed commands %s' % (h.sid, b1.started))
        # undisturbed: files (apart from the edit we made) and both logs' meaning
        edited = {s.path for s in h.steps[h.steps.index(s0) + 1:h.steps.index(s1)] if s.kind == 'edit'}
        f0 = {k: v for k, v in b0.files.items() if k not in edited}
        f1 = {k: v for k, v in b1.files.items() if k not in edited}
        for k in edited:
            if k not in b1.files: f0[k] = 'present-before'; f1[k] = None
        chg = sorted(k for k in set(f0) | set(f1) if f0.get(k) != f1.get(k))
        if chg or b1.log != b0.log or b1.deps != b0.deps:
            txt = '%s: the dry run changed %s (log changed: %s, deps changed: %s)' % (h.sid, chg[:4], b1.log != b0.log, b1.deps != b0.deps)
            if 'dry-run-touches-tree' in known and b1.log == b0.log and b1.deps == b0.deps and all(k.endswith(('.d', '.rsp')) for k in chg):
                ctx.known_finding('id=dry-run-touches-tree ' + txt)
            else: ctx.violation('dry-run-disturbs', h.text(), txt)
        restat = any(s2.g.eff_restat(e) for e in s2.g.edges)
        if b2.exit == 0 and b1.exit == 0:
            if not set(b2.started) <= set(dry_started):
                ctx.violation('dry-run-prediction', h.text(), '%s: the real build ran %s which the dry run did not list (%s)' % (h.sid, sorted(set(b2.started) - set(dry_started)), sorted(dry_started)))
            elif not restat and sorted(b2.started) != sorted(dry_started):
                ctx.violation('dry-run-prediction', h.text(), '%s: no restat rule, yet the dry run listed %s and the real build ran %s' % (h.sid, sorted(dry_started), sorted(b2.started)))
            # order of the dry-run listing respects dependencies
            prod = s1.g.producer(); seen = set()
            for o0 in dry_started:
                e = prod.get(o0)
                for i in (s1.g.all_ins(e, with_hidden=False) if e else []):
                    p = prod.get(i)
                    if p and not p.phony and p.out0 in dry_started and p.out0 not in seen:
                        ctx.violation('dry-run-order', h.text(), '%s: the dry run lists %s before the producer %s of its input' % (h.sid, o0, p.out0)); break
                seen.add(o0)
    nreal = real_binary_part(ctx, ninja, known)
    ctx.cov.update(evaluations=len(cases) + nd + nreal, distinct_nontrivial=nj + nd,
                   rule='JSON: all 1-byte strings, all pairs over 12 special bytes, %d random strings (model vs EncodeJSONString; python json.loads round trip for UTF-8 inputs); '
                        'dry runs: %d random histories ending in a dry run followed by the same real build (engine harness: disk/log meaning unchanged, listed commands = commands run, order); '
                        'real binary: %d tool invocations (-n, commands, inputs, multi-inputs, query, targets, rules, graph, compdb, compdb-targets, deps, missingdeps) with a byte-exact snapshot of the '
                        'build directory around each, -t commands vs from-scratch build, compdb with all ASCII bytes / UTF-8 / invalid UTF-8' % (3000, nd, nreal),
                   samples=[{'json_in': repr(cases[300]), 'json_out': repr(unhex(iout[300]))}, {'dry_run_history': hists[0].sid, 'steps': [s.line[:90] for s in hists[0].steps[-3:]]}],
                   distribution=dict(json_cases=len(cases), dry_run_histories=nd, real_tool_invocations=nreal))
    # the dry-run model (coq/Engine/HistDry.v, theorems of Properties_C19dry.v) run against the real engine: dry runs interleaved
    # with real builds in histories inside the model's fragment
    histmodel.hook(ctx, 'C19', dry=0.5, quick=300, thorough=3000, key='hist_model_dry_runs')
    # the listing tools (coq/Engine/ToolsDefs.v: PrintCommands / CommandCollector / InputsCollector; theorems of
    # Properties_C19tools.v) evaluated inside Coq against the real binary's -t commands / commands -s / compdb-targets / inputs -d
    import toolsmodel
    toolsmodel.hook(ctx)
