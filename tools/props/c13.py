"""C13: no file content can crash, corrupt or hang ninja.
The observation (sanitizer report, abort, signal, timeout) on the ASan/UBSan build of the real readers IS the oracle;
the Coq part are the bounds/totality theorems of the models of each reader (restated in Properties_C13.v)."""
import itertools, os, random, subprocess, tempfile, shutil
import vlib
from vlib import hexs

LEVEL = 'proof'
TRUSTED = ['Coq 8.16.1 kernel (coqc)', 'g++ 12 ASan+UBSan (-fno-sanitize-recover=all) build of /repo/src: memory safety of the compiled C++ is OBSERVED on the generated inputs, proved only for the models\' index arithmetic',
           'harness/run_*.cc components: depfile, manifest, dyndep, buildlog, depslog, clparser, makeflags, elide, statusfmt, canon', 'per-case watchdog timeouts (hang detection)']
ASSUMPTIONS = ['PARTIAL by nature: exhaustive over short strings of each format\'s token alphabet + structure-aware random long inputs; not a proof about the object code']

def bisect(impl, comp, lines, timeout):
    """find one line that makes impl_run die"""
    lo = lines
    while len(lo) > 1:
        a = lo[:len(lo) // 2]
        rc, out, err = vlib.run_lines(impl, comp, a, timeout=timeout)
        lo = a if (rc != 0 or len(out) != len(a)) else lo[len(lo) // 2:]
    return lo[0]

def feed(ctx, impl, comp, lines, timeout=300, stats=None, ok_prefixes=None):
    rc, out, err = vlib.run_lines(impl, comp, lines, timeout=timeout)
    n = len(lines)
    if stats is not None: stats[comp] = stats.get(comp, 0) + n
    if rc == -999:
        ctx.violation('hang-' + comp, 'component %s\ncase %s\n' % (comp, bisect(impl, comp, lines, 20)), '%s: no answer within %ss (hang) on a batch of %d inputs' % (comp, timeout, n)); return out
    if rc != 0 or len(out) != n:
        bad = bisect(impl, comp, lines, 60)
        ctx.violation('crash-' + comp, 'component %s\ncase %s\n' % (comp, bad), '%s died (rc=%s) on input %s: %s' % (comp, rc, bad[:200], err[-400:].replace('\n', ' ')))
        return out
    for l, o in zip(lines, out):
        if o.startswith('CRASH') or o.startswith('SANITIZER'):
            ctx.violation('crash-' + comp, 'component %s\ncase %s\n' % (comp, l), '%s: %s on input %s' % (comp, o, l[:200]))
    return out

def run(ctx):
    impl = os.path.join(vlib.build_impl('asan'), 'impl_run')
    rnd = random.Random(ctx.seed * 13 + 13); q = ctx.quick(); stats = {}
    rb = lambda n, alpha=None: bytes((rnd.choice(alpha) if alpha and rnd.random() < 0.8 else rnd.randrange(256)) for _ in range(n))
    comps = set(open(os.path.join(vlib.VERIF, 'harness', 'ENABLED')).read().split())
    # depfile: exhaustive short strings + random
    alpha = b'a\\ #:$\n\r*\t\0'
    lines = [hexs(bytes(t)) for n in range(0, 5 if q else 7) for t in itertools.product(alpha, repeat=n)] + [hexs(rb(rnd.randrange(1, 200), alpha)) for _ in range(3000 if q else 50000)]
    feed(ctx, impl, 'depfile', lines, stats=stats)
    # canon on arbitrary bytes (no NUL)
    feed(ctx, impl, 'canon', [hexs(rb(rnd.randrange(0, 300), b'./ab\\').replace(b'\0', b'x')) for _ in range(5000 if q else 100000)], stats=stats)
    # /showIncludes parser, MAKEFLAGS, elide, status format
    cl = [b'Note: including file: ', b'\r', b'\n', b'\r\n', b'foo.h', b' ', b'C:\\Program Files\\x.h', b'Remarque : ', b'.cc\n', b'\0']
    feed(ctx, impl, 'clparser', ['%s %s' % (hexs(b''.join(rnd.choice(cl) if rnd.random() < 0.85 else rb(3) for _ in range(rnd.randrange(0, 12)))), hexs(rnd.choice([b'', b'Note: including file: ', b'Remarque : ', rb(4)])))
                                 for _ in range(4000 if q else 60000)], stats=stats, timeout=120)
    mk = [b'-j', b'4', b' ', b'--jobserver-auth=', b'--jobserver-fds=', b'fifo:', b'/tmp/x', b'3,4', b'-', b'n', b'=', b'\0', b'999999999999999999999', b'-1']
    feed(ctx, impl, 'makeflags', [hexs(b''.join(rnd.choice(mk) if rnd.random() < 0.9 else rb(2) for _ in range(rnd.randrange(0, 10))).replace(b'\0', b'')) for _ in range(4000 if q else 60000)], stats=stats)
    feed(ctx, impl, 'elide', ['%s %d' % (hexs(rb(rnd.randrange(0, 60), b'ab\x1b[0m;3')), rnd.choice([0, 1, 2, 3, 4, 5, 8, 20, 80, 100000])) for _ in range(4000 if q else 60000)], stats=stats)
    sf = [b'%', b'f', b't', b's', b'r', b'u', b'p', b'o', b'c', b'e', b'w', b'E', b'P', b'%%', b'[', b'/', b'] ', b'q', b'\xff']
    feed(ctx, impl, 'statusfmt', [hexs(b''.join(rnd.choice(sf) for _ in range(rnd.randrange(0, 8))).replace(b'\0', b'')) for _ in range(300 if q else 3000)], stats=stats, timeout=300)
    # the readers that have their own modules contribute their generators (malformed streams) here too
    if 'run_manifest.cc' in comps:
        try:
            import gen_manifest
            sc = gen_manifest.gen(ctx.seed + 1300, 150 if q else 3000)
            sc += gen_manifest.gen_exhaustive(2 if q else 3)
            out = feed(ctx, impl, 'manifest', sc, stats=stats, timeout=600)
        except ImportError: pass
        # a manifest that includes itself: real binary (stack)
        ninja = os.path.join(vlib.build_impl('plain'), 'ninja')
        d = tempfile.mkdtemp(prefix='verif-c13-', dir='/dev/shm')
        try:
            known = {k.get('id') for k in ctx.known_list if k.get('property') == 'C13'}
            for name, text in (('include', 'include build.ninja\n'), ('subninja', 'subninja build.ninja\n'), ('pair', 'include b.ninja\n')):
                open(d + '/build.ninja', 'w').write(text); open(d + '/b.ninja', 'w').write('include build.ninja\n')
                p = subprocess.run([ninja, '-C', d], stdout=subprocess.PIPE, stderr=subprocess.STDOUT, timeout=120)
                stats['self-include'] = stats.get('self-include', 0) + 1
                if p.returncode < 0 or p.returncode > 128:
                    txt = 'a manifest that includes itself (%s) kills ninja with status %d (unbounded recursion)' % (name, p.returncode)
                    if 'self-include-recursion' in known: ctx.known_finding('id=self-include-recursion ' + txt)
                    else: ctx.violation('self-include', 'real binary: build.ninja = %r\n' % text, txt)
        finally: shutil.rmtree(d, ignore_errors=True)
        # reference cycles among RULE bindings (command/description/depfile/rspfile/... referring to each other, directly or through 2-3
        # hops, each reference optionally preceded by other variables in the same value): ninja must report "cycle in rule variables"
        # (or build), never recurse without bound.  Sanitizer build of the real binary, `-n` and `-t commands` (both evaluate the bindings).
        aninja = os.path.join(vlib.build_impl('asan'), 'ninja')
        d = tempfile.mkdtemp(prefix='verif-c13-', dir='/dev/shm')
        try:
            names = ['command', 'description', 'depfile', 'rspfile', 'rspfile_content', 'msvc_deps_prefix']
            pres = ['', '$pre ', '$in ', '${out}.', '$pre$pre', 'x ', '$undefined_thing ']
            for i in range(40 if q else 400):
                k = rnd.choice([1, 2, 2, 3]); cyc = rnd.sample(names, k)
                vals = {n: 'plain_%s' % n for n in names}
                for a, b in zip(cyc, cyc[1:] + cyc[:1]):
                    vals[a] = rnd.choice(pres) + '$' + b + rnd.choice(['', ' tail', ' $pre'])
                if 'command' not in cyc and rnd.random() < 0.7: vals['command'] = rnd.choice(pres) + 'echo $' + cyc[0]
                text = 'pre = P\nrule r\n' + ''.join('  %s = %s\n' % (n, vals[n]) for n in rnd.sample(names, len(names))) + 'build out: r in\n'
                open(d + '/build.ninja', 'w').write(text); open(d + '/in', 'w').write('x')
                for args in (['-n'], ['-t', 'commands']):
                    try: p = subprocess.run([aninja, '-C', d] + args, stdout=subprocess.PIPE, stderr=subprocess.STDOUT, timeout=120, env=dict(os.environ, ASAN_OPTIONS='detect_leaks=0:exitcode=99', UBSAN_OPTIONS='print_stacktrace=1:halt_on_error=1:exitcode=98'))
                    except subprocess.TimeoutExpired:
                        ctx.violation('hang-rule-variable-cycle', 'real binary (ASan) %s: build.ninja =\n%s' % (' '.join(args), text), 'ninja %s does not finish on a manifest whose rule bindings refer to each other' % ' '.join(args)); continue
                    stats['rule-variable-cycles'] = stats.get('rule-variable-cycles', 0) + 1
                    if p.returncode not in (0, 1) or b'runtime error:' in p.stdout:
                        ctx.violation('crash-rule-variable-cycle', 'real binary (ASan) %s: build.ninja =\n%s' % (' '.join(args), text),
                                      'ninja %s dies with status %d on a manifest whose rule bindings refer to each other (unbounded recursion): %s' % (' '.join(args), p.returncode, p.stdout.decode(errors='replace')[-200:].replace('\n', ' ')))
        finally: shutil.rmtree(d, ignore_errors=True)
        # depfile bytes through the LOADER (ImplicitDepLoader::LoadDepFile: target check, "no outputs declared", node creation), not only the
        # scanner: a `depfile =` statement that is up to date, then the depfile is replaced by damaged content and the scan reads it
        d = tempfile.mkdtemp(prefix='verif-c13-', dir='/dev/shm')
        try:
            open(d + '/build.ninja', 'w').write('rule cc\n  command = cp good.d $out.d && touch $out\n  depfile = $out.d\nbuild out.o: cc in.c\nbuild sub/o2.o: cc in.c\n')
            open(d + '/in.c', 'w').write('x'); open(d + '/hdr.h', 'w').write('h'); open(d + '/good.d', 'w').write('out.o sub/o2.o: hdr.h\n')
            env = dict(os.environ, ASAN_OPTIONS='detect_leaks=0:exitcode=99', UBSAN_OPTIONS='print_stacktrace=1:halt_on_error=1:exitcode=98')
            p = subprocess.run([aninja, '-C', d], stdout=subprocess.PIPE, stderr=subprocess.STDOUT, timeout=120, env=env)
            fixed = [b'', b':', b': hdr.h\n', b' : hdr.h', b':hdr.h', b'out.o:', b'out.o', b'out.o: \\\n', b'\\\n: a\n', b'out.o: a\nb: c\n', b'a b: c\n', b'out.o: hdr.h\nhdr.h: out.o\n',
                     b'::', b': :', b'out.o : : x', b'\0', b'out.o: \0', b'x' * 5000 + b': y', b'out.o: ' + b'h ' * 3000, b'$$: $$\n', b'#: #\n', b'\r\n: a\r\n', b'./out.o: ../t13/hdr.h\n']
            toks = [b'out.o', b':', b' ', b'hdr.h', b'\n', b'\\\n', b'\r\n', b'$$', b'\\ ', b'#', b'sub/o2.o', b'\0', b'\\', b'./', b'../']
            cases = fixed + [b''.join(rnd.choice(toks) for _ in range(rnd.randrange(1, 9))) for _ in range(40 if q else 600)]
            for c in (cases if p.returncode == 0 else []):
                for f in ('out.o.d', 'sub/o2.o.d'): open(os.path.join(d, f), 'wb').write(c)
                try: p2 = subprocess.run([aninja, '-C', d, '-n'], stdout=subprocess.PIPE, stderr=subprocess.STDOUT, timeout=120, env=env)
                except subprocess.TimeoutExpired:
                    ctx.violation('hang-depfile-loader', 'real binary (ASan) -n, depfile of an up-to-date statement = %r\n' % c, 'ninja -n does not finish with depfile content %r' % c[:80]); continue
                stats['depfile-loader'] = stats.get('depfile-loader', 0) + 1
                if p2.returncode not in (0, 1) or b'runtime error:' in p2.stdout:
                    ctx.violation('crash-depfile-loader', 'real binary (ASan) -n, depfile of an up-to-date statement = %r\n' % c,
                                  'ninja -n dies with status %d when the depfile of an up-to-date statement holds %r: %s' % (p2.returncode, c[:80], p2.stdout.decode(errors='replace')[-200:].replace('\n', ' ')))
        finally: shutil.rmtree(d, ignore_errors=True)
    if 'run_dyndep.cc' in comps:
        dd = [b'ninja_dyndep_version', b' = ', b'1', b'\n', b'build ', b'out', b' | ', b': ', b'dyndep', b'  restat = 1', b'$', b'#c', b'\r\n', b'||', b'in']
        # <manifest-hex> <ddname-hex> <content-hex> is the line format of that component: let its own module define it
        try:
            import dyndepmodel
            if hasattr(dyndepmodel, 'fuzz_lines'): feed(ctx, impl, 'dyndep', dyndepmodel.fuzz_lines(rnd, 1500 if q else 30000), stats=stats)
        except ImportError: pass
    for comp, mod in (('buildlog', 'props.c08'), ('depslog', 'props.c09')):
        if 'run_%s.cc' % comp in comps:
            try:
                m = __import__(mod, fromlist=['x'])
                if hasattr(m, 'fuzz_lines'): feed(ctx, impl, comp, m.fuzz_lines(rnd, 1500 if q else 30000), stats=stats, timeout=600)
            except ImportError: pass
    total = sum(stats.values())
    ctx.cov.update(evaluations=total, distinct_nontrivial=total - stats.get('canon', 0),
                   rule='every reader of external bytes driven on the ASan/UBSan build: exhaustive short strings over each format\'s token alphabet where stated, token-soup and random bytes otherwise; '
                        'a crash/abort/sanitizer report/timeout is a violation with the offending input as replay; non-trivial = all but the canonicaliser inputs',
                   samples=[{'component': c, 'inputs': n} for c, n in sorted(stats.items())], distribution=stats)
    # CLParser (/showIncludes) and the MAKEFLAGS parser are inside the Coq model now (coq/Misc/, Properties_C13readers.v):
    # extracted model vs the real code on the same inputs, every difference is reported with the input
    import miscmodel
    miscmodel.hook(ctx)
