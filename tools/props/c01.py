"""C01: a successful incremental build equals a clean build."""
import enginecheck as ec, histmodel
from props import engcommon
LEVEL = 'proof'; TRUSTED = engcommon.TRUSTED_ENGINE; ASSUMPTIONS = engcommon.ASSUMPTIONS_ENGINE
def run(ctx):
    import random
    def extra(ctx):
        rnd = random.Random(ctx.seed + 77)
        hs = [ec.motif_deps_swap(rnd, 'C01_swap_%d' % i) for i in range(60)]
        # "after ANY history" includes invocations that were killed: every crash point of the build in which a restat+deps command
        # re-reports its dependencies, then the recovery build (the full crash campaign is C07's)
        bases = [ec.motif_restat_deps_crash(rnd, 'C01_rd%d' % i) for i in range(3)]
        for b, n in zip(bases, ec.count_crash_points(bases, rnd)): hs += ec.crash_variants(rnd, b, min(n, 60))
        return hs
    engcommon.run_engine_property(ctx, 'C01', scan_accept=700, oracles=[('c01', None)], faults=0.3, extra_hists=extra, feat=dict(dyndep=0.25))
    # the history-level model (coq/Engine/HistDefs.v, theorems of Properties_C01hist.v) run against the real engine
    histmodel.hook(ctx, 'C01')
    # ... and under the schedules of the engine's -j N runs (coq/Engine/HistParDefs.v, theorems of Properties_C01par.v)
    histmodel.hook(ctx, 'C01', par=True, quick=300, thorough=3000, key='hist_model_parallel_schedules')
