"""C01: a successful incremental build equals a clean build."""
import enginecheck as ec
from props import engcommon
LEVEL = 'proof'; TRUSTED = engcommon.TRUSTED_ENGINE; ASSUMPTIONS = engcommon.ASSUMPTIONS_ENGINE
def run(ctx):
    engcommon.run_engine_property(ctx, 'C01', [('c01', None)], faults=0.3)
