"""C14: path canonicalisation.  Correspondence: exhaustive over {a,b,.,/} up to length L + random long
paths, real CanonicalizePath (ASan, exact-size heap buffer) vs extracted [canon]; oracle: an independent
python normaliser + the listed laws evaluated on the implementation's outputs."""
import itertools, random, os
import vlib

LEVEL = 'proof'
TRUSTED = ['Coq 8.16.1 kernel (coqc); vm_compute only in Examples',
           'extraction: ExtrOcamlBasic only, no Extract Constant; OCaml driver extract/model_run.ml',
           'correspondence harness harness/impl_run.cc (run_canon) compiled with g++ ASan+UBSan against /repo/src',
           'modelled, not verified: CanonicalizePath POSIX branch; in-place aliasing (dst<=src) covered by ASan run only']
ASSUMPTIONS = ['POSIX build: only "/" is a separator; paths contain no NUL']

def pyspec(s: bytes) -> bytes:
    """independent reference: split on '/', drop ''/'.', cancel x/.., keep unresolved .."""
    if not s: return b''
    ab = s.startswith(b'/')
    st = []
    for c in (s[1:] if ab else s).split(b'/'):
        if c in (b'', b'.'): continue
        if c == b'..' and st and st[-1] != b'..': st.pop()
        else: st.append(c)
    r = b'/'.join(st)
    if ab: return b'/' + r
    return r if st else b'.'

def gen(ctx):
    L = 9 if ctx.quick() else 11
    cases = [b'']
    for n in range(1, L + 1):
        for t in itertools.product(b'ab./', repeat=n):
            cases.append(bytes(t))
    nexh = len(cases)
    rnd = random.Random(ctx.seed * 7919 + 14)
    comps = [b'.', b'..', b'', b'a', b'bc', b'...', b'.a', b'a.', b'..b', b'x' * 40, bytes([0xc3, 0xa9]), b' ', b'\\', b'\x01\xff']
    for _ in range(20000 if ctx.quick() else 200000):
        k = rnd.choice([1, 2, 3, 5, 8, 30, 300])
        parts = [rnd.choice(comps) if rnd.random() < 0.8 else bytes(rnd.randrange(1, 256) for _ in range(rnd.randrange(1, 6))).replace(b'/', b'_')
                 for _ in range(rnd.randrange(1, k + 1))]
        s = b'/'.join(parts)
        if rnd.random() < 0.3: s = b'/' + s
        if rnd.random() < 0.2: s = b'../' * rnd.randrange(1, 4) + s
        cases.append(s)
    # deep descents followed by long climbs (resolvable '..' far below the deepest point; a bookkeeping of "recent components"
    # that is bounded or goes stale shows only here): 1-3 phases of d names then m '..', sprinkled with '.' and empty components
    for _ in range(6000 if ctx.quick() else 60000):
        parts = []
        for _ph in range(rnd.randrange(1, 4)):
            d = rnd.choice([1, 2, 7, 8, 9, 10, 15, 16, 17, 31, 32, 33, 40]); m = rnd.choice([0, 1, d - 1, d, d, d + 1, max(0, d - 8), max(0, d - 9), rnd.randrange(0, d + 3)])
            parts += [b'd%d' % i if rnd.random() < 0.8 else rnd.choice([b'.', b'', b'x.y', b'..z']) for i in range(d)] + [b'..'] * m
            if rnd.random() < 0.3: parts.insert(rnd.randrange(len(parts) + 1), rnd.choice([b'.', b'']))
        s = b'/'.join(parts)
        if rnd.random() < 0.3: s = b'/' + s
        if rnd.random() < 0.2: s += b'/'
        cases.append(s)
    return cases, nexh, L

def run(ctx):
    impl = os.path.join(vlib.build_impl('asan'), 'impl_run')
    if ctx.replay:
        cases = [vlib.unhex(l.split()[1]) for l in open(ctx.replay) if l.startswith('input ')]
        nexh, L = 0, 0
    else:
        cases, nexh, L = gen(ctx)
    lines = [vlib.hexs(c) for c in cases]
    rc, iout, ierr = vlib.run_lines(impl, 'canon', lines)
    if rc != 0 or len(iout) != len(lines):
        bad = cases[len(iout)] if len(iout) < len(cases) else b''
        ctx.violation('memory-safety', 'component canon\ninput %s\n' % vlib.hexs(bad),
                      'CanonicalizePath crashed / sanitizer report (rc=%s): %s' % (rc, ierr[-600:]))
        return
    mout = None
    if ctx.model:
        rc, mout, merr = vlib.run_lines(ctx.model, 'canon', lines)
        if rc != 0 or len(mout) != len(lines): raise RuntimeError('model_run failed: ' + merr[-300:])
    # second application for idempotence
    rc, iout2, _ = vlib.run_lines(impl, 'canon', iout)
    seen = set(); nontriv = 0
    for i, c in enumerate(cases):
        o = vlib.unhex(iout[i])
        if o != c and o not in seen: seen.add(o); nontriv += 1
        why = None
        ref = pyspec(c)
        if o != ref: why = 'canonical form differs from the lexical normal form: got %r want %r' % (o, ref)
        elif iout2[i] != iout[i]: why = 'not idempotent: canon(canon(s)) = %r' % vlib.unhex(iout2[i])
        elif len(o) > len(c): why = 'result longer than input'
        elif c and (c[:1] == b'/') != (o[:1] == b'/'): why = 'leading slash not preserved'
        if why:
            ctx.violation('canon-law', 'component canon\ninput %s\n' % lines[i], 'path %r: %s' % (c, why))
        if mout is not None and mout[i] != iout[i]:
            ctx.corr_broken.append('canon input %s: model %s impl %s' % (lines[i], mout[i], iout[i]))
    # ---- "two spellings name the same file to ninja": the callers.  Engine histories in which commands report their
    # dependencies and their own output under non-canonical spellings (./x, zz/../x; harness/run_engine.cc writes depfiles
    # that way): the statement must still recognise its depfile and the repeated build must find nothing to do.
    eng = {}
    if not ctx.replay:
        import random, enginecheck as ec
        from props import engcommon
        rnd = random.Random(ctx.seed * 14 + 1)
        hists = [ec.gen_history(rnd, 'C14_e%d' % i, rnd.randrange(2, 7), rnd.randrange(1, 4), feat=dict(deps=0.9, subdirs=0.6, dyndep=0.0, validations=0.0), faults=0.0)
                 for i in range(250 if ctx.quick() else 3000)]
        rc_, tr, err_, out_ = ec.run_hists(hists)
        known2 = {k.get('id') for k in ctx.known_list if k.get('property') == 'C02'}
        nb = 0
        for h in hists:
            bs = tr.get(h.sid)
            if bs is None: continue
            prev = (None, None)
            for st, b in ec.pair(h, bs):
                nb += 1
                bad = ec.oracle_c02(h, st, b, *prev)
                if bad and not engcommon.classify_c02(h, st, b, known2):
                    ctx.violation('same-file-two-spellings', ec.replay_text(h), '%s build %d: %s (depfile names are spelled ./x and zz/../x by the commands)' % (h.sid, bs.index(b), '; '.join(bad[:3])))
                if 'depfile' in (b.err or '') and b.exit not in (0, None) and not getattr(st, 'faults', None):
                    ctx.violation('same-file-two-spellings', ec.replay_text(h), '%s build %d: %s' % (h.sid, bs.index(b), (b.err or '')[:200]))
                prev = (st, b)
        eng = {'engine_histories_noncanonical_depfiles': len(hists), 'engine_builds': nb}
    ctx.cov.update(evaluations=len(cases), distinct_nontrivial=nontriv, exhaustive=bool(nexh),
                   rule='all %d strings over {a,b,.,/} of length <= %d (exhaustive) + %d random long paths (seeded); '
                        'non-trivial = input is changed by canonicalisation, distinct = distinct canonical results' % (nexh, L, len(cases) - nexh),
                   samples=[{'input': repr(cases[i]), 'impl': repr(vlib.unhex(iout[i]))} for i in (5, 300, 5000, nexh + 1, len(cases) - 1) if i < len(cases)],
                   distribution=dict({'exhaustive': nexh, 'random': len(cases) - nexh, 'max_len': max(map(len, cases))}, **eng))
