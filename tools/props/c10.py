"""C10: discovered dependencies count exactly like declared implicit inputs (metamorphic pairs)."""
import random
import enginecheck as ec, engine, histmodel
from props import engcommon
LEVEL = 'proof'; TRUSTED = engcommon.TRUSTED_ENGINE; ASSUMPTIONS = engcommon.ASSUMPTIONS_ENGINE + ['compared from the first build on in which every discovered dependency had been reported by a successful run (recorded and valid)']
def run(ctx):
    rnd = random.Random(ctx.seed * 10 + 1)
    n = 900 if ctx.quick() else 8000
    pairs = [ec.gen_deps_pair(rnd, 'C10_p%d' % i, wf_reads=(i % 3 != 0)) for i in range(n)]
    for i in range(60):
        a = ec.motif_deps_swap(rnd, 'C10_swap%d_disc' % i)
        pairs.append((a, a.transformed('C10_swap%d_decl' % i, engine.inline_deps, manifest_on_sethidden=True)))
    known = {k.get('id') for k in ctx.known_list if k.get('property') == 'C10'}
    hists = [x for p in pairs for x in p]
    rc, tr, err, out = ec.run_hists(hists)
    for hh, crc, cerr in getattr(ec.run_hists, 'crashes', []):
        ctx.violation('engine-crash', hh.text(), 'ninja\'s engine died (rc=%s) in scenario %s' % (crc, hh.sid))
    nb = 0; nontriv = set()
    for a, b in pairs:
        pa, pb = ec.pair(a, tr.get(a.sid, [])), ec.pair(b, tr.get(b.sid, []))
        carry = set()         # statements pruned by the listed restat finding in an earlier build (they catch up later)
        recorded = set()      # out0 of deps statements that have completed successfully at least once (their deps are on record)
        for k, ((sa, ba), (sb, bb)) in enumerate(zip(pa, pb)):
            nb += 1
            g = sa.g; prod = g.producer()
            depedges = [e for e in g.edges if e.hidden and (e.deps or e.depfile)]
            comparable = all(e.out0 in recorded for e in depedges) and not sa.opts.get('faults') and ba.exit == 0 and bb.exit in (0, 1)
            if comparable and any(e.hidden for e in depedges): nontriv.add((a.sid, k))
            if ba.exit == 0 and bb.exit == 0 and 'restat-prune-ignores-recorded-deps' in known:
                ran_restat0 = {prod[o].idx for o in ba.started if o in prod and g.eff_restat(prod[o])}
                def below_restat0(e, seen=()):
                    for i_ in e.exp + g.eff_imp(e) + e.hidden:
                        p_ = prod.get(i_)
                        if p_ is None or p_.idx in seen: continue
                        if p_.idx in ran_restat0 or below_restat0(p_, seen + (e.idx,)): return True
                    return False
                for o in set(bb.started) - set(ba.started):
                    e = prod.get(o)
                    if e is not None and e.hidden and (e.deps or e.depfile) and below_restat0(e):
                        carry |= {x.out0 for x in g.edges if x.idx in g.dependents_of(e)} | {e.out0}
            if comparable:
                diffs = []
                missing_dep = bb.exit != 0 and 'missing and no known rule' in (bb.err or '')
                if bb.exit != 0 and not missing_dep: diffs.append('declared variant fails (%s) while the discovered one succeeds' % (bb.err or '')[:60])
                elif bb.exit == 0:
                    if sorted(ba.started) != sorted(bb.started): diffs.append('commands run: %s (discovered) vs %s (declared)' % (sorted(ba.started), sorted(bb.started)))
                    fa = {n: c for n, (m, c) in ba.files.items() if not n.endswith('.d') and n not in ('build.ninja', 'part.ninja')}
                    fb = {n: c for n, (m, c) in bb.files.items() if not n.endswith('.d') and n not in ('build.ninja', 'part.ninja')}
                    if fa != fb: diffs.append('final files differ: %s' % sorted(n for n in set(fa) | set(fb) if fa.get(n) != fb.get(n))[:5])
                    bad = ec.oracle_c04(a, sa, ba)
                    # ordering against the recorded (generated) dependencies, ground truth
                    fin = set(); order_bad = []
                    for ev in ba.events:
                        if ev[0] == 'finish' and ev[2] == 0: fin.add(ev[1])
                        if ev[0] == 'start':
                            e = prod.get(ev[1])
                            for hdep in (e.hidden if e else []):
                                p = prod.get(hdep)
                                if p is not None and not p.phony and p.out0 in ba.started and p.out0 not in fin:
                                    order_bad.append('%s started before the producer %s of its recorded dependency %s finished' % (ev[1], p.out0, hdep))
                    diffs += order_bad[:1]
                if diffs:
                    # listed finding: recorded deps of a statement that is already dirty are only probed, not loaded
                    # precondition of the finding: a deps statement with a GENERATED recorded dependency was itself dirty (it ran)
                    E = [e for e in depedges if (e.out0 in ba.started or ba.snap.get(e.out0, {}).get('want') in ('s', 'f')) and any(hd in prod for hd in e.hidden)]
                    anc = set()
                    for e in E:
                        for hd in e.hidden:
                            if hd in prod: anc |= {x.out0 for x in g.edges if hd in g.closure([hd]) and any(o in g.closure([hd]) for o in x.outs)}
                    dep_of_E = set()
                    for e in E: dep_of_E |= {x.out0 for x in g.edges if x.idx in g.dependents_of(e)} | {e.out0}
                    symdiff = set(ba.started) ^ set(bb.started)
                    explained = bool(E) and symdiff <= (anc | dep_of_E)
                    # second listed finding: a deps statement pruned after a restat statement although a recorded dependency is newer
                    ran_restat = {prod[o].idx for o in ba.started if o in prod and g.eff_restat(prod[o])}
                    def below_restat(e, seen=()):
                        for i_ in e.exp + g.eff_imp(e) + e.hidden:
                            p_ = prod.get(i_)
                            if p_ is None or p_.idx in seen: continue
                            if p_.idx in ran_restat or below_restat(p_, seen + (e.idx,)): return True
                        return False
                    pruned = [prod[o] for o in (set(bb.started) - set(ba.started)) if o in prod]
                    roots = [e for e in pruned if e.hidden and (e.deps or e.depfile) and below_restat(e)]
                    below = set()
                    for e in roots: below |= {x.out0 for x in g.edges if x.idx in g.dependents_of(e)} | {e.out0}
                    if 'restat-prune-ignores-recorded-deps' in known and 'dirty-edge-deps-not-loaded' in known and (roots or carry) and E and \
                       (set(ba.started) - set(bb.started)) <= carry and {e.out0 for e in pruned} <= (below | carry | anc | dep_of_E):
                        ctx.known_finding('id=dirty-edge-deps-not-loaded %s build %d: %s' % (a.sid, k, diffs[0][:200]))
                    elif 'restat-prune-ignores-recorded-deps' in known and (roots or carry) and (set(ba.started) - set(bb.started)) <= carry and {e.out0 for e in pruned} <= (below | carry):
                        ctx.known_finding('id=restat-prune-ignores-recorded-deps %s build %d: %s' % (a.sid, k, diffs[0][:200]))
                    elif 'dirty-edge-deps-not-loaded' in known and explained:
                        ctx.known_finding('id=dirty-edge-deps-not-loaded %s build %d: %s' % (a.sid, k, diffs[0][:200]))
                    else:
                        ctx.violation('discovered-vs-declared', a.text() + '# ---- declared variant\n' + b.text(), '%s build %d: %s' % (a.sid, k, '; '.join(diffs[:3])))
                    break
            for o0, code in ba.finished:
                if code == 0: recorded.add(o0)
            for st_ in a.steps: pass
    ctx.cov.update(evaluations=nb, distinct_nontrivial=len(nontriv),
                   rule='%d scenario pairs: a graph whose commands report extra files they read through depfile / deps=gcc / deps=msvc (sources and generated files, with and without a manifest path '
                        'to the generator) and the same graph with those files declared as implicit inputs; same history (edits of declared and discovered inputs, output deletions, command changes, '
                        'changed include sets) and schedules; per build: commands run, final files, ordering against generated recorded dependencies; non-trivial = a comparable build with recorded deps' % len(pairs),
                   samples=[{'pair': pairs[0][0].sid, 'manifest': pairs[0][0].g.manifest()[:300], 'declared': pairs[0][1].g.manifest()[:300]}],
                   distribution=dict(pairs=len(pairs)))
    # the recorded-deps model (coq/Engine/HistDepsDefs.v, theorems of Properties_C10hist.v) run against the real engine: histories in
    # fragment ABD (deps = gcc statements with hidden reads); the two listed findings have to show up identically on both sides
    histmodel.hook(ctx, 'C10', deps=True, quick=300, thorough=3000, key='hist_model_recorded_deps')
    # ... and the depfile-only model (coq/Engine/HistDepfileDefs.v, theorems of Properties_C10depfile.v): `depfile = X` statements without
    # `deps =`, also mixed with deps = gcc ones; the depfiles on disk are part of the compared state
    histmodel.hook(ctx, 'C10', deps='depfile', quick=250, thorough=3000, key='hist_model_depfile_only')
    # msvc-style discovered dependencies: the Coq model of CLParser (coq/Misc/ClParserDefs.v, Properties_C10msvc.v) against the real parser
    import miscmodel
    miscmodel.hook(ctx)
