"""C05: failures are contained, reported, never recorded as success."""
import enginecheck as ec, histmodel
from props import engcommon
LEVEL = 'proof'; TRUSTED = engcommon.TRUSTED_ENGINE; ASSUMPTIONS = engcommon.ASSUMPTIONS_ENGINE
def run(ctx):
    engcommon.run_engine_property(ctx, 'C05', plan_accept=600, oracles=[('failure', lambda h, st, b, prev: ec.oracle_c05(h, st, b, prev[1]))], faults=0.7, feat=dict(dyndep=0.2))
    # the failing-command model (coq/Engine/HistFailDefs.v, theorems of Properties_C05hist.v) run against the real engine:
    # one failing invocation (-j1 -k1) per history, then the invocations that follow
    histmodel.hook(ctx, 'C05', fault=True, quick=300, thorough=3000, key='hist_model_failing_commands')
    # ... and -k N (coq/Engine/HistFailKDefs.v buildFK, theorems of Properties_C05keepgoing.v): several faults, -j1 -k 0/1/2/3
    histmodel.hook(ctx, 'C05', fault='k', quick=250, thorough=3000, key='hist_model_keep_going')
