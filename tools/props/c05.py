"""C05: failures are contained, reported, never recorded as success."""
import enginecheck as ec
from props import engcommon
LEVEL = 'proof'; TRUSTED = engcommon.TRUSTED_ENGINE; ASSUMPTIONS = engcommon.ASSUMPTIONS_ENGINE
def run(ctx):
    engcommon.run_engine_property(ctx, 'C05', plan_accept=600, oracles=[('failure', lambda h, st, b, prev: ec.oracle_c05(h, st, b, prev[1]))], faults=0.7, feat=dict(dyndep=0.2))
