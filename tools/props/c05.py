"""C05: failures are contained, reported, never recorded as success."""
import enginecheck as ec, histmodel
from props import engcommon
LEVEL = 'proof'; TRUSTED = engcommon.TRUSTED_ENGINE; ASSUMPTIONS = engcommon.ASSUMPTIONS_ENGINE
def real_binary(ctx):
    import os, vlib, realbin
    ninja = os.path.join(vlib.build_impl('plain'), 'ninja')
    for name, w in realbin.exit_codes(ninja):
        ctx.violation(name, 'real binary: tools/realbin.py exit_codes\n', w)

def run(ctx):
    if not ctx.replay: real_binary(ctx)
    def motifs(ctx):
        import random
        rnd = random.Random(ctx.seed * 5 + 2)
        return [ec.motif_restat_prune_failed_oo(rnd, 'C05_rp%d' % i) for i in range(60 if ctx.quick() else 600)]
    engcommon.run_engine_property(ctx, 'C05', plan_accept=600, oracles=[('failure', lambda h, st, b, prev: ec.oracle_c05(h, st, b, prev[1]))], faults=0.7, feat=dict(dyndep=0.2), extra_hists=motifs)
    # the failing-command model (coq/Engine/HistFailDefs.v, theorems of Properties_C05hist.v) run against the real engine:
    # one failing invocation (-j1 -k1) per history, then the invocations that follow
    histmodel.hook(ctx, 'C05', fault=True, quick=300, thorough=3000, key='hist_model_failing_commands')
    # ... and -k N (coq/Engine/HistFailKDefs.v buildFK, theorems of Properties_C05keepgoing.v): several faults, -j1 -k 0/1/2/3
    histmodel.hook(ctx, 'C05', fault='k', quick=250, thorough=3000, key='hist_model_keep_going')
