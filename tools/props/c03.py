"""C03: minimality -- only commands affected by a change are re-run (reference make semantics)."""
import random
import enginecheck as ec, engine
from props import engcommon
LEVEL = 'proof'; TRUSTED = engcommon.TRUSTED_ENGINE + ['tools/enginecheck.py expected_after_change: the reference make-semantics propagation of "was rewritten" along non-order-only inputs, from the generator\'s ground truth']
ASSUMPTIONS = engcommon.ASSUMPTIONS_ENGINE + ['the reference is applied to single changes of a converged tree (previous build successful and verified to leave no work)']
def run(ctx):
    known = {k.get('id') for k in ctx.known_list if k.get('property') == 'C03'}
    def extra(ctx):
        rnd = random.Random(ctx.seed * 3 + 33)
        return [ec.gen_minimality_history(rnd, 'C03_m%d' % i) for i in range(2500 if ctx.quick() else 20000)] + \
               [ec.motif_deps_swap(rnd, 'C03_swap%d' % i) for i in range(60)]      # a restat+deps command re-reports a different dependency list
    def orc(h, st, b, prev):
        if h.sid.startswith('C03_swap'):
            # directed histories without a single-change annotation: "exactly the affected commands" is judged by the contents
            # (an affected command that did not run leaves a stale output) -- the known deps findings do not occur in this motif
            bad1 = ec.oracle_c01(h, st, b)
            return ['an affected command was not re-run: ' + t for _, _, t in bad1[:3]] if bad1 else None
        bad = ec.oracle_c03(h, st, b, prev)
        if bad and 'restat-prune-ignores-recorded-deps' in known and all('did not run' in x for x in bad):
            g = st.g; prod = g.producer()
            exp = ec.expected_after_change(st, prev[0]); missing = exp - set(b.started)
            ran_restat = {prod[o].idx for o in b.started if o in prod and g.eff_restat(prod[o])}
            def below_restat(e, seen=()):
                for i in e.exp + g.eff_imp(e) + e.hidden:
                    p = prod.get(i)
                    if p is None or p.idx in seen: continue
                    if p.idx in ran_restat or below_restat(p, seen + (e.idx,)): return True
                return False
            def explained(o0, seen=()):
                e = prod[o0]
                if e.hidden and below_restat(e): return True
                # or it only had to run because an explained statement should have been rewritten
                return any(p.out0 in missing and p.out0 not in seen and explained(p.out0, seen + (o0,)) for i in e.exp + g.eff_imp(e) + e.hidden for p in [prod.get(i)] if p is not None and not p.phony) or \
                       any(explained(q.out0, seen + (o0,)) for i in e.exp + g.eff_imp(e) for p in [prod.get(i)] if p is not None and p.phony for j in p.exp for q in [prod.get(j)] if q is not None and q.out0 in missing and q.out0 not in seen)
            if missing and all(explained(o) for o in missing):
                ctx.known_finding('id=restat-prune-ignores-recorded-deps ' + bad[0][:220]); return None
        return bad
    engcommon.run_engine_property(ctx, 'C03', scan_accept=500, oracles=[('minimality', orc)], faults=0.0, n=50, extra_hists=extra, feat=dict(dyndep=0.0))
    # the history-level model (HistDefs / HistMinimal: theorems of Properties_C03hist.v) run against the real engine: the set of
    # commands run after every change must be the same on both sides (exact rule, CleanNode-faithful loop)
    import histmodel
    histmodel.hook(ctx, 'C03', quick=300, thorough=4000, key='hist_model_run_sets')
