"""C06: concurrency limits hold, no slot idles, the build always finishes."""
import enginecheck as ec
from props import engcommon
LEVEL = 'proof'; TRUSTED = engcommon.TRUSTED_ENGINE; ASSUMPTIONS = engcommon.ASSUMPTIONS_ENGINE
def run(ctx):
    engcommon.run_engine_property(ctx, 'C06', plan_accept=600, oracles=[('limits', lambda h, st, b, prev: ec.oracle_c06(h, st, b))], faults=0.3, feat=dict(pools=0.8, dyndep=0.35))
