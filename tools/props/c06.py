"""C06: concurrency limits hold, no slot idles, the build always finishes."""
import enginecheck as ec
from props import engcommon
LEVEL = 'proof'; TRUSTED = engcommon.TRUSTED_ENGINE; ASSUMPTIONS = engcommon.ASSUMPTIONS_ENGINE
def real_binary(ctx):
    import os, vlib, realbin
    d = vlib.build_impl('plain'); ninja = os.path.join(d, 'ninja')
    known = {k.get('id') for k in ctx.known_list if k.get('property') == 'C06'}
    for w in realbin.load_limit(ninja, os.path.join(d, 'libfakeload.so')):
        ctx.violation('load-limit', 'real binary: tools/realbin.py load_limit\n', w)
    for name, w in realbin.jobserver_tokens(ninja):
        ctx.violation(name, 'real binary: tools/realbin.py jobserver_tokens\n', w)
    for name, w in realbin.jobserver_child_interrupted(ninja):
        ctx.violation(name, 'real binary: tools/realbin.py jobserver_child_interrupted\n', w)
    for name, w in realbin.jobserver_limits(ninja):
        ctx.violation(name, 'real binary: tools/realbin.py jobserver_limits\n', w)
    for name, w in realbin.concurrency_limits(ninja):
        ctx.violation(name, 'real binary: tools/realbin.py concurrency_limits\n', w)
    for name, w in realbin.jobserver_abort_unreaped(ninja):
        ctx.violation(name, 'real binary: tools/realbin.py jobserver_abort_unreaped\n', w)

def termination_motifs(ctx):
    """"it always terminates having run everything needed": directed histories where restat pruning removes many phony statements
    from the plan while other commands are still to run (exit 0 must mean every needed output is up to date)"""
    import random
    rnd = random.Random(ctx.seed * 6 + 5)
    hists = [ec.motif_restat_phony_fan(rnd, 'C06_fan%d' % i) for i in range(60 if ctx.quick() else 600)]
    rc, tr, err, out = ec.run_hists(hists)
    for h in hists:
        bs = tr.get(h.sid)
        if bs is None: continue
        for st, b in ec.pair(h, bs):
            bad = ec.oracle_c01(h, st, b)
            if bad: ctx.violation('exit-success-with-work-left', ec.replay_text(h), '%s build %d: ninja exited successfully but %s' % (h.sid, bs.index(b), '; '.join(t for _, _, t in bad[:4])))
            if b.exit == 0 and 'stuck' in (b.err or ''): ctx.violation('stuck', ec.replay_text(h), '%s build %d: %s' % (h.sid, bs.index(b), b.err))

def run(ctx):
    real_binary(ctx)
    if not ctx.replay: termination_motifs(ctx)
    engcommon.run_engine_property(ctx, 'C06', plan_accept=600, oracles=[('limits', lambda h, st, b, prev: ec.oracle_c06(h, st, b))], faults=0.3, feat=dict(pools=0.8, dyndep=0.35))
    # the MAKEFLAGS parser that decides which jobserver ninja joins (coq/Misc/MakeflagsDefs.v, Properties_C06makeflags.v) against the real one
    import miscmodel
    miscmodel.hook(ctx)
