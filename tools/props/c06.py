"""C06: concurrency limits hold, no slot idles, the build always finishes."""
import enginecheck as ec
from props import engcommon
LEVEL = 'proof'; TRUSTED = engcommon.TRUSTED_ENGINE; ASSUMPTIONS = engcommon.ASSUMPTIONS_ENGINE
def real_binary(ctx):
    import os, vlib, realbin
    d = vlib.build_impl('plain'); ninja = os.path.join(d, 'ninja')
    known = {k.get('id') for k in ctx.known_list if k.get('property') == 'C06'}
    for w in realbin.load_limit(ninja, os.path.join(d, 'libfakeload.so')):
        ctx.violation('load-limit', 'real binary: tools/realbin.py load_limit\n', w)
    for name, w in realbin.jobserver_tokens(ninja):
        ctx.violation(name, 'real binary: tools/realbin.py jobserver_tokens\n', w)
    for name, w in realbin.jobserver_abort_unreaped(ninja):
        ctx.violation(name, 'real binary: tools/realbin.py jobserver_abort_unreaped\n', w)

def run(ctx):
    real_binary(ctx)
    engcommon.run_engine_property(ctx, 'C06', plan_accept=600, oracles=[('limits', lambda h, st, b, prev: ec.oracle_c06(h, st, b))], faults=0.3, feat=dict(pools=0.8, dyndep=0.35))
