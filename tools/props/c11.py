"""C11: dyndep information behaves as if written in the manifest; invalid dyndep files are rejected."""
import random
import enginecheck as ec, engine, histmodel
from props import engcommon
LEVEL = 'proof'; TRUSTED = engcommon.TRUSTED_ENGINE; ASSUMPTIONS = engcommon.ASSUMPTIONS_ENGINE
def probe_consumer_scanned_early(ctx, known):
    """The refutation witness of Properties_C11scan.C11_scan_inline_refuted (`Stale`) on the REAL binary: a statement c reads y as a plain
    source; the dyndep file of statement bout (present before the scan) declares y as an implicit OUTPUT of bout; the target lists c
    before bout.  The scan visits c while y has no producer yet, finds it clean and never looks at it again after the load."""
    import os, subprocess, tempfile, shutil, time
    import vlib
    ninja = os.path.join(vlib.build_impl('plain'), 'ninja')
    d = tempfile.mkdtemp(prefix='verif-c11-', dir='/dev/shm'); n = 0
    def run(*a): return subprocess.run([ninja, '-C', d] + list(a), stdout=subprocess.PIPE, stderr=subprocess.STDOUT, timeout=60)
    try:
        for inlined in (False, True):
            for f in os.listdir(d): os.unlink(os.path.join(d, f))
            open(d + '/build.ninja', 'w').write('rule cat\n  command = cat $in > $out\nrule gen\n  command = cat src > y && cat src > $out\n' +
                                                ('build bout | y: gen src\n' if inlined else 'build bout: gen src || dd\n  dyndep = dd\n') + 'build c: cat y\nbuild top: cat c bout\n')
            open(d + '/dd', 'w').write('ninja_dyndep_version = 1\nbuild bout | y: dyndep\n'); open(d + '/src', 'w').write('v1\n')
            p1 = run('top'); n += 1; time.sleep(0.06)
            open(d + '/src', 'w').write('v2\n'); time.sleep(0.06)
            p2 = run('top'); n += 1
            c = open(d + '/c').read() if os.path.exists(d + '/c') else None
            p3 = run('-n', 'top'); n += 1
            if p1.returncode != 0 or p2.returncode != 0: continue       # not this probe's concern
            stale = c != 'v2\n'; again = b'no work to do' not in p3.stdout
            if stale or again:
                txt = ('%s manifest: after editing src, `ninja top` exits 0 with c = %r (a clean build gives \'v2\\n\')%s: c was scanned before the dyndep file of bout made y an output of bout'
                       % ('INLINED' if inlined else 'dyndep', c, '; the next run has work to do' if again else ''))
                if not inlined and 'dyndep-output-consumer-scanned-early' in known: ctx.known_finding('id=dyndep-output-consumer-scanned-early ' + txt)
                else: ctx.violation('dyndep-consumer-early', 'real binary, see tools/props/c11.py probe_consumer_scanned_early\n' + open(d + '/build.ninja').read(), txt)
    finally: shutil.rmtree(d, ignore_errors=True)
    return n

def probe_produced_forms(ctx):
    """a dyndep file PRODUCED during the build, in every position the manifest allows for it among its producer's outputs (only output, second
    explicit output, implicit output `build stamp | dd: gen`): loaded when the producer finishes, the discovered input is built first"""
    import os, subprocess, tempfile, shutil
    import vlib
    ninja = os.path.join(vlib.build_impl('plain'), 'ninja'); n = 0
    d = tempfile.mkdtemp(prefix='verif-c11-', dir='/dev/shm')
    try:
        for form, outs in (('only output', 'dd'), ('second explicit output', 'stamp dd'), ('implicit output', 'stamp | dd'), ('first of two', 'dd stamp'), ('implicit, two explicit', 's1 s2 | dd')):
            for f in os.listdir(d): os.unlink(os.path.join(d, f))
            touch = ' '.join(o for o in outs.replace('|', ' ').split() if o != 'dd')
            open(d + '/build.ninja', 'w').write('rule gen\n  command = cp dd.in dd' + (' && touch ' + touch if touch else '') + '\nbuild %s: gen dd.in\n' % outs +
                                                'rule mk\n  command = echo X > $out\nbuild x: mk\nrule cat\n  command = cat x > $out\nbuild a: cat || dd\n  dyndep = dd\n')
            open(d + '/dd.in', 'w').write('ninja_dyndep_version = 1\nbuild a: dyndep | x\n')
            p = subprocess.run([ninja, '-C', d, '-j1', 'a'], stdout=subprocess.PIPE, stderr=subprocess.STDOUT, timeout=60); n += 1
            a = open(d + '/a').read() if os.path.exists(d + '/a') else None
            if p.returncode != 0 or a != 'X\n':
                ctx.violation('dyndep-produced-form', 'real binary -j1 a\n' + open(d + '/build.ninja').read() + '# dd.in\n' + open(d + '/dd.in').read(),
                              'dyndep file produced as %s of its generator: ninja exits %d, a = %r (the manifest with `build a: cat | x || dd` builds x first and a = \'X\\n\'): %s'
                              % (form, p.returncode, a, p.stdout.decode(errors='replace')[-200:].replace('\n', ' | ')))
    finally: shutil.rmtree(d, ignore_errors=True)
    return n

def probe_restat_values(ctx):
    """`restat = V` in a dyndep file means what `restat = V` means in the manifest (any non-empty value is true): for each V the dyndep variant
    and the manifest variant must re-run the same commands after an input was touched without a change of content"""
    import os, subprocess, tempfile, shutil, time
    import vlib
    ninja = os.path.join(vlib.build_impl('plain'), 'ninja'); n = 0
    d = tempfile.mkdtemp(prefix='verif-c11-', dir='/dev/shm')
    try:
        for v in ('1', '0', 'true', 'false', 'no', 'x y'):
            ran = {}
            for variant in ('dyndep', 'manifest'):
                for f in os.listdir(d): os.unlink(os.path.join(d, f))
                open(d + '/build.ninja', 'w').write('rule wic\n  command = cat $in > $out.tmp && (cmp -s $out.tmp $out || cp $out.tmp $out) && echo $out >> ran.log\nrule cat\n  command = cat $in > $out && echo $out >> ran.log\n' +
                                                    ('build a: wic src || dd\n  dyndep = dd\n' if variant == 'dyndep' else 'build a: wic src || dd\n  restat = %s\n' % v) + 'build b: cat a\n')
                open(d + '/dd', 'w').write('ninja_dyndep_version = 1\nbuild a: dyndep\n  restat = %s\n' % v); open(d + '/src', 'w').write('same\n')
                p1 = subprocess.run([ninja, '-C', d, 'b'], stdout=subprocess.PIPE, stderr=subprocess.STDOUT, timeout=60); n += 1
                time.sleep(0.06); os.utime(d + '/src'); open(d + '/ran.log', 'w').close()
                p2 = subprocess.run([ninja, '-C', d, 'b'], stdout=subprocess.PIPE, stderr=subprocess.STDOUT, timeout=60); n += 1
                ran[variant] = (p1.returncode, p2.returncode, open(d + '/ran.log').read().split())
            if ran['dyndep'] != ran['manifest']:
                ctx.violation('dyndep-restat-value', 'real binary: a = write-if-changed command, b reads a; build b, touch src (same content), build b again; `restat = %s` once in the dyndep file of a, once in the manifest\n' % v,
                              '`restat = %s`: with the dyndep file the second build ran %s (exit %s), with the binding in the manifest %s (exit %s)' % (v, ran['dyndep'][2], ran['dyndep'][:2], ran['manifest'][2], ran['manifest'][:2]))
    finally: shutil.rmtree(d, ignore_errors=True)
    return n

def run(ctx):
    rnd = random.Random(ctx.seed * 11 + 3)
    n = 700 if ctx.quick() else 6000
    if ctx.replay:
        hs = ec.load_replay(ctx.replay)
        if not hs:
            ctx.violation('replay-unsupported', open(ctx.replay).read(), 'this replay file carries no generator ground truth: inspect it with tools/showtrace %s' % ctx.replay, no_input=True); return
        pairs = [(hs[i], hs[i + 1]) for i in range(0, len(hs) - 1, 2) if hs[i].sid.endswith('_dd')]
        inv = [h for h in hs if hasattr(h, 'dd_kind')]
    else:
        pairs = [ec.gen_dyndep_pair(rnd, 'C11_p%d' % i) for i in range(n)]
        for i in range(40):
            a = ec.motif_dyndep_not_ready(rnd, 'C11_nr%d_dd' % i)
            pairs.append((a, a.transformed('C11_nr%d_inl' % i, engine.inline_dyndep)))
        inv = [h for h in (ec.gen_dyndep_invalid(rnd, 'C11_i%d' % i) for i in range(2 * n)) if h]
    known = {k.get('id') for k in ctx.known_list if k.get('property') == 'C11'}
    if not ctx.replay: probe_consumer_scanned_early(ctx, known); probe_produced_forms(ctx); probe_restat_values(ctx)
    hists = [x for p in pairs for x in p] + inv
    rc, tr, err, out = ec.run_hists(hists)
    for hh, crc, cerr in getattr(ec.run_hists, 'crashes', []):
        ctx.violation('engine-crash', hh.text(), 'ninja\'s engine died (rc=%s) in scenario %s: %s' % (crc, hh.sid, cerr[-200:]))
    nb = 0; nontriv = set(); kinds = {}
    for a, b in pairs:
        pa, pb = ec.pair(a, tr.get(a.sid, [])), ec.pair(b, tr.get(b.sid, []))
        pending = {}
        for k, ((sa, ba), (sb, bb)) in enumerate(zip(pa, pb)):
            nb += 1
            if ba.started: nontriv.add((a.sid, k))
            diffs = []
            if (ba.exit == 0) != (bb.exit == 0): diffs.append('exit %s vs %s (inlined)' % (ba.exit, bb.exit))
            elif ba.exit == 0:
                if sorted(ba.started) != sorted(bb.started): diffs.append('commands run %s vs %s (inlined)' % (sorted(ba.started), sorted(bb.started)))
                fa = {n: c for n, (m, c) in ba.files.items() if not n.endswith('.d')}; fb = {n: c for n, (m, c) in bb.files.items() if not n.endswith('.d')}
                fa.pop('build.ninja', None); fb.pop('build.ninja', None); fa.pop('part.ninja', None); fb.pop('part.ninja', None)
                if fa != fb: diffs.append('final files differ: %s' % sorted(n for n in set(fa) | set(fb) if fa.get(n) != fb.get(n))[:5])
            for name, bad in (('order (dyndep)', ec.oracle_c04(a, sa, ba)), ('order (inlined)', ec.oracle_c04(b, sb, bb))):
                if bad: diffs.append(name + ': ' + bad[0])
            if diffs and 'dyndep-restat-known-late' in known and ba.exit == 0 and bb.exit == 0:
                # listed finding: restat=1 comes from a dyndep file that is itself rebuilt in this run, so the bound statement is
                # judged (and stays) dirty before the file is loaded; the inlined manifest knows restat at scan time and skips it
                g_ = sa.g; prod_ = g_.producer()
                extra = set(ba.started) - set(bb.started)
                def late_restat(o0):
                    e = prod_.get(o0)
                    if e is None or not e.dyndep or e.dyndep not in g_.dd_info or e.out0 not in g_.dd_info[e.dyndep]: return False
                    ddp = prod_.get(e.dyndep)
                    # the dyndep file was not loadable at scan time: its statement ran in this build, or was wanted / not ready in the post-scan snapshot
                    return g_.dd_info[e.dyndep][e.out0][2] and ddp is not None and (ddp.out0 in ba.started or ba.snap.get(ddp.out0, {}).get('want') in ('s', 'f') or ba.snap.get(ddp.out0, {}).get('ready') == '0')
                roots = {o for o in extra if late_restat(o)}
                below = set()
                for o in roots: below |= {x.out0 for x in g_.edges if x.idx in g_.dependents_of(prod_[o])}
                fa_ = {n: c for n, (m, c) in ba.files.items() if not n.endswith('.d') and n not in ('build.ninja', 'part.ninja')}
                fb_ = {n: c for n, (m, c) in bb.files.items() if not n.endswith('.d') and n not in ('build.ninja', 'part.ninja')}
                if roots and extra <= (roots | below) and not (set(bb.started) - set(ba.started)) and fa_ == fb_:
                    ctx.known_finding('id=dyndep-restat-known-late %s build %d: %s' % (a.sid, k, diffs[0][:200])); diffs = []
            if diffs and 'restat-prune-ignores-recorded-deps' in known and ba.exit == 0 and bb.exit == 0:
                # listed finding (same root cause as under C02): a depfile/deps statement that is dirty at scan time only through an input
                # has its recorded dependencies probed, not loaded; after a restat no-op upstream it is pruned although a recorded
                # dependency is newer.  The two variants can differ in WHEN the upstream statement is known to be dirty (the dyndep file
                # adds the changed input only once it is loaded), so one of them prunes the statement and the other re-runs it.
                for (hm, sm, bm), (hl, sl, bl) in (((a, sa, ba), (b, sb, bb)), ((b, sb, bb), (a, sa, ba))):
                    extra = set(bm.started) - set(bl.started)
                    if not extra or set(bl.started) - set(bm.started): continue
                    if pending.get(hm.sid) and extra <= pending[hm.sid]:
                        # the follow-up of the same finding: the variant that pruned re-runs those statements in its next build
                        ctx.known_finding('id=restat-prune-ignores-recorded-deps %s build %d: the statements pruned in the previous build are re-run now' % (hm.sid, k))
                        pending.pop(hm.sid); diffs = []; break
                    gl = sl.g; pl = gl.producer()
                    roots = {o for o in extra if o in pl and pl[o].hidden and (pl[o].deps or pl[o].depfile)}
                    below = set()
                    for o in roots: below |= {x.out0 for x in gl.edges if x.idx in gl.dependents_of(pl[o])}
                    restat_ran = any(o in pl and gl.eff_restat(pl[o]) for o in bl.started)
                    if roots and extra <= (roots | below) and restat_ran:
                        ctx.known_finding('id=restat-prune-ignores-recorded-deps %s build %d: %s pruned after a restat no-op in one variant of the pair although a recorded dependency is newer' % (a.sid, k, sorted(roots)))
                        pending[hl.sid] = roots | below
                        diffs = []; break
            if diffs:
                ctx.violation('dyndep-vs-inlined', ec.replay_text(a) + '# ---- inlined variant\n' + ec.replay_text(b), '%s build %d: %s' % (a.sid, k, '; '.join(diffs[:3])))
                break
    for h in inv:
        prs = ec.pair(h, tr.get(h.sid, []))
        kinds[h.dd_kind] = kinds.get(h.dd_kind, 0) + 1
        for st, b in prs:
            nb += 1
            if h.dd_reason is None:
                if b.exit != 0 and 'dyndep' in (b.err or '') and h.dd_kind == 'valid':
                    ctx.violation('valid-rejected', ec.replay_text(h), '%s: valid dyndep file rejected: %s' % (h.sid, b.err[:120]))
                continue
            nontriv.add((h.sid, 0))
            if b.exit == 0:
                txt = '%s: dyndep file is invalid (%s, mutation %s) but the build succeeded, ran %s' % (h.sid, h.dd_reason, h.dd_kind, b.started)
                dd = sorted(h.g.dd_info)[0]; t = h.g.sources.get(dd, '')
                if 'dyndep-truncated-after-pipe' in known and h.dd_reason in ('no final newline', 'empty implicit outputs', 'empty implicit inputs') and t.rstrip(' ').endswith('|'):
                    ctx.known_finding('id=dyndep-truncated-after-pipe a dyndep file ending right after "|" is accepted: %r' % t[-40:])
                else: ctx.violation('invalid-accepted', ec.replay_text(h), txt)
    # file-level: extracted parser+loader model vs the real DyndepParser/DyndepLoader (tools/dyndepmodel.py)
    ddstats = {}
    if ctx.model:
        import os, dyndepmodel, vlib
        os.environ['DYNDEP_MODEL_RUN'] = os.path.join(os.path.dirname(ctx.model), 'dyndep_run')
        os.environ['DYNDEP_IMPL_RUN'] = os.path.join(vlib.build_impl('asan'), 'impl_run')
        dyndepmodel._MODEL = dyndepmodel._IMPL = None
        mism, st_, smp = dyndepmodel.check(ctx.seed, 2500 if ctx.quick() else 40000)
        ddstats = dict(st_)
        nb += st_.get('cases', 0)
        for m_ in mism[:5]:
            ctx.corr_broken.append('dyndep model vs implementation (%s, %s): impl %s model %s [dyndep file %r]' % (m_['tag'], m_['what'], str(m_['impl'])[:120], str(m_['model'])[:120], m_['content']))
        if st_.get('ub_self_input_crash', 0) or any(k.startswith('ub_self_input_crash') for k in st_):
            txt = 'a dyndep file that lists itself as an implicit input of a bound statement (>= 2 statements bound to it) crashes DyndepLoader::LoadDyndeps (vector modified while iterated)'
            if 'dyndep-self-input-uaf' in known: ctx.known_finding('id=dyndep-self-input-uaf ' + txt)
            else: ctx.violation('dyndep-self-input-crash', 'see tools/dyndepmodel.py tag ub_self_input\n', txt)
    # self-input probe: a dyndep file that names ITSELF as an implicit input of one of two statements bound to it
    import vlib as _v, os as _o
    _man = b'rule r\n  command = touch $out\nbuild dd: r\nbuild out: r in | dd\n  dyndep = dd\nbuild out2: r in | dd\n  dyndep = dd\n'
    _dd = b'ninja_dyndep_version = 1\nbuild out: dyndep | dd\nbuild out2: dyndep\n'
    _rc, _out, _err = _v.run_lines(_o.path.join(_v.build_impl('asan'), 'impl_run'), 'dyndep', ['%s %s %s' % (_man.hex(), b'dd'.hex(), _dd.hex())])
    nb += 1
    if _rc != 0 or not _out or _out[0].startswith('CRASH'):
        ctx.violation('dyndep-self-input-crash', 'component dyndep\ncase %s %s %s\n' % (_man.hex(), b'dd'.hex(), _dd.hex()),
                      'a dyndep file that lists itself as an implicit input (two statements bound to it) crashes DyndepLoader::LoadDyndeps: %s' % (_out[:1] or _err[-200:]))
    ctx.cov.update(evaluations=nb, distinct_nontrivial=len(nontriv),
                   rule='(a) %d scenario pairs: a graph with dyndep files (source or built, shared by up to 3 statements, adding implicit inputs/outputs/restat) and the same graph with the '
                        'information inlined, same history/schedules: exit class, commands run, final files compared, C04 ordering monitor on both; (b) %d graphs whose dyndep file is '
                        'damaged (truncate at random offset, delete/duplicate a line, extra statement, claimed output, garbage, missing file, no version): an independent validator decides '
                        'whether it is invalid, then the build must fail; non-trivial = commands ran / file invalid' % (len(pairs), len(inv)),
                   samples=[{'pair': pairs[0][0].sid, 'manifest': pairs[0][0].g.manifest()[:300], 'dyndep': dict(pairs[0][0].g.ddtext) or {k: v for k, v in pairs[0][0].g.sources.items() if k.startswith('dd')}}] +
                           [{'invalid': h.sid, 'kind': h.dd_kind, 'reason': h.dd_reason, 'text': h.g.sources.get(sorted(h.g.dd_info)[0], '<missing>')} for h in inv[:3]],
                   distribution=dict(pairs=len(pairs), invalid=kinds, dyndep_file_model=ddstats))
    # the dyndep model (coq/Engine/HistDyndepDefs.v ybuild_f, theorems of Properties_C11hist.v) run against the real engine: histories with
    # a dyndep file (source or produced); where its premises hold the inlined manifest must be in the same state (C11_equiv)
    histmodel.hook(ctx, 'C11', dyn=True, quick=250, thorough=3000, key='hist_model_dyndep')
