"""C02: a build that succeeded leaves nothing to do."""
import enginecheck as ec, histmodel
from props import engcommon
LEVEL = 'proof'; TRUSTED = engcommon.TRUSTED_ENGINE; ASSUMPTIONS = engcommon.ASSUMPTIONS_ENGINE
def run(ctx):
    engcommon.run_engine_property(ctx, 'C02', scan_accept=700, oracles=[('converge', lambda h, st, b, prev: ec.oracle_c02(h, st, b, *prev))], faults=0.15, feat=dict(dyndep=0.25))
    # the history-level model (coq/Engine/HistDefs.v, theorems of Properties_C02hist.v) run against the real engine
    histmodel.hook(ctx, 'C02')
    # the real binary across an automatic log recompaction (NinjaMain::IsPathDead is not part of the engine harness)
    import os, vlib, realbin
    for name, w in realbin.recompaction_keeps_live_entries(os.path.join(vlib.build_impl('plain'), 'ninja')):
        ctx.violation(name, 'real binary: tools/realbin.py recompaction_keeps_live_entries\n', w)
