"""Common runner of the engine properties (C01..C07, C10, C11, C17): scenario generation, the real engine
through impl_run, oracles, known-finding classifiers, model acceptance (plan/scan models when present)."""
import os, random, importlib
import vlib, engine, enginecheck as ec

TRUSTED_ENGINE = [
    'Coq 8.16.1 kernel (coqc)', 'extraction: ExtrOcamlBasic only; OCaml driver extract/model_run.ml',
    'harness/run_engine.cc: the REAL State/ManifestParser/DependencyScan/Plan/Builder/BuildLog/DepsLog driven through ninja\'s virtual '
    'DiskInterface/CommandRunner/Status/Jobserver::Client interfaces (in-memory disk with a logical clock, scripted command runner); '
    'reads Plan/Pool private bookkeeping via "#define private public" for the snapshot lines only',
    'python oracles in tools/enginecheck.py (ground truth from the generator, reference contents by a content hash of what each command reads)',
    'not modelled: ninja.cc main() (mirrored by the harness), subprocess-posix.cc, real filesystem timestamps (logical clock instead)']
ASSUMPTIONS_ENGINE = [
    'commands are deterministic functions of the files they read, write only declared outputs/depfile, report all other reads through depfile/deps',
    'mtimes never go backwards; every modification takes a fresh tick of the logical clock (ties only where stated)',
    'non-restat commands rewrite all their outputs; restat commands write only when the content changes']

def classify_c01(h, st, b, bad, known):
    """returns (violations, known_texts)"""
    g = st.g; prod = g.producer()
    stale = {n for k, n, _ in bad}
    garbage = {n for n in stale if b.files.get(n, (0, ''))[1].startswith(('GARBAGE:', 'PARTIAL'))}
    # everything stale is garbage or reads (transitively) a garbage node
    def reads_garbage(n, seen=()):
        e = prod.get(n)
        if e is None or n in seen: return False
        return any(r in garbage or reads_garbage(r, seen + (n,)) for r in e.reads())
    rest = []
    for k, n, t in bad:
        if n in garbage or reads_garbage(n): continue
        rest.append((k, n, t))
    kn = []
    if garbage and 'failed-cmd-rewrote-output' in known:
        kn.append('id=failed-cmd-rewrote-output outputs %s were (re)written by a command that then failed; their old log entry still validates, the next run reports no work' % sorted(garbage))
    elif garbage:
        rest += [(k, n, t) for k, n, t in bad if n in garbage]
    # restat pruning against unloaded recorded deps
    rest2 = []; pruned = set()
    for k, n, t in rest:
        e = prod.get(n)
        if e is not None and e.hidden and e.out0 not in b.started and any(pe.out0 in b.started and g.eff_restat(pe) for pe in g.edges) \
           and 'restat-prune-ignores-recorded-deps' in known:
            kn.append('id=restat-prune-ignores-recorded-deps %s (deps/depfile edge) was pruned after a restat edge although a recorded dependency is newer' % n)
            pruned.add(n)
        else: rest2.append((k, n, t))
    # a statement that did run but read the stale output of a wrongly pruned one is the same failure downstream
    def reads_pruned(n, seen=()):
        e = prod.get(n)
        if e is None or n in seen: return False
        return any(r in pruned or reads_pruned(r, seen + (n,)) for r in e.reads())
    if pruned: rest2 = [(k, n, t) for k, n, t in rest2 if not reads_pruned(n)]
    return rest2, kn

def classify_c02(h, st, b, known):
    """the second run started something: explained by the listed restat-prune finding?"""
    g = st.g; prod = g.producer()
    if 'restat-prune-ignores-recorded-deps' not in known or not any(g.eff_restat(e) for e in g.edges): return None
    started = [prod[o] for o in b.started if o in prod]
    roots = [e for e in started if not any(pe is not e and pe.idx in [x.idx for x in started] and e.idx in g.dependents_of(pe) for pe in started)]
    def restat_upstream(e, seen=()):
        for i in e.exp + g.eff_imp(e) + e.hidden:      # recorded deps are inputs of the scan too
            p = prod.get(i)
            if p is None or p.idx in seen: continue
            if g.eff_restat(p) or restat_upstream(p, seen + (e.idx,)): return True
        return False
    if roots and all(e.hidden and restat_upstream(e) for e in roots):
        return 'id=restat-prune-ignores-recorded-deps the run after a successful build re-ran %s: pruned in the first run after a restat statement although a recorded dependency was newer' % [e.out0 for e in roots]
    return None

def gen_config(ctx, pid):
    q = ctx.quick()
    return dict(n=(2500 if q else 12000), seeds=[ctx.seed] if q else [ctx.seed, ctx.seed + 1000, ctx.seed + 2000])

def run_engine_property(ctx, pid, oracles, feat=None, faults=0.25, n=None, nsteps=(1, 6), nedges=(2, 9), extra_hists=None, wf_reads=True, plan_accept=0, scan_accept=0):
    cfg = gen_config(ctx, pid)
    n = n or cfg['n']
    known = {k.get('id') for k in ctx.known_list if k.get('property') == pid}
    hists = []
    if ctx.replay:
        hists = ec.load_replay(ctx.replay); extra_hists = None; cfg = dict(cfg, seeds=[])
        if not hists:
            ctx.violation('replay-unsupported', open(ctx.replay).read(), 'this replay file carries no generator ground truth: inspect it with tools/showtrace %s' % ctx.replay, no_input=True)
            return
    for seed in cfg['seeds']:
        rnd = random.Random(seed * 1000003 + int(pid[1:]))
        for i in range(n):
            hists.append(ec.gen_history(rnd, '%s_%d_%d' % (pid, seed, i), rnd.randrange(*nedges), rnd.randrange(*nsteps), feat=feat, faults=faults, wf_reads=wf_reads))
    if extra_hists: hists += extra_hists(ctx)
    rc, tr, err, out = ec.run_hists(hists)
    for hh, crc, cerr in getattr(ec.run_hists, 'crashes', []):
        ctx.violation('engine-crash', ec.replay_text(hh), 'ninja\'s engine died (signal/abort, rc=%s) in scenario %s: %s' % (crc, hh.sid, cerr.replace('\n', ' ')[-300:]))
    nbuilds = 0; seen_kinds = {}; nontriv = set(); samples = []
    for h in hists:
        bs = tr.get(h.sid)
        if bs is None: continue
        prs = ec.pair(h, bs)
        prev = (None, None)
        for st, b in prs:
            nbuilds += 1
            if b.started: nontriv.add((h.sid, nbuilds))
            for name, fn in oracles:
                if name == 'c01':
                    bad = ec.oracle_c01(h, st, b)
                    if bad:
                        rest, kn = classify_c01(h, st, b, bad, known)
                        for t in kn: ctx.known_finding(t)
                        if rest: ctx.violation('content', ec.replay_text(h), '%s build %d: %s' % (h.sid, bs.index(b), '; '.join(t for _, _, t in rest[:4])))
                elif name == 'converge':
                    bad = fn(h, st, b, prev)
                    if bad:
                        kn = classify_c02(h, st, b, known)
                        if kn: ctx.known_finding(kn)
                        else: ctx.violation(name, ec.replay_text(h), '%s build %d: %s' % (h.sid, bs.index(b), '; '.join(bad[:4])))
                else:
                    bad = fn(h, st, b, prev)
                    if bad: ctx.violation(name, ec.replay_text(h), '%s build %d: %s' % (h.sid, bs.index(b), '; '.join(bad[:4])))
            prev = (st, b)
        if len(samples) < 3 and prs:
            samples.append({'scenario': h.sid, 'manifest': h.g.manifest()[:400], 'steps': [s.line[:120] for s in h.steps[:6]],
                            'first_build_started': prs[0][1].started})
    # trace acceptance by the extracted plan/build-loop model: refinement by state comparison.  Scenarios WITH dyndep
    # are included: files loaded by the scan are part of the snapshot, loads during the build are events of the model
    accept = {}
    if plan_accept and ctx.model:
        import planmodel
        os.environ['PLAN_MODEL_RUN'] = os.path.join(os.path.dirname(ctx.model), 'plan_run')
        planmodel._BIN = None
        crashed = {hh.sid for hh, _, _ in getattr(ec.run_hists, 'crashes', [])}
        cand = [h for h in hists if h.sid not in crashed][:plan_accept]
        mism, stats = planmodel.check_hists(cand, out)
        accept = dict(stats)
        accept['scenarios-with-dyndep'] = len([h for h in cand if h.g0.dd_info or any(getattr(s_, 'g', None) is not None and s_.g.dd_info for s_ in h.steps)])
        for sid, v in list(mism.items())[:5]:
            ctx.corr_broken.append('plan model rejects ninja\'s trace of scenario %s: %s' % (sid, '; '.join(v[:2])))
            hh = [h for h in cand if h.sid == sid]
            if hh: ctx.replay_file('plan-mismatch', hh[0].text())
    # correspondence of the extracted dependency-scan model with ninja's scan (dyndep-free scenarios)
    scanst = {}
    if scan_accept and ctx.model:
        import scanmodel, collections
        os.environ['SCANMODEL_BIN'] = os.path.join(os.path.dirname(ctx.model), 'scan_run')
        crashed = {hh.sid for hh, _, _ in getattr(ec.run_hists, 'crashes', [])}
        nodd = [h for h in hists if not h.g0.dd_info and h.sid not in crashed and not any(getattr(s_, 'g', None) is not None and s_.g.dd_info for s_ in h.steps)][:scan_accept]
        snaps = scanmodel.parse_snaps(out); st_ = collections.Counter(); jobs = []
        for h in nodd:
            for j in scanmodel.prepare(h, tr.get(h.sid, []), snaps.get(h.sid, [])): jobs.append((h,) + j)
        outs = scanmodel.run_model([j[4] for j in jobs]) if jobs else []
        nbad = 0
        for (h, st, b, sn, line, c), o in zip(jobs, outs):
            r = scanmodel.parse_model(o, c); st_['builds'] += 1; st_['result:' + r['kind']] += 1
            ms = scanmodel.compare(r, sn, c)
            if ms:
                nbad += 1
                if nbad <= 5:
                    ctx.corr_broken.append('scan model differs from ninja\'s scan in scenario %s: %s' % (h.sid, '; '.join(ms[:2])))
                    ctx.replay_file('scan-mismatch', h.text())
        st_['mismatching builds'] = nbad
        scanst = dict(st_)
    # correspondence of the scan model WITH scan-time dyndep loads (coq/Engine/ScanDynDefs.v; scenarios with dyndep)
    scandynst = {}
    if scan_accept and ctx.model and os.path.exists(os.path.join(os.path.dirname(ctx.model), 'scandyn_run')):
        import scandynmodel
        os.environ['SCANDYNMODEL_BIN'] = os.path.join(os.path.dirname(ctx.model), 'scandyn_run')
        crashed = {hh.sid for hh, _, _ in getattr(ec.run_hists, 'crashes', [])}
        wdd = [h for h in hists if scandynmodel.has_dyndep(h) and h.sid not in crashed][:scan_accept]
        bad_, st_ = scandynmodel.check_all(wdd, tr, out)
        seen_ = set()
        for h, m in bad_:
            if h.sid in seen_ or len(seen_) >= 5: continue
            seen_.add(h.sid)
            ctx.corr_broken.append('scan model (dyndep) differs from ninja\'s scan in scenario %s: %s' % (h.sid, m[:400]))
            ctx.replay_file('scandyn-mismatch', h.text())
        scandynst = dict(st_)
    kinds = {}
    for h in hists:
        for s in h.steps: kinds[s.kind] = kinds.get(s.kind, 0) + 1
    ctx.cov.update(evaluations=nbuilds, distinct_nontrivial=len(nontriv),
                   rule='seeded random graphs (%d-%d statements; explicit/implicit/order-only inputs, multi/implicit outputs, phony, restat, depfile/deps gcc+msvc, '
                        'validations, pools, rspfile) x histories of %d-%d change steps (edit/touch/rm output/command+rsp change/deps change/droplog/dropdeps) x builds with '
                        'random targets, -j, -k, completion schedules and failing commands; one evaluation = one ninja invocation; non-trivial = it started at least one command' % (
                            nedges[0], nedges[1] - 1, nsteps[0], nsteps[1] - 1),
                   samples=samples, distribution=dict(scenarios=len(hists), steps=kinds), traces_validated_against_model=accept.get('replayed', 0), plan_model_acceptance=accept, scan_model_correspondence=scanst, scandyn_model_correspondence=scandynst)
    return hists, tr
