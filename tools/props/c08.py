"""C08: the build log (.ninja_log) survives torn writes, restarts and compaction.
 implementation : harness/run_buildlog.cc = the real BuildLog (OpenForWrite / RecordCommand on real edges / WriteEntry /
                  Close / Load / Recompact / Restat) on real files under /dev/shm, ASan+UBSan
 model          : coq/Log/BuildLogDefs.v extracted to buildlog_run (same line protocol, see extract/buildlog_run.ml)
 generation     : record sequences rendered by the REAL writer, then EVERY truncation offset of the small logs x
                  {reload, append + reload, session (dead outputs, recompaction) + reload, restat of a subset (+ explicit
                  recompaction)}; multi-session chains crossing the 100-lines / 3x threshold; header variants; garbage
 oracle         : python only (never the model): fold over the complete lines of the same bytes; record-level
                  bookkeeping for appends after a tear (safe direction), sessions, restat, versions.
 history        : "append after a torn tail merges two records" was found by this check and FIXED in the tree (6375e7b: a
                  newline is written before the first append); the old shapes are violations again.  The classifier for
                  the known-finding id is kept for the case the defect returns and is listed.  MODEL_HAS_NEWLINE_FIX
                  says whether BuildLogDefs.record_append already has that newline."""
import collections, json, os, random, re, shutil, subprocess, tempfile, threading
from concurrent.futures import ThreadPoolExecutor
import vlib
from vlib import hexs, unhex

LEVEL = 'proof'
TRUSTED = ['Coq 8.16.1 kernel (coqc); Print Assumptions of every Properties_C08 theorem: closed under the global context',
           'extraction: ExtrOcamlBasic only, no Extract Constant (coq/ExtractBuildLog.v); OCaml driver extract/buildlog_run.ml (int64 <-> N/Z conversion, sorting, hex)',
           'harness/run_buildlog.cc compiled with g++ ASan+UBSan against the working tree: real BuildLog on real files in /dev/shm; records with a command text go through '
           'RecordCommand on a real State/Edge (hash = HashCommand of the command), records with a chosen hash through the public WriteEntry + fflush on a second '
           'append-mode stream; needs_recompaction_ (private) is observed as "OpenForWrite recompacts"',
           'the python oracle of this file (fold over complete lines; C prefix-number parsers used only to CLASSIFY the known merged-line finding)',
           'while MODEL_HAS_NEWLINE_FIX is False: the model lacks the newline OpenForWriteIfNeeded writes before appending to a log whose last line is torn; '
           'the expected implementation bytes are the model\'s with that one newline inserted (expected_impl_from_model) and the expected table is the model\'s load of those bytes',
           'tmpfs semantics stand for the disk: a torn write is modelled as "an arbitrary prefix of the appended bytes reached the file" (fflush after every record)']
ASSUMPTIONS = ['output names contain no NUL, tab or newline (ninja paths) and a rendered line (name + at most 63 bytes) is at most 262144 bytes long: a longer line is '
               'dropped whole by LineReader (its output merely looks dirty); the "exactly the complete records" oracle skips such lines, model and implementation are still compared on them',
               'a torn write leaves a prefix of the bytes appended (no reordering, no foreign garbage); other garbage is covered by correspondence + "never an error / no crash" only',
               'safe direction is judged per output on (command hash, mtime): an entry for a real output whose (hash, mtime) pair was never written for it is counted as unsafe '
               '(RecomputeOutputDirty compares exactly these two fields). The one accepted exception: a record cut inside its hash field reappears, after the next append, with its '
               'genuine name/start/end/mtime and a PREFIX of its hash digits (empty prefix = 0): it can only make a non-generator output look out of date',
               'POSIX build; one writer at a time']

B = 262144                      # sizeof(LineReader::buf_)
HEADER = b'# ninja log v7\n'
KNOWN_ID = 'append-after-tear-merges-records'
LISTED = False                  # set by run(): KNOWN_ID is listed in known_findings.txt as a finding (the defect was FIXED in the tree: 6375e7b)
# The fix (OpenForWriteIfNeeded writes one newline before the first append when the non-empty log does not end in LF) is not yet in
# BuildLogDefs.record_append.  While False, the implementation's expected bytes are derived from the model's by exactly that rule
# (see expected_impl_from_model); flip to True when the model has it -- nothing else needs to change.
MODEL_HAS_NEWLINE_FIX = True
LONG_ALPHA = bytes(b'abcdefgh /.\xc3\xa9-_01'[i % 17] for i in range(256))

# ------------------------------------------------------------------------------------------------------------------
# records and protocol
Rec = collections.namedtuple('Rec', 'name start end mtime hash cmd')     # cmd None => raw record with a chosen hash

def tok(r):
    t = '%s:%d:%d:%d:%x' % (hexs(r.name), r.start, r.end, r.mtime, r.hash)
    return t + ':' + hexs(r.cmd) if r.cmd is not None else t
def toks(rs): return ','.join(tok(r) for r in rs) or '-'
def names_list(ns): return ','.join(hexs(n) for n in ns) or '-'
def rec_of_tok(t):
    f = t.split(':')
    return Rec(unhex(f[0]), int(f[1]), int(f[2]), int(f[3]), int(f[4], 16), unhex(f[5]) if len(f) > 5 else None)
def recs_of(s): return [] if s == '-' else [rec_of_tok(t) for t in s.split(',')]
def val(r): return (r.start, r.end, r.mtime, r.hash)

def py_render(r):
    """independent statement of WriteEntry's format"""
    return b'%d\t%d\t%d\t%s\t%x\n' % (r.start, r.end, r.mtime, r.name, r.hash)

def parse_load(words):
    """LOAD part of a result line -> ('discard', 'old'|'new', extra) | ('ok', flag, {name: (s,e,m,h)}) | ('other', text)"""
    if not words: return ('other', '')
    if words[0] == 'discard': return ('discard', words[1] if len(words) > 1 else '?', words[2:])
    if words[0] == 'ok' and len(words) > 1 and words[1] in ('recompact=0', 'recompact=1'):
        t = {}
        for w in words[2:]:
            f = w.split(':')
            if len(f) != 5: return ('other', ' '.join(words))
            t[unhex(f[0])] = (int(f[1]), int(f[2]), int(f[3]), int(f[4], 16))
        return ('ok', words[1] == 'recompact=1', t)
    return ('other', ' '.join(words)[:200])

def split_result(line):
    """'[flag ...] <file-hex> LOAD...' -> (flags, file bytes, LOAD words)"""
    w = line.split(' ')
    flags = []
    while w and (w[0].endswith('-failed') or w[0].endswith('-error')): flags.append(w.pop(0))
    if not w: return flags, None, []
    try: f = unhex(w[0])
    except ValueError: return flags, None, w
    return flags, f, w[1:]

# ------------------------------------------------------------------------------------------------------------------
# the independent oracle
def fold_complete(data):
    """What a log written by ninja and cut at an arbitrary byte must load as, from the bytes alone (rules read off
    BuildLog::Load): empty file => empty table; a cut inside the signature "# ninja log v7" (1..13 bytes) leaves no
    readable version => "too old", the log is deleted; otherwise the table is the last record per output over the lines
    TERMINATED by a newline inside the prefix (the unterminated tail is ignored).  -> (status, ordered records, total)"""
    if not data: return 'ok', [], 0
    if len(data) < 14: return 'discard', [], 0
    recs = []
    for l in data.split(b'\n')[1:-1]:
        if len(l) + 1 > B: continue                 # over-long line: dropped by LineReader (assumption 1)
        s, e, m, name, h = l.split(b'\t')
        recs.append(Rec(name, int(s), int(e), int(m), int(h, 16), None))
    return 'ok', recs, len(recs)

def last_wins(recs):
    t = {}
    for r in recs: t[r.name] = val(r)
    return t

def wants_recompaction(total, unique): return total > 100 and total > 3 * unique

# C prefix parsers: only used to PREDICT the entry a merged line yields, i.e. to recognise the known finding
def c_int(b, bits):
    m = re.match(rb'[ \t\n\v\f\r]*([+-]?)([0-9]*)', b)
    v = int(m.group(2) or b'0'); v = -v if m.group(1) == b'-' else v
    v = max(-2**63, min(2**63 - 1, v))
    if bits == 32:
        v &= 0xffffffff
        if v >= 2**31: v -= 2**32
    return v
def c_hex(b):
    m = re.match(rb'[ \t\n\v\f\r]*([+-]?)(?:0[xX])?([0-9a-fA-F]*)', b)
    v = int(m.group(2) or b'0', 16)
    if v >= 2**64: return 2**64 - 1
    return (2**64 - v) % 2**64 if m.group(1) == b'-' else v
def py_parse_line(l):
    f = l.split(b'\t', 4)
    if len(f) < 5: return None
    return f[3], (c_int(f[0], 32), c_int(f[1], 32), c_int(f[2], 64), c_hex(f[4]))

def fmt_rec(name, v): return '%r start=%d end=%d mtime=%d hash=%x' % (name, v[0], v[1], v[2], v[3])

class Verdict:
    def __init__(self): self.bad = []; self.finding = []; self.stats = collections.Counter()

def judge_after_tear(prefix, s2, hist, load, vd, fbytes=None, recompacted_expected=False, dead=()):
    """What a log must look like after records were appended to a torn log (no recompaction in between unless
    `recompacted_expected`).  OpenForWriteIfNeeded terminates a torn last line with one newline before the first
    append, so the fragment is a line of its own: with fewer than 4 tabs it is skipped; cut inside the hash (4 tabs) it
    yields the interrupted record itself with a truncated hash (acceptable: it can only make a non-generator output look
    out of date).  Every appended record is intact.  Anything else for a real output is a violation -- unless the old
    "append after a tear merges two records" defect is LISTED as a known finding, in which case exactly the predicted
    merged-line entry and its side effects (next record lost / stale / wrong start time) are classified as that finding."""
    listed = LISTED
    if load[0] == 'discard':
        if len(prefix) >= (15 if listed else 14): vd.bad.append(('discarded', 'a log with an intact signature was discarded after an append'))
        vd.stats['tear:signature torn, log discarded after the append (all outputs dirty)'] += 1; return
    if load[0] != 'ok': vd.bad.append(('load-error', 'Load failed: %s' % (load[1],))); return
    T = load[2]
    st, complete, _ = fold_complete(prefix)
    frag = prefix[prefix.rfind(b'\n') + 1:]
    if recompacted_expected:
        exp = {n: v for n, v in last_wins(complete).items() if n not in dead}
        exp.update(last_wins(s2))
        if T != exp: vd.bad.append(('session', 'after recompaction + append the table is not "latest record of every live output": ' + diff_tables(exp, T)))
        vd.stats['tear:recompacted'] += 1; return
    if fbytes is not None and not listed:
        expb = (prefix + (b'' if prefix.endswith(b'\n') else b'\n') if prefix else HEADER) + b''.join(py_render(r) for r in s2)
        if fbytes != expb:
            vd.bad.append(('append', 'appending to a log cut at byte %d must leave prefix + (newline if the last line is torn) + the records: got %r want %r' % (
                len(prefix), cut(fbytes[max(0, len(prefix) - 30):], 160), cut(expb[max(0, len(prefix) - 30):], 160))))
    latest = last_wins(complete + s2)
    written = collections.defaultdict(set)
    for r in list(hist) + list(s2): written[r.name].add(val(r))
    tabs = frag.count(b'\t')
    merged = py_parse_line(frag + py_render(s2[0])[:-1]) if (s2 and frag) else None       # what the old defect produced
    torn_rec = hist[len(complete)] if (frag and len(prefix) > 14 and len(complete) < len(hist)) else None      # the record the tear interrupted
    eaten = s2[0].name if (listed and s2 and tabs >= 1) else None       # old defect: the record glued to a fragment with >= 1 tab is lost
    part = frag.split(b'\t')[4] if tabs == 4 else None
    renamed = set(r.name for r in s2)
    def interrupted_self(n, v):
        return (torn_rec is not None and part is not None and n == torn_rec.name and n not in renamed and v[:3] == val(torn_rec)[:3]
                and (b'%x' % torn_rec.hash).startswith(part) and v[3] == int(part or b'0', 16))
    for n, v in T.items():
        if n not in written:
            if listed: vd.stats['tear:garbage-name entry (harmless)'] += 1
            else: vd.bad.append(('append', 'entry %s for a name that was never recorded' % fmt_rec(n, v)))
            continue
        if latest.get(n) == v: continue
        if interrupted_self(n, v):
            vd.stats['tear:the interrupted record itself, hash %s (acceptable)' % ('complete' if v == val(torn_rec) else 'truncated')] += 1; continue
        if v in written[n]:
            if n == eaten: vd.stats['tear:stale entry of the eaten record (listed defect)'] += 1
            else: vd.bad.append(('stale', 'output %r keeps an older record (%s) although a later one was written completely' % (n, fmt_rec(n, v))))
            continue
        if listed and (v[3], v[2]) in {(w[3], w[2]) for w in written[n]}:
            vd.stats['tear:record intact except timing field (listed defect)'] += 1; continue
        what = 'entry %s: %s (written: %s)' % (
            fmt_rec(n, v), 'an appended record is not intact (start/end differ)' if (v[3], v[2]) in {(w[3], w[2]) for w in written[n]} else
            'this (hash, mtime) pair was never written for that output', '; '.join(fmt_rec(n, w) for w in sorted(written[n])[:4]) or 'nothing')
        if merged and merged == (n, v):
            what = 'log torn after %r, next record %r: the two were read as ONE line (no newline before the append) => %s' % (frag[-60:], py_render(s2[0])[:60], what)
            if listed:
                torn = torn_rec.name if torn_rec is not None else None
                newer = all(v[2] > w[2] for w in written[n])
                rank = 0 if (tabs == 3 and torn != n and newer and torn == frag.split(b'\t')[3]) else 1 if (tabs == 3 and torn != n) else 2 if tabs < 3 else 3
                vd.finding.append((rank, what))
                vd.stats['tear:merged line gives a real output an unwritten (hash, mtime) [tabs in fragment=%d]' % min(tabs, 4)] += 1
            else: vd.bad.append(('safe-direction', what))
        else:
            vd.bad.append(('safe-direction', what))
    for n in latest:
        if n not in T:
            if n == eaten: vd.stats['tear:eaten record lost (listed defect)'] += 1
            else: vd.bad.append(('lost', 'output %r has a completely written record but no entry' % n))
    if frag and tabs < 4 and len(prefix) >= 15: vd.stats['tear:fragment with < 4 tabs skipped, appended records intact'] += 1

def diff_tables(exp, got):
    d = []
    for n in sorted(set(exp) | set(got)):
        if exp.get(n) != got.get(n):
            d.append('%r: expected %s, loaded %s' % (n, exp.get(n) and fmt_rec(n, exp[n]), got.get(n) and fmt_rec(n, got[n])))
    return '; '.join(d[:4]) + (' (+%d more)' % (len(d) - 4) if len(d) > 4 else '')

def oracle(name, octx, line, res, vd):
    """evaluate oracle `name` on implementation result `res` of case `line`; appends to vd"""
    w = line.split(' ')
    op = w[0]
    if op == 'load': flags, fbytes, lw = [], None, res.split(' ')
    else: flags, fbytes, lw = split_result(res)
    load = parse_load(lw)
    if load[0] == 'other' or flags and not (flags == ['restat-failed'] and octx.get('stat_fails')):
        vd.bad.append(('never-an-error', 'operation reported %s' % (res[:200],))); return
    if name == 'none': return
    data = unhex(w[1])
    if name == 'render':            # append to an empty/complete log: bytes and table
        hist = recs_of(octx['before']); s = recs_of(w[2])
        exp = (HEADER if not data else data) + b''.join(py_render(r) for r in s)
        if fbytes != exp: vd.bad.append(('roundtrip', 'bytes written differ from "%%d\\t%%d\\t%%lld\\t%%s\\t%%llx\\n" per record: got %r want %r' % (cut(fbytes), cut(exp))))
        allr = [r for r in hist + s if len(py_render(r)) <= B]
        if load[0] != 'ok' or load[2] != last_wins(allr):
            vd.bad.append(('roundtrip', 'reloaded table is not the last record per output: ' + (diff_tables(last_wins(allr), load[2]) if load[0] == 'ok' else res[-100:])))
        elif load[1] != wants_recompaction(len(allr), len(load[2])): vd.bad.append(('threshold', 'needs_recompaction=%s for %d lines / %d outputs' % (load[1], len(allr), len(load[2]))))
    elif name == 'torn-load':       # the "exactly the complete records" clause
        st, recs, total = fold_complete(data)
        if st == 'discard':
            if load[0] != 'discard' or load[1] != 'old' or 'warn=1' not in load[2] or 'not-unlinked' in load[2]:
                vd.bad.append(('torn', 'signature cut at byte %d: expected "discarded as too old, with a warning, file removed", got %s' % (len(data), res[:100])))
        elif load[0] != 'ok' or load[2] != last_wins(recs):
            vd.bad.append(('torn', 'log cut at byte %d does not load as its complete lines: %s' % (len(data), diff_tables(last_wins(recs), load[2]) if load[0] == 'ok' else res[:100])))
        elif load[1] != wants_recompaction(total, len(load[2])):
            vd.bad.append(('threshold', 'needs_recompaction=%s for %d complete lines / %d outputs' % (load[1], total, len(load[2]))))
    elif name == 'torn-append':
        judge_after_tear(data, recs_of(w[2]), recs_of(octx['hist']), load, vd, fbytes=fbytes)
    elif name == 'torn-session':
        dead = set(unhex(x) for x in w[2].split(',')) if w[2] != '-' else set()
        st, recs, total = fold_complete(data)
        if st == 'discard':         # the log is deleted by Load: the session starts a fresh one
            if load[0] != 'ok' or load[2] != last_wins(recs_of(w[3])): vd.bad.append(('session', 'session after a discarded log is not a fresh log of its records: %s' % res[-200:]))
            return
        rc = wants_recompaction(total, len(last_wins(recs)))
        judge_after_tear(data, recs_of(w[3]), recs_of(octx['hist']), load, vd, fbytes=fbytes, recompacted_expected=rc, dead=dead)
    elif name in ('restat', 'recompact'):
        st, recs, total = fold_complete(data)
        before = last_wins(recs)
        if st == 'discard':
            exp = {}
        elif name == 'recompact':
            dead = set(unhex(x) for x in w[2].split(',')) if w[2] != '-' else set()
            exp = {n: v for n, v in before.items() if n not in dead}
        else:
            stats = dict((unhex(p.split(':')[0]), int(p.split(':')[1])) for p in w[2].split(',')) if w[2] != '-' else {}
            sub = set(unhex(x) for x in w[3].split(',')) if w[3] != '-' else None
            sel = lambda n: sub is None or n in sub
            if any(sel(n) and stats.get(n, 0) == -1 for n in before):
                exp = before                      # Stat error: Restat fails, the log is untouched
                if flags != ['restat-failed']: vd.bad.append(('restat', 'a failing stat did not fail the restat')); return
                if fbytes != data: vd.bad.append(('restat', 'failed restat modified the log')); return
                return
            exp = {n: (v[0], v[1], stats.get(n, 0) if sel(n) else v[2], v[3]) for n, v in before.items()}
        if load[0] != 'ok' or load[2] != exp:
            vd.bad.append((name, ('restat must change only the mtimes of the selected outputs: ' if name == 'restat' else 'recompaction must keep exactly the live entries: ') +
                           (diff_tables(exp, load[2]) if load[0] == 'ok' else res[-100:])))
        elif load[1]: vd.bad.append((name, 'a freshly rewritten log asks for recompaction'))
    elif name == 'expect-table':    # chain step: expectation computed by the python bookkeeping
        exp = dict((unhex(k), tuple(v)) for k, v in octx['table'])
        if load[0] != 'ok' or load[2] != exp:
            vd.bad.append(('session', 'session %d of a chain: the log does not hold the latest record of every live output: %s' % (
                octx.get('step', 0), diff_tables(exp, load[2]) if load[0] == 'ok' else res[-100:])))
        elif load[1] != octx['flag']: vd.bad.append(('threshold', 'needs_recompaction=%s, expected %s (%d lines / %d outputs)' % (load[1], octx['flag'], octx['total'], len(exp))))
    elif name == 'version':
        v = octx['version']
        kind = 'old' if v < 7 else 'new'
        if op == 'load':
            if load[0] != 'discard' or load[1] != kind or 'warn=1' not in load[2] or 'not-unlinked' in load[2]:
                vd.bad.append(('version', 'log of version %d: expected "discarded (%s) with a warning, file removed", got %s' % (v, kind, res[:100])))
        else:
            if load[0] != 'ok' or load[2] != last_wins(recs_of(w[3])):
                vd.bad.append(('version', 'session on a version %d log must start a fresh log holding just its own records, got %s' % (v, res[-200:])))

def cut(b, n=120):
    if b is None: return None
    return b if len(b) <= n else b[:n // 2] + b'...' + b[-n // 2:]

# ------------------------------------------------------------------------------------------------------------------
# running both sides
def _chunks(lines, jobs):
    n = max(1, min(jobs, len(lines) // 50 or 1))
    total = sum(len(l) + 40 for l in lines); per = total / n
    out, cur, acc, start = [], [], 0, 0
    for i, l in enumerate(lines):
        cur.append(l); acc += len(l) + 40
        if acc >= per and len(out) < n - 1:
            out.append((start, cur)); cur, acc, start = [], 0, i + 1
    if cur: out.append((start, cur))
    return out

def run_side(argv, lines, env, jobs):
    """-> (results list with None where missing, failures [(index of first unanswered line, rc, stderr)])"""
    res = [None] * len(lines); fails = []
    def one(ch):
        start, ls = ch
        e = dict(os.environ); e.update(env)
        try:
            p = subprocess.run(argv, input=('\n'.join(ls) + '\n').encode(), stdout=subprocess.PIPE, stderr=subprocess.PIPE, env=e, timeout=3000)
            rc, out, err = p.returncode, p.stdout.decode(errors='replace').split('\n'), p.stderr.decode(errors='replace')
        except subprocess.TimeoutExpired as ex:
            rc, out, err = -999, (ex.stdout or b'').decode(errors='replace').split('\n'), 'TIMEOUT'
        if out and out[-1] == '': out.pop()
        for i, o in enumerate(out[:len(ls)]): res[start + i] = o
        if rc != 0 or len(out) != len(ls): fails.append((start + min(len(out), len(ls) - 1), rc, err))
    with ThreadPoolExecutor(max_workers=jobs) as ex: list(ex.map(one, _chunks(lines, jobs)))
    return res, fails

class Runner:
    def __init__(self, ctx):
        self.ctx = ctx
        self.impl = os.path.join(vlib.build_impl('asan'), 'impl_run')
        self.model = os.path.join(os.path.dirname(ctx.model), 'buildlog_run') if ctx.model else None
        if self.model and not os.path.exists(self.model): self.model = None; ctx.proof['broken'].append('buildlog_run was not built')
        self.tmp = tempfile.mkdtemp(prefix='verif-c08-', dir='/dev/shm' if os.path.isdir('/dev/shm') else None)
        self.ienv = {'ASAN_OPTIONS': 'detect_leaks=0:abort_on_error=0:exitcode=99', 'UBSAN_OPTIONS': 'print_stacktrace=1:halt_on_error=1:exitcode=98',
                     'VERIF_BUILDLOG_TMP': self.tmp}
        self.crashed = False
    def close(self): shutil.rmtree(self.tmp, ignore_errors=True)
    def both(self, lines, jobs=8):
        """-> (impl results, model results or None)"""
        out = {}
        def i(): out['i'] = run_side([self.impl, 'buildlog'], lines, self.ienv, jobs)
        def m(): out['m'] = run_side(['/bin/sh', '-c', 'ulimit -s unlimited 2>/dev/null || ulimit -s $(ulimit -H -s); exec "$0"', self.model], lines, {}, jobs)
        ts = [threading.Thread(target=i)] + ([threading.Thread(target=m)] if self.model else [])
        for t in ts: t.start()
        for t in ts: t.join()
        ires, ifails = out['i']
        for idx, rc, err in ifails[:3]:
            self.crashed = True
            self.ctx.violation('memory-safety', 'component buildlog\ncase %s\n' % lines[idx],
                               'impl_run buildlog crashed / sanitizer report (rc=%s) on case %s: %s' % (rc, lines[idx][:80], err[-700:]))
        mres = None
        if self.model:
            mres, mfails = out['m']
            for idx, rc, err in mfails[:1]: raise RuntimeError('buildlog_run failed (rc=%s) on %s: %s' % (rc, lines[idx][:100], err[-300:]))
        if mres is not None and not MODEL_HAS_NEWLINE_FIX: mres = self.apply_newline_rule(lines, mres, jobs)
        return ires, mres
    def model_only(self, lines, jobs=8):
        res, fails = run_side(['/bin/sh', '-c', 'ulimit -s unlimited 2>/dev/null || ulimit -s $(ulimit -H -s); exec "$0"', self.model], lines, {}, jobs)
        for idx, rc, err in fails[:1]: raise RuntimeError('buildlog_run failed (rc=%s) on %s: %s' % (rc, lines[idx][:100], err[-300:]))
        return res
    def apply_newline_rule(self, lines, mres, jobs):
        """MODEL_HAS_NEWLINE_FIX = True: turn the model's results into what the implementation must produce (see expected_impl_from_model)"""
        todo = []
        for k, l in enumerate(lines):
            if mres[k] is None: continue
            nb = expected_impl_from_model(l, mres[k])
            if nb is not None: todo.append((k, nb))
        if todo:
            loads = self.model_only(['load ' + hexs(nb) for k, nb in todo], jobs)
            mres = list(mres)
            for (k, nb), lr in zip(todo, loads):
                flags = split_result(mres[k])[0]
                mres[k] = ' '.join(flags + [hexs(nb), lr or '?'])
        return mres

def expected_impl_from_model(line, mline):
    """The one known difference between model and implementation while MODEL_HAS_NEWLINE_FIX is False: a session that APPENDS to a
    non-empty log not ending in LF (append; session without discard / recompaction, recognised by: the model's file is the old file
    followed by exactly the rendered records) first writes one newline.  -> the bytes the implementation must leave, or None when
    the model's result stands as it is.  The LOAD part is then the model's own load of those bytes."""
    w = line.split(' ')
    if w[0] not in ('append', 'session'): return None
    old = unhex(w[1])
    if not old or old.endswith(b'\n'): return None
    flags, mb, lw = split_result(mline)
    if mb is None or flags: return None
    n = sum(len(py_render(r)) for r in recs_of(w[-1]))        # generated names contain no NUL: py_render's length is the writer's
    if not (mb.startswith(old) and len(mb) == len(old) + n): return None
    return old + b'\n' + mb[len(old):]

def corresponds(op, i, m):
    if i == m: return True
    if op in ('session', 'recompact', 'restat'):        # rewritten logs: the C++ writes in hash-map order
        fi, bi, li = split_result(i); fm, bm, lm = split_result(m)
        return fi == fm and li == lm and bi is not None and bm is not None and sorted(bi.split(b'\n')) == sorted(bm.split(b'\n'))
    return False

# ------------------------------------------------------------------------------------------------------------------
# generators
BASE_NAMES = [b'out', b'a.o', b'gen', b'lib/x.a', b'my file.o', b'd i r/sp ace.txt', 'caf\u00e9.o'.encode(), b'\xff\xfe\x80bin', b'x',
              'obj/\u65e5\u672c.o'.encode(), b'C:\\p\\q.obj', b'a:b,c', b'-', b'#h', b'build.ninja', b'foo', b'9']
STARTS = [0, 1, 7, 25, 2**31 - 1, -1, -2**31, 10, 123456]
MTIMES = [0, 1, -1, 2**63 - 1, -2**63, 1700000000123456789, 200, 100, 99999999999]
RAW_HASHES = [0, 1, 0x25, 2**64 - 1, 2**63, 0xdeadbeef, 0xabcdef0123456789, 10, 0x7fffffff]

class Gen:
    def __init__(self, rnd): self.rnd = rnd; self.cmds = {}; self.ncmd = 0
    def num(self, pool, lo, hi):
        r = self.rnd
        return r.choice(pool) if r.random() < 0.35 else r.randrange(lo, hi)
    def cmd(self):
        self.ncmd += 1
        c = b'cc -c src%d.c -o obj # %d' % (self.rnd.randrange(50), self.ncmd)
        self.cmds[c] = None
        return c
    def names(self, k):
        r = self.rnd
        ns = r.sample(BASE_NAMES, min(k, len(BASE_NAMES)))
        # an output that is another output's name + digits (the shape of the merged-line finding)
        for n in list(ns[:2]):
            ns.append(n + str(r.choice([0, 7, 25, 1, 10])).encode())
        while len(ns) < k: ns.append(b'o%d/%s' % (len(ns), bytes(r.choice(b'abz \xc3\xa9_.') for _ in range(r.randrange(1, 12)))))
        return ns
    def records(self, n, names):
        """n records: single and multi-output edges, repeated outputs, boundary numbers, real and chosen hashes"""
        r = self.rnd; out = []
        while len(out) < n:
            s, e, m = self.num(STARTS, 0, 100000), self.num(STARTS, 0, 100000), self.num(MTIMES, 0, 2 * 10**18)
            if r.random() < 0.3:
                out.append(Rec(r.choice(names), s, e, m, r.choice(RAW_HASHES) if r.random() < 0.7 else r.getrandbits(64), None))
            else:
                c = self.cmd()
                k = 1 if r.random() < 0.7 else r.randrange(2, 5)
                for nm in r.sample(names, min(k, len(names))): out.append(Rec(nm, s, e, m, 0, c))
        return out[:n]
    def fix_hashes(self, runner):
        """learn the real command hashes from the implementation"""
        cs = [c for c, h in self.cmds.items() if h is None]
        if not cs: return
        res, _ = run_side([runner.impl, 'buildlog'], ['hash ' + hexs(c) for c in cs], runner.ienv, 1)
        for c, h in zip(cs, res): self.cmds[c] = int(h, 16)
    def hashed(self, recs): return [r._replace(hash=self.cmds[r.cmd]) if r.cmd is not None else r for r in recs]
    def follow_up(self, hist, names):
        """the next session's records; its first start time makes `<torn name><digits>` hit a real output sometimes"""
        r = self.rnd
        s2 = self.records(r.randrange(1, 4), names + [b'foo'])
        if r.random() < 0.8:
            d = r.choice([0, 7, 25, 1, 10])
            s2[0] = s2[0]._replace(start=d, end=r.choice([25, 0, 9, 100]))
            if len(s2) > 1 and s2[1].cmd == s2[0].cmd and s2[0].cmd is not None: s2[1] = s2[1]._replace(start=s2[0].start, end=s2[0].end)
        return s2

class Case:
    __slots__ = ('line', 'oracle', 'octx', 'cat')
    def __init__(self, line, oracle_name, octx, cat): self.line, self.oracle, self.octx, self.cat = line, oracle_name, octx, cat

def replay_text(c, ires=None, mres=None):
    t = 'component buildlog\ncase %s\noracle %s %s\n' % (c.line, c.oracle, json.dumps(c.octx))
    if ires is not None: t += '# impl : %s\n' % ires[:3000]
    if mres is not None: t += '# model: %s\n' % mres[:3000]
    return t

# ------------------------------------------------------------------------------------------------------------------
def evaluate(ctx, runner, cases, totals):
    """run the cases on both sides, compare, apply the oracles"""
    if not cases: return []
    lines = [c.line for c in cases]
    ires, mres = runner.both(lines)
    for k, c in enumerate(cases):
        i = ires[k]
        totals['evaluations'] += 1
        totals['dist'][c.cat] += 1
        if i is None: continue
        op = c.line.split(' ', 1)[0]
        if mres is not None and mres[k] is not None and not corresponds(op, i, mres[k]):
            totals['mismatch'] += 1
            if len(ctx.corr_broken) < 50:
                p = ctx.replay_file('correspondence', '# verif-scenario 1\n# property C08\n# failed-oracle correspondence\n' + replay_text(c, i, mres[k]))
                ctx.corr_broken.append('case %s...: impl %s | model %s (replay %s)' % (c.line[:120], abbreviate(i), abbreviate(mres[k]), p))
        vd = Verdict()
        try: oracle(c.oracle, c.octx, c.line, i, vd)
        except Exception as ex: vd.bad.append(('oracle-error', 'cannot interpret the result %s: %r' % (i[:200], ex)))
        for kind, text in vd.bad:
            totals['bad'] += 1
            ctx.violation(kind, replay_text(c, i, mres[k] if mres else None), text)
        for rank, text in vd.finding: totals['findings'].append((rank, len(c.line), text, c))
        totals['stats'].update(vd.stats)
        lw = i.split(' ')
        if any(':' in w for w in lw[-3:]) or i.startswith('discard') or ' discard' in i:
            totals['nontrivial'].add((op, hash(i[-400:]) if len(i) > 400 else i))
    return ires

def abbreviate(s, n=160): return s if len(s) <= n else s[:n // 2] + '...' + s[-n // 2:]

def run(ctx):
    runner = Runner(ctx)
    try: _run(ctx, runner)
    finally: runner.close()

def real_binary_recompact(ctx):
    """the caller's side of recompaction (NinjaMain::IsPathDead is what BuildLog::Recompact asks): the latest record of every output that is
    still in the manifest OR still on disk survives `-t recompact` and the automatic recompaction; only outputs that are in neither are dropped"""
    import subprocess, tempfile, shutil
    ninja = os.path.join(vlib.build_impl('plain'), 'ninja'); n = 0
    d = tempfile.mkdtemp(prefix='verif-c08-', dir='/dev/shm')
    try:
        full = 'rule t\n  command = echo x > $out\nbuild keep: t\nbuild stale: t\nbuild gone: t\nbuild sub/stale2: t\n'
        for auto in (False, True):
            for f in ('.ninja_log', 'keep', 'stale', 'gone', 'sub/stale2'):
                if os.path.exists(os.path.join(d, f)): os.unlink(os.path.join(d, f))
            open(d + '/build.ninja', 'w').write(full)
            p = subprocess.run([ninja, '-C', d], stdout=subprocess.PIPE, stderr=subprocess.STDOUT, timeout=60); n += 1
            if p.returncode != 0: continue
            open(d + '/build.ninja', 'w').write('rule t\n  command = echo x > $out\nbuild keep: t\n'); os.unlink(d + '/gone')
            if auto:      # more than 100 records, more than three per output: the next session recompacts when it opens the log
                lines = open(d + '/.ninja_log').read().split('\n'); recs = [l for l in lines[1:] if l]
                open(d + '/.ninja_log', 'w').write(lines[0] + '\n' + ''.join(r + '\n' for r in recs * 30))
                p = subprocess.run([ninja, '-C', d, 'keep'], stdout=subprocess.PIPE, stderr=subprocess.STDOUT, timeout=60)
            else:
                p = subprocess.run([ninja, '-C', d, '-t', 'recompact'], stdout=subprocess.PIPE, stderr=subprocess.STDOUT, timeout=60)
            n += 1
            recs = [l.split('\t') for l in open(d + '/.ninja_log').read().split('\n')[1:] if l]
            names = [r[3] for r in recs if len(r) == 5]
            what = 'automatic recompaction (120 records, 4 outputs)' if auto else '-t recompact'
            if auto and len(recs) > 8: ctx.violation('recompact-real', 'real binary: see tools/props/c08.py real_binary_recompact\n', '%s did not happen: %d records left' % (what, len(recs)))
            for o in ('keep', 'stale', 'sub/stale2'):
                if names.count(o) != 1:
                    ctx.violation('recompact-real', 'real binary: manifest\n%s\nthen the statements of stale, gone, sub/stale2 are removed from the manifest, `gone` is deleted, %s\n' % (full, what),
                                  '%s left %d records for `%s` (%s): the latest record of an output that is still %s must survive' % (what, names.count(o), o, sorted(set(names)), 'in the manifest' if o == 'keep' else 'on disk'))
            if 'gone' in names:
                ctx.violation('recompact-real', 'real binary: %s\n' % what, '%s kept the record of `gone`, which is neither in the manifest nor on disk' % what)
    finally: shutil.rmtree(d, ignore_errors=True)
    return n

def _run(ctx, runner):
    global LISTED
    LISTED = any(k.get('property') == 'C08' and k.get('id') == KNOWN_ID for k in ctx.known_list)
    totals = dict(evaluations=0, mismatch=0, bad=0, findings=[], stats=collections.Counter(), dist=collections.Counter(), nontrivial=set())
    samples = []
    if ctx.replay:
        cases = []
        for l in open(ctx.replay, errors='replace'):
            l = l.rstrip('\n')
            if l.startswith('case '): cases.append(Case(l[5:], 'none', {}, 'replay'))
            elif l.startswith('oracle ') and cases:
                _, nm, js = l.split(' ', 2); cases[-1].oracle = nm; cases[-1].octx = json.loads(js)
        res = evaluate(ctx, runner, cases, totals)
        report_findings(ctx, totals)
        ctx.cov.update(evaluations=totals['evaluations'], distinct_nontrivial=len(totals['nontrivial']), rule='replay of %s' % ctx.replay,
                       samples=[{'case': abbreviate(c.line), 'impl': abbreviate(r or '')} for c, r in list(zip(cases, res))[:5]], distribution=dict(totals['dist']), exhaustive=False)
        return
    quick = ctx.quick()
    totals['dist']['real-binary recompaction runs'] = real_binary_recompact(ctx)
    rnd = random.Random(ctx.seed * 1000003 + 8)
    g = Gen(rnd)
    # ---------------- phase 0: histories -------------------------------------------------------------------------
    small = []                                  # exhaustive truncation
    for i in range(26 if quick else 150):
        names = g.names(rnd.randrange(2, 6))
        small.append((names, g.records(rnd.choice([1, 2, 3, 3, 4, 5, 6, 8]), names)))
    # the hand-written shape of README "Surprises" #1
    small.append(([b'gen0', b'gen', b'foo'], [Rec(b'gen0', 1, 2, 100, 0, b'gen0-cmd'), Rec(b'gen', 7, 9, 200, 0, b'gen-cmd')]))
    g.cmds[b'gen0-cmd'] = None; g.cmds[b'gen-cmd'] = None
    thresh = []                                 # > 100 short lines over few outputs: recompaction threshold inside the truncation range
    for i in range(1 if quick else 4):
        names = [b'a', b'b', b'c d'][:rnd.randrange(1, 4)] if i % 2 == 0 else g.names(30)[:31]
        n = rnd.randrange(101, 121)
        thresh.append((names, [Rec(rnd.choice(names), rnd.randrange(10), rnd.randrange(10), rnd.randrange(10), rnd.randrange(16), None) for _ in range(n)]))
    medium = []                                 # up to 120 records, sampled offsets
    for i in range(10 if quick else 80):
        names = g.names(rnd.randrange(3, 25))
        medium.append((names, g.records(rnd.randrange(9, 121), names)))
    # record lines whose length sweeps across 1024 / 2048 / 4096 bytes (plausible sizes of an internal formatting buffer)
    for lo, hi in ((985, 1030), (2010, 2052), (4058, 4100)) if not quick else ((988, 1012),):
        names = [b'sweep/%d/' % n + b'x' * (n - 7 - len(str(n))) for n in range(lo, hi)]
        names = [b'short1', b'short2'] + names
        medium.append((names, [Rec(nm, 1, 2, 3 + i, 0, b'sweep-cmd-%d' % i) for i, nm in enumerate(names)]))
        for i in range(len(names)): g.cmds[b'sweep-cmd-%d' % i] = None
    longs = []                                  # names around and beyond the 256 KiB line buffer
    for extra in ([-1, 0, 1, 40000] if quick else [-2, -1, 0, 1, 2, 63, 40000, 340000]):
        # line = "5\t6\t7\t" + name + "\tabc\n" = name + 11 bytes; extra = line length - B
        nm = b'long/' + rnd.randbytes(B + extra - 11 - 5).translate(LONG_ALPHA)
        longs.append(([b'before', nm, b'after'], [Rec(b'before', 1, 2, 3, 0x11, None), Rec(nm, 5, 6, 7, 0xabc, None), Rec(b'after', 8, 9, 10, 0, b'after-cmd')]))
    g.cmds[b'after-cmd'] = None
    follow = {}
    allh = small + thresh + medium + longs
    for idx, (names, hist) in enumerate(allh):
        follow[idx] = (g.follow_up(hist, [n for n in names if len(n) < 1000]))
    follow[len(small) - 1] = [Rec(b'foo', 0, 25, 300, 0, b'foo-cmd')]; g.cmds[b'foo-cmd'] = None
    g.fix_hashes(runner)
    allh = [(names, g.hashed(h)) for names, h in allh]
    follow = {k: g.hashed(v) for k, v in follow.items()}
    # ---------------- phase 1: render with the real writer --------------------------------------------------------
    cases = [Case('append - %s' % toks(h), 'render', {'before': '-'}, 'render: one session on a new log') for names, h in allh]
    res = evaluate(ctx, runner, cases, totals)
    if runner.crashed: return finish(ctx, totals, samples, 0, 0)
    files = []
    for (names, h), r in zip(allh, res):
        fl, fb, lw = split_result(r or '')
        files.append(fb if fb is not None else HEADER + b''.join(py_render(x) for x in h))
    samples.append({'records': [fmt_rec(r.name, val(r)) for r in allh[0][1][:4]], 'file_written_by_ninja': repr(files[0][:200])})
    # ---------------- phase 2: truncation x continuation ---------------------------------------------------------
    cases = []
    nsmall, nthresh = len(small), len(thresh)
    exh_logs = exh_offsets = 0
    for idx, ((names, h), full) in enumerate(zip(allh, files)):
        s2 = follow[idx]
        ht = toks(h) if len(full) < 100000 else toks([r for r in h if len(r.name) < 1000])
        short = [n for n in names if len(n) < 1000]
        dead = rnd.sample(short, rnd.randrange(0, len(short) + 1))
        stats = dict((n, rnd.choice([0, 5, 12345, 2**62, 1700000000000000000])) for n in rnd.sample(short, rnd.randrange(0, len(short) + 1)))
        subset = rnd.sample(short, rnd.randrange(1, len(short) + 1)) if rnd.random() < 0.7 else []
        if idx < nsmall + nthresh:
            offs = range(len(full) + 1); exh_logs += 1; exh_offsets += len(full) + 1
            kind = 'exhaustive' if idx < nsmall else 'exhaustive, >100 lines'
        elif len(full) < 100000:
            tail = len(full) - len(py_render(h[-1])) - len(py_render(h[-2]))
            offs = sorted(set(list(range(tail, len(full) + 1)) + [rnd.randrange(len(full) + 1) for _ in range(30)] + list(range(0, 17))))
            kind = 'sampled offsets'
        else:
            big = endbig = 0                      # [big, endbig) = the longest line of what the writer produced
            pos = 0
            for l in full.split(b'\n'):
                if len(l) + 1 > endbig - big: big, endbig = pos, pos + len(l) + 1
                pos += len(l) + 1
            endbig = min(endbig, len(full))
            offs = sorted(set([big - 1, big, big + 3, big + B - 1, big + B, big + B + 1, endbig - 5, endbig - 1, endbig, endbig + 3, len(full) - 1, len(full)]))
            offs = [o for o in offs if 0 <= o <= len(full)]
            if quick: offs = offs[::2] + [len(full)]
            kind = 'long line'
        statw = ','.join('%s:%d' % (hexs(n), m) for n, m in stats.items()) or '-'
        for k in offs:
            p = hexs(full[:k])
            if kind == 'long line':
                cases.append(Case('load ' + p, 'torn-load', {}, 'torn (%s): reload' % kind))
                cases.append(Case('append %s %s' % (p, toks(s2)), 'none', {}, 'torn (%s): append + reload' % kind))
                if not quick or k == len(full): cases.append(Case('session %s %s %s' % (p, names_list(dead), toks(s2)), 'none', {}, 'torn (%s): session' % kind))
                continue
            cases.append(Case('load ' + p, 'torn-load', {}, 'torn (%s): reload' % kind))
            cases.append(Case('append %s %s' % (p, toks(s2)), 'torn-append', {'hist': ht}, 'torn (%s): append + reload' % kind))
            cases.append(Case('session %s %s %s' % (p, names_list(dead), toks(s2)), 'torn-session', {'hist': ht}, 'torn (%s): session with dead outputs + reload' % kind))
            cases.append(Case('restat %s %s %s' % (p, statw, names_list(subset)), 'restat', {}, 'torn (%s): restat of a subset + reload' % kind))
            if k % 5 == 0 or k == len(full): cases.append(Case('recompact %s %s' % (p, names_list(dead)), 'recompact', {}, 'torn (%s): explicit recompaction + reload' % kind))
        if idx == nsmall - 1 or idx == 0:
            samples.append({'log': repr(cut(full, 160)), 'cut_at': 'every byte 0..%d' % len(full), 'next_session': [fmt_rec(r.name, val(r)) for r in s2],
                            'dead': [repr(d) for d in dead], 'restat': {repr(n): m for n, m in stats.items()}, 'restat_subset': [repr(n) for n in subset] or 'all'})
    # restat with a failing stat, restat of everything
    for idx in range(0, nsmall, 4):
        names, h = allh[idx]
        cases.append(Case('restat %s %s -' % (hexs(files[idx]), '%s:-1' % hexs(h[0].name)), 'restat', {'stat_fails': True}, 'restat: stat error'))
        cases.append(Case('restat %s %s -' % (hexs(files[idx]), ','.join('%s:%d' % (hexs(n), 77 + j) for j, n in enumerate(names))), 'restat', {}, 'restat: all outputs'))
    # ---------------- phase 3: header variants and garbage --------------------------------------------------------
    body = b''.join(py_render(r) for r in allh[1][1])
    s2 = follow[1]
    for v in [0, 1, 2, 3, 4, 5, 6, 8, 9, 10, 12, 70, 77, 100, 700, 2**31 - 1]:
        for bd in (body, b'', body[:len(body) // 2]):
            f = b'# ninja log v%d\n' % v + bd
            cases.append(Case('load ' + hexs(f), 'version', {'version': v}, 'version: other version'))
            cases.append(Case('session %s - %s' % (hexs(f), toks(s2)), 'version', {'version': v}, 'version: other version, then a session'))
    firsts = [b'\n', b'#ninjalogv7\n', b'#  ninja\t\nlog v +7\n', b'# ninja log v+7\n', b'# ninja log v-7\n', b'# ninja log v07\n', b'# NINJA LOG V7\n', b'# ninja log v7 trailing\n',
              b'# ninja log v4294967303\n', b'# ninja log v99999999999999999999\n', b'\x00# ninja log v7\n', b'# ninja log v\n', b'# ninja log v7\t1\t2\tout\tabc\n',
              b'1\t2\t3\tout\tabc\n', b'garbage\n', b'# ninja log v7\r\n', b'# ninja log v7', b'# ninja log v', b'\xff\xfe\n', b'# ninja log v7\n\n\n', b'# ninja log v 7\n',
              b' # ninja log v7\n', b'# ninja log v7x\n', b'# ninja log v0x7\n', b'#\nninja\nlog\nv7\n', b'# ninja log v7\n# ninja log v8\n', b'# ninja log v8\n# ninja log v7\n']
    for fl in firsts:
        for bd in (body, b''):
            cases.append(Case('load ' + hexs(fl + bd), 'none', {}, 'header: unusual first line'))
            if b'\x00' not in fl: cases.append(Case('session %s %s %s' % (hexs(fl + bd), names_list([allh[1][0][0]]), toks(s2)), 'none', {}, 'header: unusual first line, then a session'))
    bodies = [b'1\t2\t3\tout\n', b'\t\t\t\t\n', b'1\t2\t3\t\tabc\n', b'x\ty\tz\tout\tghi\n', b'-1\t+2\t -3\tout\t-1\n', b'1\t2\t3\tout\t0xAbC\n', b'1\t2\t3\tout\t\t \tabc\n',
              b'99999999999\t-99999999999\t99999999999999999999\tout\tffffffffffffffffff\n', b'1\t2\t3\tout\tabc\r\n', b'1\t2\t3\tout\tabc', b'1\t2\t3\tout\tabc\textra\tmore\n',
              b'1\t2\t3\ta\x00b\tabc\n', b'\n\n1\t2\t3\tout\tabc\n\n', b'1\t2\t3\tout\tabc\n1\t2\t4\tout\tabd\n', b'1 \t 2\t3 4\tout\tabc\n', b'0x10\t010\t1e3\tout\tg\n']
    for bd in bodies:
        cases.append(Case('load ' + hexs(HEADER + bd), 'none', {}, 'garbage: malformed record'))
        if b'\x00' not in bd: cases.append(Case('session %s - %s' % (hexs(HEADER + bd), toks(s2)), 'none', {}, 'garbage: malformed record, then a session'))
    alpha = [b'\t'] * 6 + [b'\n'] * 3 + [bytes([c]) for c in b'0123456789abcdefx-+ #vout'] + [b'\xff', b'\xc3\xa9', b'# ninja log v7\n', b'\r']
    for i in range(1500 if quick else 30000):
        kind = rnd.random()
        if kind < 0.5:
            f = b''.join(rnd.choice(alpha) for _ in range(rnd.randrange(0, 80)))
            if rnd.random() < 0.7: f = HEADER + f
        else:                                     # a real log with bytes flipped / removed / inserted / lines duplicated
            f = bytearray(files[rnd.randrange(nsmall)])
            for _ in range(rnd.randrange(1, 4)):
                p = rnd.randrange(len(f) + 1); o = rnd.random()
                if o < 0.3 and p < len(f): f[p] = rnd.choice(b'\t\n0a -\xff')
                elif o < 0.6 and p < len(f): del f[p:p + rnd.randrange(1, 5)]
                elif o < 0.8: f[p:p] = rnd.choice(alpha)
                else: f[p:p] = f[rnd.randrange(len(f) + 1):][:rnd.randrange(30)]
            f = bytes(f)
        if rnd.random() < 0.1: f = f.replace(b'a', b'\x00', 1)
        o = rnd.random(); fx = hexs(f)
        if b'\x00' in f or o < 0.4: cases.append(Case('load ' + fx, 'none', {}, 'garbage: random bytes / mutated log, reload'))
        elif o < 0.6: cases.append(Case('append %s %s' % (fx, toks(s2)), 'none', {}, 'garbage: random bytes / mutated log, append'))
        elif o < 0.8: cases.append(Case('session %s %s %s' % (fx, names_list(rnd.sample(allh[1][0], 1)), toks(s2)), 'none', {}, 'garbage: random bytes / mutated log, session'))
        elif o < 0.9: cases.append(Case('restat %s %s -' % (fx, '%s:%d' % (hexs(allh[1][0][0]), 4242)), 'none', {}, 'garbage: random bytes / mutated log, restat'))
        else: cases.append(Case('recompact %s -' % fx, 'none', {}, 'garbage: random bytes / mutated log, recompact'))
    evaluate(ctx, runner, cases, totals)
    if runner.crashed: return finish(ctx, totals, samples, exh_logs, exh_offsets)
    # ---------------- phase 4: chains of sessions (lock step) -----------------------------------------------------
    nch = 40 if quick else 400
    chains = []
    for c in range(nch):
        names = g.names(rnd.randrange(2, 14))
        steps = []
        for s in range(rnd.randrange(3, 8)):
            big = rnd.random() < 0.45
            steps.append((rnd.sample(names, rnd.randrange(0, max(1, len(names) // 2))), g.records(rnd.randrange(30, 121) if big else rnd.randrange(0, 12), names)))
        chains.append(dict(names=names, steps=steps, file=b'', table={}, total=0, alive=True))
    g.fix_hashes(runner)
    for step in range(8):
        cases = []; owners = []
        for ch in chains:
            if not ch['alive'] or step >= len(ch['steps']): continue
            dead, recs = ch['steps'][step]; recs = g.hashed(recs)
            # python bookkeeping of what a session must leave behind (independent of the model)
            rc = wants_recompaction(ch['total'], len(ch['table']))
            if rc:
                ch['table'] = {n: v for n, v in ch['table'].items() if n not in dead}; ch['total'] = len(ch['table'])
            if not ch['file']: pass
            for r in recs: ch['table'][r.name] = val(r)
            ch['total'] += len(recs)
            octx = {'table': [[hexs(n), list(v)] for n, v in sorted(ch['table'].items())], 'flag': wants_recompaction(ch['total'], len(ch['table'])),
                    'total': ch['total'], 'step': step + 1, 'recompacts': rc}
            cases.append(Case('session %s %s %s' % (hexs(ch['file']), names_list(dead), toks(recs)), 'expect-table', octx,
                              'chain: session %s' % ('with recompaction' if rc else 'appending')))
            owners.append(ch)
        if not cases: break
        res = evaluate(ctx, runner, cases, totals)
        if runner.crashed: break
        for ch, r, c in zip(owners, res, cases):
            fl, fb, lw = split_result(r or '')
            if fb is None: ch['alive'] = False
            else: ch['file'] = fb
            if ch is chains[0] and step < 3: samples.append({'chain_session': step + 1, 'dead': c.line.split(' ')[2], 'records': len(c.line.split(' ')[3].split(',')),
                                                            'recompaction': c.octx['recompacts'], 'lines_in_log_after': c.octx['total'], 'outputs': len(c.octx['table'])})
    finish(ctx, totals, samples, exh_logs, exh_offsets)

def report_findings(ctx, totals):
    if not totals['findings']: return
    listed = [k for k in ctx.known_list if k.get('property') == 'C08' and k.get('id') == KNOWN_ID]
    fs = sorted(totals['findings'], key=lambda f: (f[0], f[1]))
    rank, _, text, c = fs[0]
    if listed:
        ctx.known_finding('id=%s %d instances; e.g. %s' % (KNOWN_ID, len(fs), text))
    else:
        seen = set()
        for rank, _, text, c in fs:
            if rank in seen: continue
            seen.add(rank)
            ctx.violation('safe-direction', replay_text(c), text)

def finish(ctx, totals, samples, exh_logs, exh_offsets):
    report_findings(ctx, totals)
    dist = dict(totals['dist']); dist.update({'outcome ' + k: v for k, v in totals['stats'].items()})
    dist['exhaustively truncated logs'] = exh_logs; dist['truncation offsets (exhaustive part)'] = exh_offsets
    ctx.cov.update(evaluations=totals['evaluations'], distinct_nontrivial=len(totals['nontrivial']), exhaustive=bool(exh_logs),
                   rule='record sequences (1-120 records; names with spaces, UTF-8 / high bytes, names of B-74..B+340000 bytes around the 256 KiB line buffer; multi-output edges through '
                        'RecordCommand; repeated outputs; numbers 0, 2^31-1, -2^31, -1, +-2^63, 2^64-1) are rendered by the real writer; EXHAUSTIVE part: every truncation offset 0..len of '
                        '%d logs (1-8 records, plus logs of 101-120 short lines so that the 100-lines/3x threshold lies inside the range) x {reload; append a further session + reload; whole '
                        'session (Load, recompaction if asked, dead outputs, append) + reload; restat of a random subset + reload; every 5th offset: explicit recompaction}; sampled offsets for '
                        'logs up to 120 records and the long-line logs; 16 other versions x 3 bodies; 27 unusual first lines; 16 malformed records; seeded random bytes and mutated logs; chains of '
                        '3-7 sessions (0-120 records each, dead lists) run in lock step from the empty log, expectation by python bookkeeping. Every case is compared model vs implementation; the '
                        'python oracle decides. non-trivial = result has a non-empty table or is a discard; distinct = distinct (operation, result line)' % exh_logs,
                   samples=samples[:8] or ['(none)'], distribution=dist, correspondence_cases=totals['evaluations'] if ctx.model else 0,
                   oracle_failures=totals['bad'], merged_line_instances=len(totals['findings']))

# ---------------------------------------------------------------------------------------------------------------
# C13: malformed .ninja_log streams for the aggregator of tools/props/c13.py (crash/sanitizer only, no oracle)
def fuzz_lines(rnd, n):
    L = []
    def both(f):
        h = hexs(f) if f else '-'
        L.append('load ' + h); L.append('recompact %s -' % h)
    heads = [b'# ninja log v7\n', b'# ninja log v6\n', b'# ninja log v5\n', b'# ninja log v4\n', b'# ninja log v99999999999999999999\n', b'# ninja log v-1\n', b'# ninja log v\n', b'# ninja log v7', b'', b'\n', b'#\n']
    toks = [b'\t', b'\t\t', b'\n', b'\r\n', b'0', b'1', b'-1', b'18446744073709551616', b'99999999999999999999999', b'out', b'a b', b'deadbeef', b'ffffffffffffffffff', b'xyz', b'\0', b' ', b'#', b'+5', b'0x10']
    # structured edge cases: each number of fields, empty fields, missing final newline, very long lines around the reader's buffer
    for h in heads:
        for nf in range(0, 8):
            for last_nl in (b'\n', b''):
                both(h + b'\t'.join([b'1', b'2', b'3', b'out', b'abc', b'x', b'y'][:nf]) + last_nl)
                both(h + b'\t' * nf + last_nl)
    for size in (255, 256, 257, 1 << 18, (1 << 18) - 1, (1 << 18) + 1, (1 << 18) - 12, 3 << 17):
        both(heads[0] + b'1\t2\t3\t' + b'n' * size + b'\tabc\n' + b'4\t5\t6\tnext\tdef\n')
        both(heads[0] + b'x' * size)
    while len(L) < n:
        h = rnd.choice(heads) if rnd.random() < 0.85 else bytes(rnd.randrange(256) for _ in range(rnd.randrange(0, 20)))
        body = b''.join(rnd.choice(toks) if rnd.random() < 0.9 else bytes(rnd.randrange(256) for _ in range(rnd.randrange(1, 4))) for _ in range(rnd.randrange(0, 40)))
        both(h + body)
    return L
