"""C04: a command starts only after everything it needs is up to date and in place."""
import enginecheck as ec, histmodel
from props import engcommon
LEVEL = 'proof'; TRUSTED = engcommon.TRUSTED_ENGINE; ASSUMPTIONS = engcommon.ASSUMPTIONS_ENGINE
def real_binary(ctx):
    import os, vlib, realbin
    ninja = os.path.join(vlib.build_impl('plain'), 'ninja')
    for name, w in realbin.start_preconditions(ninja):
        ctx.violation(name, 'real binary: tools/realbin.py start_preconditions\n', w)

def motifs(ctx):
    import random
    rnd = random.Random(ctx.seed * 4 + 1)
    return [ec.motif_dyndep_rescan_deps_missing(rnd, 'C04_rs%d' % i) for i in range(60 if ctx.quick() else 600)]

def run(ctx):
    real_binary(ctx)
    engcommon.run_engine_property(ctx, 'C04', plan_accept=600, oracles=[('start-order', lambda h, st, b, prev: ec.oracle_c04(h, st, b))], faults=0.15,
                                  feat=dict(subdirs=0.5, rsp=0.4, orderonly=0.5, dyndep=0.3), extra_hists=motifs)
    # the parallel semantics (coq/Engine/HistParDefs.v, theorems of Properties_C01par.v) run against the engine's real -j N runs:
    # ninja's start / finish events are the schedule; the model must accept it (every input ready at every start) and reach the same state
    histmodel.hook(ctx, 'C04', par=True, quick=300, thorough=3000, key='hist_model_parallel_schedules')
