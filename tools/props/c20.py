"""C20: progress and command output are reported once, whole and consistent.
 (i)   correspondence: the real StatusPrinter/LinePrinter (harness/run_status.cc: pipe = dumb terminal, raw pty =
       smart terminal) vs the extracted model coq/Status/StatusDefs.v on Status call sequences: valid ones from a
       scheduler, the `st` lines of real engine traces, arbitrary ones; ElideMiddleInPlace / StripAnsiEscapeCodes in bulk;
 (ii)  oracle on the real StatusPrinter's bytes (model-free): an independent parser splits the dumb-terminal stdout
       of every valid sequence into blocks and checks exactly-once / contiguous / FAILED header / counters;
 (iii) the real ninja binary in scratch directories: commands printing marked pieces over time, mixes of failing /
       restat-pruned / console-pool statements, -j 1..4, piped output, default / NINJA_STATUS / --status / --quiet;
       the same kind of parser on ninja's stdout.
 The counters part of C20 is proved on the plan model (Properties_C20.v); the output part in Properties_C20out.v."""
import os, re, random, subprocess, tempfile, shutil, concurrent.futures, time
import vlib
from vlib import hexs, unhex
import statusmodel as sm

LEVEL = 'proof'
TRUSTED = ['Coq 8.16.1 kernel (coqc); vm_compute only in Examples and refutation witnesses',
           'extraction: ExtrOcamlBasic only; OCaml driver extract/status_run.ml',
           'harness/run_status.cc: the REAL StatusPrinter/LinePrinter/Edge/State, one forked child per call sequence, fd 1 = pipe or raw pty '
           '(openpty, TIOCSWINSZ); "#define private public" only to reach printer_ (SetConsoleLocked on its own, is_smart_terminal)',
           'time-dependent placeholders (%o %c %e %w %E %W %P and the matching --status variables) are a parameter of the model: the harness '
           'reports what the real FormatProgressStatus printed for them and the model is given those strings',
           'python block parsers in tools/props/c20.py (independent of the model)',
           'not modelled: Lexer::ReadVarValue parsing of --status (the token list is the model input), stdio buffering / line discipline, '
           'the subprocess pipes (exercised through the real binary only), Windows console code']
ASSUMPTIONS = ['POSIX; one StatusPrinter per process; counters stay below 2^31',
               'real-binary part: commands write only through the pipe ninja gives them (console-pool commands: directly to ninja\'s stdout)',
               'unterminated output (no final newline) is followed by the next status line on the same line in dumb-terminal mode and the owed '
               'newline comes out in front of the next text printed through PrintOnNewLine: modelled faithfully, proved as C20_tidy_refuted, '
               'reported as candidate finding id=unterminated-output-glues-status; the real-binary oracle accepts exactly that pattern and counts it']

FINDING_GLUE = 'unterminated-output-glues-status'

# ------------------------------------------------------------------------------ (ii) parser of the harness output
def py_strip(s):
    """independent StripAnsiEscapeCodes for the sequences used by the oracle inputs (CSI ... letter; lone ESC dropped)"""
    out = bytearray(); i = 0; n = len(s)
    while i < n:
        c = s[i]
        if c != 0x1b: out.append(c); i += 1; continue
        if i + 1 >= n: break
        if s[i + 1] != 0x5b: i += 1; continue
        i += 2
        while i < n and not (65 <= s[i] <= 90 or 97 <= s[i] <= 122): i += 1
        i += 1
    return bytes(out)

def oracle_script(s, out, strict=False):
    """dumb terminal, default format, verbosity NORMAL, valid sequence, unique NUL-free descriptions:
    split the real StatusPrinter's stdout into blocks; returns list of complaints.  strict: a status line that
    continues an unterminated output (finding unterminated-output-glues-status) is a complaint too"""
    bad = []
    oracle_script.glued = 0
    pos = 0
    total = started = finished = 0
    locked = False; pend = []          # blocks finished under the console lock: (k, code, shown, f, t)
    owed = False                        # the previous PrintOnNewLine text did not end in a newline
    def expect(b, what):
        nonlocal pos
        if out[pos:pos + len(b)] != b:
            bad.append('%s expected %r at byte %d, found %r' % (what, b[:60], pos, out[pos:pos + 60])); return False
        pos += len(b); return True
    def block(k, code, raw, shown, f, t, first_owed):
        """one finished command, printed directly; raw = the command produced output (before ANSI stripping)"""
        nonlocal owed
        e = s.edges[k]
        if first_owed:
            oracle_script.glued += 1
            if strict: bad.append('the status line of edge %d continues the unterminated output before it at byte %d: %r' % (k, pos, out[max(0, pos - 20):pos + 20])); return False
        if not expect(b'[%d/%d] ' % (f, t) + (e.desc or e.cmd) + b'\n', 'status line of edge %d' % k): return False
        return body(k, code, raw, shown, first_owed)
    def body(k, code, raw, shown, ow):
        nonlocal owed
        e = s.edges[k]
        if code != 0:
            hdr = b'FAILED: [code=%d] ' % code + b''.join(o + b' ' for o in e.outs) + b'\n'
            if ow and not expect(b'\n', 'owed newline'): return False
            if not expect(hdr, 'FAILED header of edge %d' % k): return False
            if not expect(e.cmd + b'\n', 'command line of edge %d' % k): return False
            ow = False
        if raw:
            if ow and not expect(b'\n', 'owed newline'): return False
            if shown and not expect(shown, 'output of edge %d' % k): return False
            ow = bool(shown) and not shown.endswith(b'\n')
        owed = ow
        return True
    def flush_locked():
        """SetConsoleLocked(false): everything held back comes out now, in order; of the silent commands only a trailing one keeps its line"""
        nonlocal locked, pend, owed
        locked = False
        printing = [b for b in pend if b[1] != 0 or b[2]]
        keep = [b for i, b in enumerate(pend) if b[1] != 0 or b[2] or i == len(pend) - 1]
        # blank-line state of the BUFFER after its last text: the C++ prints "\n" in front of the buffer when that is unterminated
        buf_owed = False
        if printing:
            lb = printing[-1]
            buf_owed = bool(lb[2]) and bool(lb[3]) and not lb[3].endswith(b'\n')
        if buf_owed: expect(b'\n', 'newline in front of the flushed buffer')
        ow = False
        for (k2, code2, raw2, shown2, f2, t2) in keep:
            if not block(k2, code2, raw2, shown2, f2, t2, ow): break
            ow = owed
        owed = buf_owed
        pend = []
    for c in s.calls:
        if bad: break
        if c[0] == 'added': total += 1
        elif c[0] == 'removed': total -= 1
        elif c[0] == 'buildstarted': started = finished = 0
        elif c[0] == 'started':
            started += 1
            e = s.edges[c[1]]
            if e.console:
                if not locked:
                    expect(b'[%d/%d] ' % (finished, total) + (e.desc or e.cmd) + b'\n', 'status line of console edge')
                    if owed: expect(b'\n', 'owed newline at lock'); owed = False
                    locked = True
        elif c[0] == 'finished':
            finished += 1
            k, code, o = c[1], c[2], c[3]
            e = s.edges[k]
            shown = py_strip(o) if (b'\x1b' in o) else o
            if e.console and locked:
                flush_locked()
                # the console edge's own FAILED block / output (no status line)
                if not bad: body(k, code, bool(o), shown, owed)
            elif locked:
                pend.append((k, code, bool(o), shown, finished, total))
            else:
                block(k, code, bool(o), shown, finished, total, owed)
        elif c[0] == 'buildfinished':
            # Build() can return while a console command still runs (a later command could not be started): BuildFinished unlocks the
            # console, so the output held back under the lock is shown now -- none of it may be lost
            if locked: flush_locked()
            if owed: expect(b'\n', 'final newline'); owed = False
            total = 0          # the next build of the invocation (e.g. after a manifest regeneration) counts its plan from zero
        elif c[0] == 'info':
            expect(b'ninja: ' + c[1] + b'\n', 'Info line')
    if not bad and pos != len(out): bad.append('unexpected trailing bytes %r' % out[pos:pos + 80])
    return bad

def oracle_eligible(s):
    if s.tty or s.verb != 2 or s.color or s.fmt is not None or s.ev is not None or not sm.valid(s): return False
    if any(b'\x00' in (e.desc or e.cmd) or b'\x00' in e.cmd for e in s.edges): return False
    if any(c[0] == 'info' and b'\x00' in c[1] for c in s.calls): return False
    # keep to the protocol of Builder::Build(): every build ends with nothing running and no nested builds under lock
    running = set()
    for i, c in enumerate(s.calls):
        if c[0] == 'started': running.add(c[1])
        elif c[0] == 'finished': running.discard(c[1])
        elif c[0] == 'buildstarted' and running: return False
        elif c[0] == 'buildfinished' and running:
            # an aborted build (commands still running, their results are never reported): accepted as the END of a script only
            return all(x[0] in ('info', 'error', 'warning') for x in s.calls[i + 1:])
    return True

# ------------------------------------------------------------------------------ (iii) the real binary
class Cmd:
    def __init__(s, k, pieces=(), code=0, console=False, deps=(), restat=False, oo=(), pre='', post='', mid=''):
        s.k, s.pieces, s.code, s.console, s.deps, s.restat, s.oo, s.pre, s.post, s.mid = k, list(pieces), code, console, list(deps), restat, list(oo), pre, post, mid
        s.burst = 0          # N > 0: after the pieces the command writes N bytes in one fast burst and exits at once (most of it is still in the pipe then)
    def out(s): return 'o%d' % s.k
    def expected(s):
        '''what ninja collects from the command's pipe (stdout and stderr together)'''
        return b''.join(p for p, _ in s.pieces) + (b'x' * s.burst + b'\n' if s.burst else b'')
    def expected_direct(s):
        '''console-pool command: it writes to ninja's own stdout (its stderr goes to ninja's stderr)'''
        return b''.join(p for p, fd in s.pieces if fd == 1)
    def shell(s):
        parts = []
        if s.pre: parts.append(s.pre)
        parts.append('touch ran.%d' % s.k)
        for i, (p, fd) in enumerate(s.pieces):
            q = ''.join('\\%03o' % b for b in p)
            parts.append("printf '%s'%s" % (q, ' >&2' if fd == 2 else ''))
            if i == 0 and s.mid: parts.append(s.mid)
            if i % 2 == 0 and len(s.pieces) > 1: parts.append('sleep 0.01')
        if s.post: parts.append(s.post)
        if s.burst:
            # deterministic "exits with most of its output still in the pipe": ninja (the parent) is stopped while the burst is
            # written and the command exits; a detached helper continues it 0.2 s later
            if not s.code and not s.restat: parts.append('touch ' + s.out())
            parts.append("(sleep 0.2; kill -CONT $PPID) >/dev/null 2>&1 & kill -STOP $PPID; head -c %d /dev/zero | tr '\\000' x; echo" % s.burst)
        if s.code: parts.append('exit %d' % s.code)
        elif not s.restat: parts.append('touch ' + s.out())
        return '; '.join(parts)

def manifest(cmds):
    L = ['rule r', '  command = $cmd', '  description = STEP$k.', 'rule rr', '  command = $cmd', '  description = STEP$k.', '  restat = 1']
    for c in cmds:
        L.append('build %s: %s %s%s' % (c.out(), 'rr' if c.restat else 'r', ' '.join(c.deps), (' || ' + ' '.join(c.oo)) if c.oo else ''))
        L.append('  cmd = ' + c.shell().replace('$', '$$'))
        L.append('  k = %d' % c.k)
        if c.console: L.append('  pool = console')
    return '\n'.join(L) + '\n'

STYLES = {
    'default': (None, None, rb'\[(?P<f>\d+)/(?P<t>\d+)\] STEP(?P<k>\d+)\.\n'),
    'env': ('<%s|%f|%t|%r|%u> ', None, rb'<(?P<s>\d+)\|(?P<f>\d+)\|(?P<t>\d+)\|(?P<r>\d+)\|(?P<u>\d+)> STEP(?P<k>\d+)\.\n'),
    'option': (None, '{$finished of $total run=$running left=$remaining}$description', rb'\{(?P<f>\d+) of (?P<t>\d+) run=(?P<r>\d+) left=(?P<u>\d+)\}STEP(?P<k>\d+)\.\n'),
    'quiet': (None, None, None),
}

def parse_real(out, cmds, style, rc, ran, accept_glue):
    """independent parser of ninja's stdout (dumb terminal).  Returns (complaints, facts)"""
    bad = []; facts = dict(glued=0, blocks=0, failed=0, console=0)
    by_k = {c.k: c for c in cmds}
    rx = STYLES[style][2]
    pos = 0; seen = []; lines = []
    owed = False; last_glue = False
    n = len(out)
    def shown(c):
        e = c.expected()
        return py_strip(e) if b'\x1b' in e else e
    def take(b, what):
        nonlocal pos
        if out[pos:pos + len(b)] != b:
            bad.append('%s: expected %r at byte %d, found %r' % (what, b[:80], pos, out[pos:pos + 80])); return False
        pos += len(b); return True
    def owed_nl(what):
        nonlocal owed
        if owed:
            if not take(b'\n', 'newline owed by the previous unterminated output before ' + what): return False
            owed = False
        return True
    while pos < n and not bad:
        if owed and out[pos:] == b'\n':          # BuildFinished: PrintOnNewLine("") terminates the last line
            pos += 1; owed = False; break
        if rx is None and owed and out[pos:pos + 1] == b'\n':
            pos += 1; owed = False
        m = re.compile(rb'ninja: build stopped: [^\n]*\.\n').match(out, pos)
        if m and m.end() == n and rc != 0:        # ninja.cc: status_->Info("build stopped: %s.") after BuildFinished
            if owed: bad.append('the final Info line is glued onto unterminated output')
            pos = n; break
        if rx is not None:
            m = re.compile(rx).match(out, pos)
            if not m:
                bad.append('no status line at byte %d: %r' % (pos, out[pos:pos + 80])); break
            if owed:
                # the status line sits on the same line as the previous command's unterminated output
                facts['glued'] += 1
                if not accept_glue: bad.append('status line glued onto unterminated output at byte %d: %r' % (pos, out[max(0, pos - 30):pos + 30])); break
            k = int(m.group('k')); pos = m.end()
            d = {g: int(v) for g, v in m.groupdict().items()}
            lines.append(d)
            c = by_k.get(k)
            if c is None: bad.append('status line of an unknown command %d' % k); break
            if k in seen: bad.append('command %d reported twice' % k); break
            seen.append(k)
        else:
            # --quiet: no status lines; a block starts with a FAILED header or with the output itself
            m = re.compile(rb'FAILED: \[code=(\d+)\] o(\d+) \n').match(out, pos)
            if m: k = int(m.group(2))
            else:
                k = None
                for c2 in cmds:
                    sh = c2.expected_direct() if c2.console else shown(c2)
                    if c2.k not in seen and sh and out.startswith(sh, pos): k = c2.k; break
                if k is None: bad.append('bytes that are no command\'s output at %d: %r' % (pos, out[pos:pos + 80])); break
            c = by_k[k]; seen.append(k)
        facts['blocks'] += 1
        if c.console:
            facts['console'] += 1
            # console command: ninja flushes, unlocks the terminal; the command writes directly
            if owed:
                if not take(b'\n', 'newline owed before the console command'): break
                owed = False
            if not take(c.expected_direct(), 'direct output of console command %d' % k): break
            # (an unterminated console output is not known to ninja: nothing is owed; failing console commands are not generated)
            continue
        if c.code:
            if not owed_nl('the FAILED header'): break
            if not take(b'FAILED: [code=%d] %s \n' % (c.code, c.out().encode()), 'FAILED header of command %d (must precede its output)' % k): break
            if not take(c.shell().encode() + b'\n', 'command line of %d' % k): break
            facts['failed'] += 1
        sh = shown(c)
        if sh:
            if not owed_nl('the output of %d' % k): break
            if not take(sh, 'whole output of command %d directly after its status line' % k): break
            owed = not sh.endswith(b'\n')
    if not bad:
        # every command that ran is reported exactly once and vice versa
        # no line at all is expected of a silent successful command under --quiet; and the progress line of a silent successful
        # command that finished while a console-pool command held the terminal may be overwritten by a later one (line_buffer_)
        has_console = any(c.console for c in cmds)
        for c in cmds:
            silent = not c.expected() and not c.code
            if c.k in ran and c.k not in seen and not (silent and (rx is None or has_console)):
                bad.append('command %d ran but was never reported' % c.k)
            if c.k in ran and c.k not in seen and silent and rx is not None: facts['coalesced'] = facts.get('coalesced', 0) + 1
            if c.k in seen and c.k not in ran: bad.append('command %d reported but never ran' % c.k)
        # counters
        prev_f = 0
        for d in lines:
            c = by_k[d['k']]
            f, t = d['f'], d['t']
            if f > t: bad.append('finished %d exceeds total %d' % (f, t))
            if f < prev_f: bad.append('finished count went back: %d after %d' % (f, prev_f))
            prev_f = f
            if 's' in d:
                if not (f <= d['s'] <= t): bad.append('finished <= started <= total violated: %r' % d)
                if d['u'] != t - d['s']: bad.append('%%u != total - started: %r' % d)
            if 'r' in d and 's' in d:
                # a finish line is printed before running_edges_ is decremented; a console start line after the increment
                want = d['s'] - f + (0 if c.console else 1)
                if d['r'] != want: bad.append('running %d, expected %d: %r' % (d['r'], want, d))
        if lines and rc == 0:
            last = lines[-1]
            if not by_k[last['k']].console and last['f'] != last['t']:
                bad.append('successful build ended with [%d/%d]' % (last['f'], last['t']))
            if not by_k[last['k']].console and last['t'] != len(ran):
                bad.append('final total %d but %d commands ran' % (last['t'], len(ran)))
    return bad, facts

def piece_sets(rnd, k, kind):
    tag = lambda i: b'<%d.%d>' % (k, i)
    if kind == 'silent': return []
    if kind == 'plain': return [(tag(1) + b'\n', 1)]
    if kind == 'multi': return [(tag(1), 1), (tag(2) + b'\n', 2), (tag(3) + b' more\n', 1), (b'tail' + tag(4) + b'\n', 2)]
    if kind == 'nul': return [(b'a\x00b' + tag(1) + b'\x00\n', 1), (b'\x00', 2), (tag(2) + b'\n', 1)]
    if kind == 'ansi': return [(b'\x1b[1;31m' + tag(1) + b'\x1b[0m\n', 2), (b'plain' + tag(2) + b'\x1b[K\n', 1)]
    if kind == 'nonl': return [(tag(1) + b'\n', 1), (b'no newline' + tag(2), 1)]
    if kind == 'big': return [(b''.join(b'%d:%d %s\n' % (k, i, b'x' * 60) for i in range(120)), 1), (tag(1) + b'\n', 2)]
    raise ValueError(kind)

def real_scenarios(rnd, quick):
    """(name, cmds, args, style, prepare(dir) or None)"""
    sc = []
    kinds = ['silent', 'plain', 'multi', 'nul', 'ansi', 'big']
    # mixes, -j 1..4, all styles; a final command depending on everything closes the build
    for i in range(8 if quick else 40):
        n = rnd.randrange(3, 8)
        cmds = []
        for k in range(n):
            deps = [cmds[d].out() for d in range(k) if rnd.random() < 0.3]
            cmds.append(Cmd(k, piece_sets(rnd, k, rnd.choice(kinds)), deps=deps, console=(rnd.random() < 0.15)))
        fail = rnd.random() < 0.5
        if fail:
            f = rnd.randrange(n); cmds[f].code = rnd.choice([1, 2, 7, 127]); cmds[f].console = False
            if not cmds[f].pieces and rnd.random() < 0.7: cmds[f].pieces = piece_sets(rnd, f, 'multi')
        cmds.append(Cmd(n, piece_sets(rnd, n, rnd.choice(['silent', 'plain'])), deps=[c.out() for c in cmds]))
        style = rnd.choice(['default', 'default', 'env', 'option', 'quiet'])
        sc.append(('mix%d' % i, cmds, ['-j%d' % rnd.randrange(1, 5), '-k', str(rnd.choice([0, 1, 2]))], style, None))
    # a burst far larger than one read (and than the pipe buffer) written right before the command exits: shown whole
    for i in range(2 if quick else 8):
        cmds = [Cmd(0, piece_sets(rnd, 0, 'plain')), Cmd(1, piece_sets(rnd, 1, rnd.choice(['plain', 'multi'])), deps=['o0'], code=(3 if i % 2 else 0)),
                Cmd(2, piece_sets(rnd, 2, 'plain'), deps=['o0']), Cmd(3, piece_sets(rnd, 3, 'plain'), deps=['o2'])]
        cmds[1].burst = rnd.choice([9000, 30000, 60000]); cmds[2].burst = rnd.choice([5000, 12000, 50000])
        sc.append(('burst%d' % i, cmds, ['-j%d' % rnd.choice([1, 3]), '-k', '0'], rnd.choice(['default', 'env']), None))
    # unterminated outputs (the glue pattern)
    for i in range(2 if quick else 6):
        cmds = [Cmd(0, piece_sets(rnd, 0, 'nonl')), Cmd(1, piece_sets(rnd, 1, 'plain'), deps=['o0']),
                Cmd(2, piece_sets(rnd, 2, 'nonl'), deps=['o1'], code=(3 if i % 2 else 0)), Cmd(3, [], deps=['o1']), Cmd(4, piece_sets(rnd, 4, 'multi'), deps=['o3'])]
        sc.append(('nonl%d' % i, cmds, ['-j1', '-k', '0'], rnd.choice(['default', 'env']), None))
    # console lock: two commands finish while the console command holds the terminal; nothing may be lost
    for i in range(2 if quick else 8):
        wait = lambda f: 'i=0; while [ ! -f %s ] && [ $i -lt 400 ]; do sleep 0.01; i=$((i+1)); done' % f
        kinds2 = [rnd.choice(['plain', 'multi', 'nul', 'ansi', 'silent']) for _ in range(3)]
        failing = (i % 3 == 1)
        cmds = [Cmd(0, []),                                                                  # gate
                # the console command prints BEGIN, waits until 3 (and 2) have been reaped (5 has started), then END
                Cmd(1, [(b'CONSOLE-BEGIN\n', 1), (b'CONSOLE-END\n', 1)], console=True, deps=['o0'], pre='touch cstarted',
                    mid=wait('after4') + '; sleep 0.05'),
                Cmd(2, piece_sets(rnd, 2, kinds2[0]), deps=['o0'], pre=wait('cstarted'), code=(5 if failing else 0)),
                Cmd(3, piece_sets(rnd, 3, kinds2[1]), deps=['o0'], pre=wait('cstarted')),
                Cmd(4, piece_sets(rnd, 4, 'silent'), deps=['o3'] + ([] if failing else ['o2'])),   # starts only after 3 (and 2) were reported finished
                Cmd(5, piece_sets(rnd, 5, kinds2[2]), deps=['o4'], pre='touch after4')]
        cmds.append(Cmd(6, piece_sets(rnd, 6, 'plain'), deps=[x.out() for x in cmds if x.code == 0]))
        sc.append(('console%d' % i, cmds, ['-j4', '-k', '0'], rnd.choice(['default', 'env', 'option']), None))
    # restat prune: second build re-runs a restat command that leaves its output alone; its dependents leave the total
    for i in range(2 if quick else 6):
        cmds = [Cmd(0, piece_sets(rnd, 0, 'plain'), deps=['src0'], restat=True, post='[ -f o0 ] || touch o0'),
                Cmd(1, piece_sets(rnd, 1, 'plain'), deps=['o0']), Cmd(2, piece_sets(rnd, 2, 'multi'), deps=['o1']),
                Cmd(3, piece_sets(rnd, 3, 'plain'), deps=['src1'], oo=['o0'])]
        sc.append(('restat%d' % i, cmds, ['-j%d' % rnd.randrange(1, 4)], rnd.choice(['default', 'env', 'option']), 'restat'))
    return sc

def run_real(ninja, sc, accept_glue):
    name, cmds, args, style, prep = sc
    d = tempfile.mkdtemp(prefix='verif-c20-', dir='/dev/shm')
    res = []
    try:
        open(d + '/build.ninja', 'w').write(manifest(cmds))
        env = dict(os.environ); env.pop('NINJA_STATUS', None); env['TERM'] = 'dumb'
        for v in ('NO_COLOR', 'CLICOLOR_FORCE', 'FORCE_COLOR'): env.pop(v, None)
        a = list(args)
        fmt, opt, _ = STYLES[style]
        if fmt: env['NINJA_STATUS'] = fmt
        if opt: a += ['--status', opt]
        if style == 'quiet': a += ['--quiet']
        def build():
            for f in os.listdir(d):
                if f.startswith('ran.') or f in ('cstarted', 'after3', 'after4'): os.unlink(os.path.join(d, f))
            p = subprocess.run([ninja] + a, cwd=d, env=env, stdout=subprocess.PIPE, stderr=subprocess.PIPE, timeout=60)
            ran = {int(f[4:]) for f in os.listdir(d) if f.startswith('ran.')}
            return p, ran
        if prep == 'restat':
            for s_ in ('src0', 'src1'): open(d + '/' + s_, 'w').write('x')
            t0 = time.time() - 100
            os.utime(d + '/src0', (t0, t0)); os.utime(d + '/src1', (t0, t0))
            p, ran = build()
            bad, facts = parse_real(p.stdout, cmds, style, p.returncode, ran, accept_glue)
            res.append((name + '/first', bad, facts, p, ran))
            # edit both sources with strictly newer, explicit timestamps
            newest = max(os.stat(os.path.join(d, f)).st_mtime for f in os.listdir(d))
            for s_ in ('src0', 'src1'): os.utime(d + '/' + s_, (newest + 2, newest + 2))
            p, ran = build()
            bad, facts = parse_real(p.stdout, cmds, style, p.returncode, ran, accept_glue)
            if not bad:
                if ran != {0, 3}: bad.append('restat scenario: commands %s ran, expected the restat command and the independent one' % sorted(ran))
            facts['pruned'] = 1
            res.append((name + '/second', bad, facts, p, ran))
        else:
            p, ran = build()
            bad, facts = parse_real(p.stdout, cmds, style, p.returncode, ran, accept_glue)
            if not bad and name.startswith('console') and style != 'quiet':
                o = p.stdout
                b, e = o.find(b'CONSOLE-BEGIN\n'), o.find(b'CONSOLE-END\n')
                if b < 0 or e < b: bad.append('console command markers missing')
                elif o[b + 14:e] != b'': bad.append('bytes reached the terminal while the console command owned it: %r' % o[b + 14:e][:200])
                else:
                    for k in ((3,) if cmds[2].code else (2, 3)):
                        at = o.find(b'STEP%d.\n' % k)
                        if at < 0 and not cmds[k].expected() and not cmds[k].code: continue      # silent: its line may have been overwritten
                        if at < e: bad.append('command %d finished under the console lock but its status line is at byte %d, before the unlock (%d)' % (k, at, e))
            res.append((name, bad, facts, p, ran))
    finally:
        shutil.rmtree(d, ignore_errors=True)
    return [(n, bad, facts, manifest(cmds), a, style, p.stdout, p.stderr, p.returncode) for n, bad, facts, p, ran in res]

# ------------------------------------------------------------------------------ proofs of the output part
def real_regen_counters(ctx, ninja):
    """two builds in ONE invocation share the StatusPrinter: the manifest is regenerated first ([1/1]), then the real build runs; its
    status lines must count from zero and end with finished = total"""
    import tempfile, shutil, subprocess, time, re
    d = tempfile.mkdtemp(prefix='verif-c20-', dir='/dev/shm'); n = 0
    try:
        for k in (1, 2, 5):
            for f in os.listdir(d): os.unlink(os.path.join(d, f))
            open(d + '/build.ninja', 'w').write('rule regen\n  command = touch build.ninja\n  generator = 1\nbuild build.ninja: regen gen.in\nrule t\n  command = touch $out\n' +
                                                ''.join('build o%d: t%s\n' % (i, ' o%d' % (i - 1) if i else '') for i in range(k)))
            time.sleep(0.06); open(d + '/gen.in', 'w').write('x')
            p = subprocess.run([ninja, '-C', d], stdout=subprocess.PIPE, stderr=subprocess.STDOUT, timeout=60); n += 1
            cnt = re.findall(r'^\[(\d+)/(\d+)\]', p.stdout.decode(errors='replace'), flags=re.M)
            if p.returncode != 0 or len(cnt) != k + 1: continue
            if any(int(a) > int(b) for a, b in cnt) or cnt[-1] != (str(k), str(k)) or cnt[0] != ('1', '1'):
                ctx.violation('counters-regeneration', 'real binary: manifest with a generator statement whose input is newer, then %d commands\n%s' % (k, open(d + '/build.ninja').read()),
                              'after the manifest was regenerated in the same invocation the successful build reports %s (finished must reach the total: [%d/%d])' % (['[%s/%s]' % c for c in cnt], k, k))
    finally: shutil.rmtree(d, ignore_errors=True)
    return n

def check_out_proofs(ctx):
    """Properties_C20out.v and what it rests on (tools/check only knows Properties_C20.v)"""
    import importlib.util
    files = ['Status/StatusDefs.v', 'Status/StatusProofs.v', 'Properties/Properties_C20out.v']
    here = os.path.dirname(os.path.dirname(os.path.abspath(__file__)))
    forbidden = re.compile(r'\b(Admitted|admit|Axiom|Axioms|Parameter|Parameters|Conjecture|Abort)\b|Unset\s+Guard|bypass_check|native_compute|type-in-type|Unset\s+Positivity|Unset\s+Universe')
    stmt = re.compile(r'^\s*(?:Local\s+|Global\s+)?(Theorem|Lemma|Corollary|Example|Fact|Proposition|Remark)\s+(\w+)', re.M)
    missing = [f for f in files if not os.path.exists(os.path.join(vlib.COQ, f))]
    if missing:
        ctx.proof['broken'].append('missing: ' + ' '.join(missing)); return
    for f in files:
        src = re.sub(r'\(\*.*?\*\)', '', open(os.path.join(vlib.COQ, f), errors='replace').read(), flags=re.S)
        m = forbidden.search(src)
        if m: ctx.proof['broken'].append('%s uses forbidden %r' % (f, m.group(0)))
    listed = set(vlib.coq_sources())
    if all(f in listed for f in files):
        ok, out = vlib.build_coq([f[:-2] + '.vo' for f in files])
    else:
        ok, out = True, ''
        with vlib.Lock('coq'):
            for f in ['Base/Bytes.v'] + files[:-1]:
                vo = os.path.join(vlib.COQ, f[:-2] + '.vo')
                if os.path.exists(vo) and os.path.getmtime(vo) >= os.path.getmtime(os.path.join(vlib.COQ, f)) and f == 'Base/Bytes.v': continue
                p = subprocess.run(['timeout', '900', 'coqc', '-Q', '.', 'NinjaV', f], cwd=vlib.COQ, stdout=subprocess.PIPE, stderr=subprocess.STDOUT)
                if p.returncode != 0:
                    ok = False; out = p.stdout.decode(errors='replace')
                    ctx.proof['broken'].append('%s does not compile: %s' % (f, out[-400:])); break
    n = sum(len(stmt.findall(open(os.path.join(vlib.COQ, f), errors='replace').read())) for f in files)
    ctx.proof['obligations'] += n
    ctx.proof['files'] = list(ctx.proof.get('files', [])) + files
    if not ok:
        if not any('does not compile' in b for b in ctx.proof['broken']): ctx.proof['broken'].append('Status proofs do not compile: ' + out[-400:])
        return
    p = subprocess.run(['timeout', '900', 'coqc', '-Q', '.', 'NinjaV', files[-1]], cwd=vlib.COQ, stdout=subprocess.PIPE, stderr=subprocess.STDOUT)
    txt = p.stdout.decode(errors='replace')
    if p.returncode != 0:
        ctx.proof['broken'].append(files[-1] + ' failed: ' + txt[-500:]); return
    ctx.proof['discharged'] += n
    names = [nm for k, nm in stmt.findall(open(os.path.join(vlib.COQ, files[-1])).read()) if k == 'Theorem']
    ctx.proof['theorems'] = list(ctx.proof.get('theorems', [])) + names
    closed = txt.count('Closed under the global context')
    ctx.proof['print_assumptions'] = list(ctx.proof.get('print_assumptions', [])) + ['Properties_C20out.v: %d theorems closed under the global context' % closed]
    ax = re.findall(r'Axioms:\n((?:.+\n)+?)(?=\n|\Z)', txt)
    if ax or closed < len(names): ctx.proof['broken'].append('Properties_C20out.v: %d of %d theorems closed; %s' % (closed, len(names), ' '.join(a.strip()[:200] for a in ax)))

# ------------------------------------------------------------------------------ replay files
def script_from_text(text):
    """rebuild a statusmodel.Script from its block text"""
    s = None
    for l in text.split('\n'):
        w = l.split()
        if not w: continue
        if w[0] == 'script':
            kv = dict(x.split('=', 1) for x in w[2:])
            s = sm.Script(w[1], tty=kv['tty'] == '1', verb=int(kv['verb']), color=kv['color'] == '1', width=int(kv['width']))
            s.fmt = None if kv['fmt'] == 'default' else unhex(kv['fmt'])
            if kv['eval'] == 'none': s.ev = None
            elif kv['eval'] == '-': s.ev = []
            else: s.ev = [(t[0] == 'V', bytes.fromhex(t[1:])) for t in kv['eval'].split(',')]
        elif w[0] == 'edge' and s is not None:
            s.edges.append(sm.SEdge(unhex(w[3]), unhex(w[4]), w[2] == '1', [] if w[5] == '-' else [bytes.fromhex(o) for o in w[5].split(',')]))
        elif w[0] == 'c' and s is not None:
            if w[1] == 'finished': s.calls.append(('finished', int(w[2]), int(w[3]), unhex(w[4])))
            elif w[1] in ('added', 'removed', 'started', 'lock'): s.calls.append((w[1], int(w[2])))
            elif w[1] in ('info', 'warning', 'error'): s.calls.append((w[1], unhex(w[2])))
            else: s.calls.append((w[1],))
    return s

def engine_counters(ctx):
    """Status-call counters of the REAL Builder over random histories (restat pruning through phony aliases, failures, -k, pools, dyndep)"""
    import random
    import enginecheck as ec
    rnd = random.Random(ctx.seed * 20 + 5)
    hists = [ec.gen_history(rnd, 'C20_e%d' % i, rnd.randrange(2, 9), rnd.randrange(1, 5), feat=dict(restat=0.5, alias=0.8, phony=0.3, dyndep=0.15), faults=0.2) for i in range(1500 if ctx.quick() else 12000)]
    rc, tr, err, out = ec.run_hists(hists)
    n = 0
    for h in hists:
        for st, b in ec.pair(h, tr.get(h.sid, [])):
            n += 1
            bad = ec.oracle_counters(h, st, b)
            if bad: ctx.violation('counters', h.text(), '%s: %s' % (h.sid, '; '.join(bad[:2])))
    return n

def run(ctx):
    _n_engine = engine_counters(ctx)
    check_out_proofs(ctx)
    known = {k.get('id') for k in ctx.known_list if k.get('property') == 'C20'}
    accept_glue = True      # see ASSUMPTIONS: counted, classified below
    quick = ctx.quick()
    rnd = random.Random(ctx.seed * 7 + 20)
    ninja = os.path.join(vlib.build_impl('plain'), 'ninja')
    flavor = 'asan' if 'run_status.cc' in [l.strip() for l in open(os.path.join(vlib.VERIF, 'harness', 'ENABLED'))] else 'plain'

    # ---- replay
    if ctx.replay:
        text = open(ctx.replay).read()
        if 'component status' in text:
            s = script_from_text(text)
            bad, st, good = sm.compare([s], flavor=flavor, model_run=ctx.model)
            for s_, t in bad: ctx.violation('correspondence-replay', 'component status\n' + s_.text(), t)
            for s_, out, irc in good:
                if oracle_eligible(s_):
                    for t in oracle_script(s_, out, strict=(FINDING_GLUE not in known))[:1]: ctx.violation('blocks', 'component status\n' + s_.text(), t)
                    if oracle_script.glued and FINDING_GLUE in known:
                        ctx.known_finding('id=%s the status line of a later command continues the unterminated output of an earlier one (replayed sequence %s)' % (FINDING_GLUE, s_.sid))
            ctx.cov.update(evaluations=1, distinct_nontrivial=1, rule='replay of one call sequence')
        else:
            ctx.violation('replay-unsupported', text, 'real-binary replays carry their manifest and command line: run them by hand', no_input=True)
        return

    # ---- (i) correspondence
    t0 = time.time()
    n = 6000 if quick else 40000
    scripts = [sm.gen_synthetic(rnd, 'Y%d' % i) for i in range(n * 6 // 10)]
    # plain valid dumb-terminal sequences for the block oracle (default format, NORMAL verbosity)
    for i in range(n * 2 // 10):
        cfg = sm.Script('P%d' % i)
        s = sm.gen_synthetic(rnd, 'P%d' % i, cfg=cfg)
        for e in s.edges:                      # unique, NUL-free descriptions
            e.desc = b'STEP%d.' % s.edges.index(e) if rnd.random() < 0.8 else b''
            if not e.cmd or b'\x00' in e.cmd: e.cmd = b'cmd%d --flag' % s.edges.index(e)
        s.calls = [c for c in s.calls if c[0] not in ('warning', 'error')]
        scripts.append(s)
    # Build() returning while the console command still runs (a later command could not be started): commands that finished under the
    # lock have their output held back; BuildFinished must release it
    for i in range(60 if quick else 600):
        s = sm.Script('U%d' % i); m = rnd.randrange(1, 4)
        s.edges.append(sm.SEdge(b'CONSOLE.', b'interactive --tool', True, [b'con']))
        for k in range(1, m + 1): s.edges.append(sm.SEdge(b'STEP%d.' % k if rnd.random() < 0.8 else b'', b'cmd%d --flag' % k, False, [b'out%d' % k]))
        for k in range(m + 1): s.calls.append(('added', k))
        s.calls.append(('buildstarted',))
        order = list(range(1, m + 1)); pre = rnd.randrange(0, m + 1)
        for k in order[:pre]: s.calls += [('started', k), ('finished', k, 0, sm.rand_output(rnd) if rnd.random() < 0.6 else b'')]
        s.calls.append(('started', 0))
        for k in order[pre:]:
            s.calls += [('started', k), ('finished', k, rnd.choice([0, 0, 1, 3]), rnd.choice([b'held back %d\n' % k, b'', sm.rand_output(rnd), b'no newline %d' % k]))]
        s.calls.append(('buildfinished',))
        scripts.append(s)
    scripts += [sm.gen_arbitrary(rnd, 'A%d' % i) for i in range(n * 2 // 10)]
    try:
        scripts += sm.engine_scripts(rnd, 300 if quick else 3000, ctx.seed)
    except vlib.BuildError: raise
    except Exception as ex:
        ctx.assumptions.append('engine traces unavailable in this run (%r): only generated call sequences were compared' % (ex,))
    bad, st, good = sm.compare(scripts, flavor=flavor, model_run=ctx.model)
    for s, t in bad:
        if 'died' in t: ctx.violation('memory-safety', 'component status\n' + s.text(), t)
        else: ctx.corr_broken.append('%s: %s\n%s' % (s.sid, t, s.text()[:3000]))
    fnbad = []
    fnbad += sm.compare_fn('status_elide', 'elide', sm.elide_cases(rnd, 20000 if quick else 200000), flavor=flavor, model_run=ctx.model)
    fnbad += sm.compare_fn('status_strip', 'strip', sm.strip_cases(rnd, 20000 if quick else 200000), flavor=flavor, model_run=ctx.model)
    for t in fnbad[:5]: ctx.corr_broken.append(t)
    t_corr = time.time() - t0

    # ---- (ii) block oracle on the real StatusPrinter's bytes
    norc = 0; samples = []; glued_seq = 0
    for s, out, irc in good + [(s_, s_.impl_out, 0) for s_, _t in bad if getattr(s_, 'impl_out', None) is not None]:
        if not oracle_eligible(s): continue
        norc += 1
        b = oracle_script(s, out)
        if oracle_script.glued: glued_seq += 1
        if b: ctx.violation('blocks', 'component status\n' + s.text(), 'real StatusPrinter output is not the expected sequence of blocks: ' + b[0])
        if len(samples) < 2 and len(s.calls) > 6: samples.append({'script': s.sid, 'calls': [' '.join(str(x)[:40] for x in c) for c in s.calls[:10]], 'stdout': repr(out[:300])})

    # ---- (iii) real binary
    t0 = time.time()
    scs = real_scenarios(rnd, quick)
    facts = dict(glued=0, blocks=0, failed=0, console=0, pruned=0, runs=0)
    facts['regeneration_runs'] = real_regen_counters(ctx, ninja)
    glue_example = None
    with concurrent.futures.ThreadPoolExecutor(max_workers=6) as ex:
        for results in ex.map(lambda sc: run_real(ninja, sc, accept_glue), scs):
            for name, b, f, man, args, style, so, se, rc in results:
                facts['runs'] += 1
                for k, v in f.items(): facts[k] = facts.get(k, 0) + v
                text = 'component realbinary\nscenario %s\nargs %s\nstyle %s\nexit %d\n--- build.ninja\n%s--- stdout (hex)\n%s\n--- stderr\n%s\n' % (
                    name, ' '.join(args), style, rc, man, so.hex(), se.decode(errors='replace')[-1500:])
                if b: ctx.violation('real-' + re.sub(r'\d+.*', '', name), text, '%s (%s, %s): %s' % (name, ' '.join(args), style, b[0]))
                elif f.get('glued') and glue_example is None: glue_example = (name, so)
    t_real = time.time() - t0
    if facts['glued']:
        msg = ('id=%s a command whose output does not end in a newline: in dumb-terminal mode LinePrinter::Print ignores have_blank_line_, the next status line '
               'continues that line and the owed newline is printed in front of the next command\'s output (%d status lines glued in this run, e.g. %s: %r)'
               % (FINDING_GLUE, facts['glued'], glue_example[0], glue_example[1][:120]))
        if FINDING_GLUE in known: ctx.known_finding(msg)
        else: ctx.assumptions.append('candidate finding, not listed in known_findings.txt (accepted pattern, see C20_tidy_refuted): ' + msg)

    ctx.cov.update(evaluations=st.get('compared', 0) + 40000 * (1 if quick else 10) + facts['runs'],
                   distinct_nontrivial=st.get('with_failure', 0) + st.get('with_console_edge', 0),
                   rule='call sequences: 60% scheduler-generated valid sequences with random configuration (tty/pipe, verbosity, colour, width, NINJA_STATUS incl. invalid, '
                        '--status tokens), 20% valid sequences in the default dumb configuration (also judged by the block parser), 20% arbitrary call orders, plus the st-lines '
                        'of real engine traces with mutated outputs; outputs from a catalogue (NUL, ANSI, CSI fragments, no final newline, empty, 5 kB) and random bytes; '
                        'non-trivial = sequences with a failing command or a console-pool command; real binary: mixes -j1..4 / unterminated / console lock with file '
                        'synchronisation / restat prune, styles default, NINJA_STATUS, --status, --quiet',
                   samples=samples or ['(none)'],
                   distribution=dict(st, block_oracle_sequences=norc, block_oracle_sequences_with_glued_line=glued_seq, elide_cases=20000 if quick else 200000, strip_cases=20000 if quick else 200000,
                                     real_binary=facts, seconds_correspondence=round(t_corr, 1), seconds_real_binary=round(t_real, 1), impl_flavor=flavor))
