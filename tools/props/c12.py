"""C12: manifest text means what the manual says.
 scenarios      : tools/gen_manifest.py (grammar-based trees of files + single-token mutations, the special
                  families, thorough: every short string in 5 contexts) + one minimal probe per documented quirk
 correspondence : extracted eval_manifest (model of ManifestParser) vs `impl_run manifest` (real parser, ASan),
                  whole dump line, must be identical
 property oracle: extracted spec_manifest (the reference evaluator written from doc/manual.asciidoc) vs the
                  implementation's dump: acceptance, error location, outputs, input kinds, validations, pools,
                  defaults, per statement the evaluated bindings, resolved pool, dyndep node.
                  Every difference must be explained by exactly one narrow classifier (a documented choice of
                  the reference or one of the quirks Q1..Q7 of coq/Manifest/README.md); a quirk is reported as
                  KNOWN-FINDING only when known_findings.txt lists its id for C12, otherwise as a violation.
 rejects        : whatever the reference rejects must be rejected by the implementation with file:line.
 replay         : --replay <file> runs the `case <scenario line>` lines of the file (format of findings/C12/*.scn).
 C12_ASSUME_KNOWN=all | id,id,...  (testing aid) treats these quirk ids as listed in known_findings.txt."""
import collections, concurrent.futures, os, re, shutil, tempfile
import vlib, gen_manifest

LEVEL = 'proof'
TRUSTED = ['Coq 8.16.1 kernel (coqc)',
           'extraction: ExtrOcamlBasic only, own module (coq/ExtractManifest.v); OCaml driver extract/manifest_run.ml '
           '(printer from coq/Manifest/driver_snippet.ml; `facts` walker = parse_file/eval_es/lookup_frames/canon of the reference)',
           'harness/run_manifest.cc (real ManifestParser::Load over an in-memory FileReader, one forked child per scenario, '
           'the checked-in generated lexer.cc is what is compiled) under ASan+UBSan',
           'Manifest/EvalSpec.v is the reading of doc/manual.asciidoc the oracle uses (lexical section, "Variable expansion", '
           '"Evaluation and scoping", rule variables, pools, default, dyndep); its scanners are those of LexDefs.v',
           'the classifiers of this file decide which differences count as the documented quirks; each is a predicate on the '
           'scenario (facts from the reference\'s syntactic pass) and on both dumps']
ASSUMPTIONS = [
    'spec_choices C1: the right-hand side of a binding inside a build block is expanded in the FILE scope',
    'spec_choices C2: the paths on a build line see the bindings of that build block',
    'spec_choices C3: the legacy form "build x: phony ... x ..." (one output, no implicit outputs/inputs) is tolerated by dropping x from '
    'the inputs, each input kind filtered separately',
    'spec_choices C4: a default target may be any path already mentioned by a build statement',
    'spec_choices C5: "$^" is accepted by the reference unconditionally (the version gate is not part of it); the gate is checked by a '
    'separate oracle on the scenario facts: accepted only under a visible ninja_required_version >= 1.14',
    'spec_choices C6: the "pool" variable is looked up like any other edge variable, after inputs and outputs are known',
    'spec_choices C7: ninja_required_version newer than the binary (1.14) rejects the manifest (fatal, no file:line)',
    'error texts are not compared; classes are compared only to select the line check; the reference reports the line of the '
    'statement\'s first token, the implementation may report any line of that statement (header, continuation, block)',
    'rule-variable cycles and a too-new ninja_required_version end the process with "ninja: fatal:" and no file:line: counted as rejections',
    'the reference parses a whole file before evaluating it: when a manifest has several defects the two sides may name different ones '
    '(only presence of a rejection with file:line is compared then)',
    'include nesting is modelled exactly (limit 200, recursion fuel 201 on the model side); the reference rejects nesting deeper than its fuel (201) at the same include statement (choice C8)']

KEYS = 'command description depfile dyndep rspfile rspfile_content deps restat generator msvc_deps_prefix pool'.split()
def H(s): return s.encode().hex()
HK = {k: H(k) for k in KEYS}
POOL, DYNDEP, RSPFILE, RSPCONTENT = H('pool'), H('dyndep'), H('rspfile'), H('rspfile_content')
BUILTINS = {H('in'), H('out'), H('in_newline')}
PHONY = H('phony')
VERSION = H('ninja_required_version')

QUIRKS = collections.OrderedDict([
    ('file-scope-shadows-rule', 'Q1: a build statement without bindings takes a variable bound at the top level of its file instead of the rule\'s binding '
                                '(manual, "Evaluation and scoping": rule-level before file-level)'),
    ('phony-selfref-order-only-count', 'Q2: the phony self-reference filter drops the output from the inputs but keeps the order-only count: '
                                       'another input silently becomes order-only / the explicit count becomes negative'),
    ('late-rebinding-changes-earlier-build', 'Q3: a binding that follows a build statement changes what that statement\'s rule variables expand to '
                                             '(manual: "a given variable cannot be changed, only shadowed")'),
    ('phantom-empty-rule-bindings', 'Q4: a rule without rspfile/rspfile_content gets empty bindings of these names that hide the file-level ones '
                                    '(manual: file-level applies when neither build nor rule binds the name)'),
    ('pool-var-resolved-before-outputs', 'Q5: the pool of a statement is resolved before its outputs/inputs are attached: "pool = $out" in a rule '
                                         'names an undeclared pool and is accepted (manual: unknown pool is an error)'),
    ('required-version-scope', 'Q6: the "$^" gate follows the parser objects, not the scopes: ninja_required_version = 1.14 in build.ninja does not '
                               'cover an included file, a sibling file\'s declaration does'),
    ('error-line-of-next-token', 'Q7: errors found after a statement was read (multiple rules, empty path, unknown pool, dyndep not an input, '
                                 'missing command/depth, rspfile) carry the line of the token FOLLOWING the statement'),
    ('out-var-ub-on-empty-outputs', 'undefined behaviour met on the Q5 path: the rule\'s "pool = ...$out..." is expanded while edge->outputs_ is still empty and '
                                    'EdgeEnv::LookupVariable forms &edge_->outputs_[0] (graph.cc): UBSan "reference binding to null pointer"; benign in a plain build'),
])
UB_SLUG = 'out-var-ub-on-empty-outputs'
# classes reported by the code only after the whole statement (header + block) was consumed
POST_BLOCK = {'multiple_rules', 'output_twice', 'empty_path', 'unknown_pool', 'dyndep_not_input', 'expected_command', 'rspfile', 'expected_depth'}
# the constraints the property statement names -> reference classes
DOCUMENTED = {'output_twice': 'duplicate output', 'multiple_rules': 'duplicate output', 'unknown_rule': 'unknown rule', 'unknown_pool': 'unknown pool',
              'expected_command': 'missing command', 'unexpected_var': 'non-reserved rule variable', 'bad_escape': 'bad escape', 'tabs': 'tab indentation',
              'dyndep_not_input': 'dyndep that is not an input', 'dup_rule': 'duplicate rule', 'dup_pool': 'duplicate pool', 'rspfile': 'rspfile without content',
              'empty_path': 'empty path', 'bad_depth': 'bad pool depth', 'expected_depth': 'pool without depth', 'unknown_target': 'unknown default target',
              'loading': 'missing include'}

# --------------------------------------------------------------------------- probes (also findings/C12/*.scn)
def _scn(files):
    return gen_manifest.scenario(b'build.ninja', files)
PROBES = collections.OrderedDict([
    ('file-scope-shadows-rule', _scn([(b'build.ninja', b'description = FILEDESC\nrule r\n  command = c\n  description = RULEDESC\nbuild a: r\nbuild b: r\n  z = 1\n')])),
    ('phony-selfref-order-only-count', _scn([(b'build.ninja', b'build p: phony c || p\nbuild s: phony || s\n')])),
    ('late-rebinding-changes-earlier-build', _scn([(b'build.ninja', b'rule r\n  command = echo $x\nx = 1\nbuild a: r\nx = 2\nbuild b: r\n')])),
    ('phantom-empty-rule-bindings', _scn([(b'build.ninja', b'rspfile = F\nrspfile_content = C\nrule r\n  command = c\nbuild a: r\nbuild b: r\n  z = 1\n')])),
    ('pool-var-resolved-before-outputs', _scn([(b'build.ninja', b'rule r\n  command = c\n  pool = $out\nbuild o: r\n')])),
    ('required-version-scope', _scn([(b'build.ninja', b'ninja_required_version = 1.14\ninclude b.ninja\nrule r\n  command = c\nbuild o: r\n  description = $x\n'),
                                     (b'b.ninja', b'x = a$^b\n')])),
    ('required-version-scope-2', _scn([(b'build.ninja', b'subninja a.ninja\nsubninja b.ninja\n'),
                                       (b'a.ninja', b'ninja_required_version = 1.14\n'), (b'b.ninja', b'x = a$^b\n')])),
    ('rule-level-dyndep-gets-own-scope', _scn([(b'build.ninja', b'description = FILEDESC\nrule r\n  command = c\n  description = RULEDESC\n  dyndep = dd\nbuild a: r | dd\nbuild b: r | dd\n  z = 1\n')])),
    ('error-line-of-next-token', _scn([(b'build.ninja', b'rule r\n  command = c\nbuild a: r\nbuild a: r\n  description = second\n# comment\n# comment\nbuild b: r\n')])),
])

# --------------------------------------------------------------------------- parsing of the three line formats
def parse_dump(line):
    w = line.split()
    if not w: return {'k': '?', 'cls': 'empty'}
    if w[0] == 'ERR' and len(w) == 4: return {'k': 'ERR', 'file': w[1], 'line': int(w[2]), 'cls': w[3]}
    if w[0] in ('FATAL', 'CRASH', 'MODEL') and len(w) == 2: return {'k': w[0], 'cls': w[1]}
    if w[0] != 'OK': return {'k': '?', 'cls': line[:60]}
    pos = [1]
    def take():
        pos[0] += 1; return w[pos[0] - 1]
    def expect(t):
        if take() != t: raise ValueError('malformed dump line at word %d' % pos[0])
    def paths():
        return [take() for _ in range(int(take()))]
    expect('P'); pools = [(take(), int(take())) for _ in range(int(take()))]
    expect('D'); defaults = paths()
    expect('E'); edges = []
    for _ in range(int(take())):
        e = {}
        expect('R'); e['rule'] = take()
        expect('O'); e['outs'] = paths(); e['iouts'] = int(take())
        expect('I'); e['ins'] = paths(); e['imp'] = int(take()); e['oo'] = int(take())
        expect('V'); e['vals'] = paths()
        expect('Q'); e['pool'] = take(); e['depth'] = int(take())
        expect('Y'); e['dd'] = take()
        expect('B'); e['b'] = {k: take() for k in KEYS}
        edges.append(e)
    if pos[0] != len(w): raise ValueError('trailing words in dump line')
    return {'k': 'OK', 'pools': pools, 'defaults': defaults, 'edges': edges}

Let = collections.namedtuple('Let', 'seq scope file line name value')
Rule = collections.namedtuple('Rule', 'seq scope file line name refs builtin')      # refs: key -> [names] (last declaration wins)
Build = collections.namedtuple('Build', 'seq scope file line rule keys O IO I IM OO V')
BUILTIN_PHONY = Rule(-1, 0, '-', 0, PHONY, {}, True)

class Facts:
    """the `manifest_run facts` line: statements in execution order with scopes (see extract/manifest_run.ml)"""
    def __init__(self, line):
        self.parent = {0: None}; self.lets = []; self.rules = []; self.builds = []; self.enters = []; self.carets = []; self.stop = None
        for seq, rec in enumerate(line.split(' ; ')[1:]):
            w = rec.split(); t = w[0]
            if t == 'N': self.parent[int(w[1])] = int(w[2])
            elif t == 'E': self.enters.append((seq, int(w[1]), w[2]))
            elif t == 'C': self.carets.append((seq, int(w[1]), w[2], int(w[3])))
            elif t == 'L': self.lets.append(Let(seq, int(w[1]), w[2], int(w[3]), w[4], w[5]))
            elif t == 'R':
                refs = {}; i = 6
                for _ in range(int(w[5])):
                    k = w[i]; n = int(w[i + 1]); refs[k] = w[i + 2:i + 2 + n]; i += 2 + n
                self.rules.append(Rule(seq, int(w[1]), w[2], int(w[3]), w[4], refs, False))
            elif t == 'B':
                i = 5; lists = []
                for tag in ('K', 'O', 'IO', 'I', 'IM', 'OO', 'V'):
                    assert w[i] == tag; n = int(w[i + 1]); lists.append(w[i + 2:i + 2 + n]); i += 2 + n
                self.builds.append(Build(seq, int(w[1]), w[2], int(w[3]), w[4], *lists))
            elif t == 'X': self.stop = (w[1], int(w[2]))
    def chain(self, scope):
        out = []
        while scope is not None:
            out.append(scope); scope = self.parent.get(scope)
        return out
    def lets_in(self, scope, name):
        return [l for l in self.lets if l.scope == scope and l.name == name]
    def rule_of(self, b):
        for sc in self.chain(b.scope):
            for r in self.rules:
                if r.scope == sc and r.name == b.rule and r.seq < b.seq: return r
        return BUILTIN_PHONY if b.rule == PHONY else None
    def mutable_final(self, name, chain):
        """what a lookup through the mutable BindingEnv chain finds once the whole manifest is loaded"""
        for sc in chain:
            ls = self.lets_in(sc, name)
            if ls: return ls[-1].value
        return '-'

def closure(rule, key):
    """names reachable from `key` through the rule's bindings (late expansion)"""
    seen = []; todo = [key]
    while todo:
        v = todo.pop()
        if v in seen: continue
        seen.append(v)
        todo += rule.refs.get(v, [])
    return seen

def scenario_files(scn):
    w = scn.split(); files = {}
    for i in range(int(w[1])):
        files[w[2 + 2 * i]] = vlib.unhex(w[3 + 2 * i])      # later entries of a name win, like the harness
    return files

def describe(scn, limit=700):
    """human-readable rendering of a scenario for messages"""
    out = []
    for name, text in scenario_files(scn).items():
        out.append('%s=%r' % (vlib.unhex(name).decode(errors='replace'), text.decode(errors='replace')))
    return (' ; '.join(out))[:limit]

def hx(h):
    return repr(vlib.unhex(h).decode(errors='replace'))

# --------------------------------------------------------------------------- statement extent (for the error-line check)
def _cont(line):
    s = line[:-1] if line.endswith(b'\r') else line
    return (len(s) - len(s.rstrip(b'$'))) % 2 == 1

def statement_extent(text, first):
    """(last line of the statement that starts on line `first`, line of the first token after it); lines are 1-based.
    The statement = its header with continuations + the following indented binding lines (comment lines inside are skipped)."""
    lines = text.split(b'\n')
    n = len(lines)
    if first < 1 or first > n: return first, first
    end = first
    while end < n and _cont(lines[end - 1]): end += 1
    if re.match(rb'(pool|rule)[ ]+[A-Za-z0-9_.-]+[ ]*#', lines[end - 1]):
        # "pool p# text": the comment swallows the line end, the header's newline token is the next non-comment line
        end += 1
        while end < n and lines[end - 1].lstrip(b' ').startswith(b'#'): end += 1
        end = min(end, n)
    j = end + 1
    while j <= n:
        ln = lines[j - 1]; st = ln.lstrip(b' ')
        if st.startswith(b'#') and j < n:
            j += 1; continue
        if ln.startswith(b' ') and st.rstrip(b'\r') != b'':
            k = j
            while k < n and _cont(lines[k - 1]): k += 1
            end = k; j = k + 1; continue
        break
    return end, min(j, n)

# --------------------------------------------------------------------------- classifiers
def explain(F, b, r, K, iv, sv, late):
    """why does variable K of build statement b (rule r) evaluate differently in the implementation (iv) and in the
    reference (sv)?  Returns the slug of the one quirk whose narrow predicate holds, or None.
    late = the value is computed after the whole manifest was loaded (Edge::GetBinding in the dump)."""
    if b is None or r is None: return None
    names = closure(r, K)
    ch = F.chain(b.scope)
    blk = set(b.keys)
    # Q5: the statement's pool comes from the rule and mentions $in/$out, which are still empty when the code resolves it
    if K == POOL and not late and POOL in r.refs and POOL not in blk and BUILTINS & set(names):
        if not (not b.keys and F.lets_in(b.scope, POOL)):
            return 'pool-var-resolved-before-outputs'
    # Q1: no block; a name the RULE binds is also bound at the top level of the statement's own scope
    if not b.keys:
        for V in names:
            if V in r.refs and F.lets_in(b.scope, V):
                if V == K and iv is not None and iv not in [l.value for l in F.lets_in(b.scope, V)]: continue
                return 'file-scope-shadows-rule'
    # Q4: rspfile / rspfile_content not bound by the (user) rule, bound at file level, and the code does not reach that binding
    if not r.builtin:
        for V in (RSPFILE, RSPCONTENT):
            if V in names and V not in r.refs and V not in blk:
                bound = [l for sc in ch for l in F.lets_in(sc, V)]
                if bound and (b.keys or not F.lets_in(b.scope, V)):
                    if V == K and iv is not None and iv != '-': continue
                    return 'phantom-empty-rule-bindings'
    # Q3: a name looked up at file level is bound again after the statement (in its scope or an enclosing one)
    if late:
        for V in names:
            if V in blk or V in BUILTINS or V in r.refs: continue
            if any(l.seq > b.seq for sc in ch for l in F.lets_in(sc, V)):
                if V == K and iv is not None and iv != F.mutable_final(V, ch): continue
                return 'late-rebinding-changes-earlier-build'
    return None

def clean_version(value_hex):
    """(major, minor) of a plainly written version, None when the string needs atoi folklore"""
    m = re.fullmatch(rb'(\d{1,9})\.(\d{1,9})(\.[0-9A-Za-z.]*)?', vlib.unhex(value_hex))
    return (int(m.group(1)), int(m.group(2))) if m else None

def visible_version(F, chain, before):
    """the ninja_required_version in force (documented scoping: innermost scope of `chain` that binds it, latest binding)
    before event `before`: ('yes', let) when >= 1.14, ('no', let or None), ('unknown', let) when not plainly written"""
    for sc in chain:
        ls = [l for l in F.lets if l.name == VERSION and l.scope == sc and l.seq < before]
        if ls:
            v = clean_version(ls[-1].value)
            if v is None: return 'unknown', ls[-1]
            return ('yes' if v >= (1, 14) else 'no'), ls[-1]
    return 'no', None

class Verdicts:
    """collects, per scenario, the classified differences"""
    def __init__(self):
        self.quirk = collections.OrderedDict()     # slug -> [(scenario, text)]
        self.viol = []                             # (oracle, scenario, text)
        self.choice = collections.Counter()        # documented choices of the reference met
    def q(self, slug, scn, text):
        self.quirk.setdefault(slug, []).append((scn, text))
    def v(self, oracle, scn, text):
        self.viol.append((oracle, scn, text))

def where(b):
    return '%s:%d' % (vlib.unhex(b.file).decode(errors='replace'), b.line) if b else '?'

def compare_ok(V, scn, F, A, B):
    """both accepted: field by field"""
    if A['pools'] != B['pools']: V.v('pools', scn, 'pools differ: implementation %r reference %r' % (A['pools'], B['pools']))
    if A['defaults'] != B['defaults']:
        V.v('defaults', scn, 'default targets differ: implementation %s reference %s' % ([hx(p) for p in A['defaults']], [hx(p) for p in B['defaults']]))
    if len(A['edges']) != len(B['edges']):
        V.v('statements', scn, 'implementation has %d build statements, the reference %d' % (len(A['edges']), len(B['edges']))); return
    usable = F.stop is None and len(F.builds) == len(B['edges'])
    for i, (x, y) in enumerate(zip(A['edges'], B['edges'])):
        b = F.builds[i] if usable else None
        if b and (b.O + b.IO != y['outs'] or b.rule != y['rule']): b = None
        r = F.rule_of(b) if b else None
        at = 'statement #%d (%s, outputs %s)' % (i + 1, where(b), [hx(p) for p in y['outs']])
        for fld, what in (('rule', 'rule'), ('outs', 'outputs'), ('iouts', 'implicit output count'), ('ins', 'inputs'),
                          ('imp', 'implicit input count'), ('vals', 'validations')):
            if x[fld] != y[fld]: V.v(fld, scn, '%s: %s differ: implementation %r reference %r' % (at, what, x[fld], y[fld]))
        if x['oo'] != y['oo']:
            ok = False
            if b and r is BUILTIN_PHONY and x['rule'] == PHONY and len(b.O) == 1 and not b.IO and not b.IM and x['ins'] == y['ins'] and x['imp'] == y['imp'] == 0:
                k = b.OO.count(b.O[0])
                ok = k > 0 and x['oo'] == len(b.OO) and y['oo'] == len(b.OO) - k
            if ok:
                V.q('phony-selfref-order-only-count', scn, '%s: phony statement naming its own output %s after "||": inputs_ %s with order_only_deps_=%d '
                    '(explicit count %d), the manual\'s reading gives %d order-only' % (at, hx(b.O[0]), [hx(p) for p in x['ins']], x['oo'], len(x['ins']) - x['oo'], y['oo']))
            else:
                V.v('input-kinds', scn, '%s: order-only count differs: implementation %d reference %d (inputs %s)' % (at, x['oo'], y['oo'], [hx(p) for p in x['ins']]))
        if (x['pool'], x['depth']) != (y['pool'], y['depth']):
            slug = explain(F, b, r, POOL, x['pool'], y['pool'], False)
            msg = '%s: runs in pool %s (depth %d), the reference puts it in pool %s (depth %d)' % (at, hx(x['pool']), x['depth'], hx(y['pool']), y['depth'])
            V.q(slug, scn, msg) if slug else V.v('pool', scn, msg)
        if x['dd'] != y['dd']:
            slug = explain(F, b, r, DYNDEP, x['dd'], y['dd'], False)
            msg = '%s: dyndep node %s, reference %s' % (at, hx(x['dd']), hx(y['dd']))
            V.q(slug, scn, msg) if slug else V.v('dyndep', scn, msg)
        for K in KEYS:
            if x['b'][K] != y['b'][K]:
                slug = explain(F, b, r, HK[K], x['b'][K], y['b'][K], True)
                msg = '%s: %s evaluates to %s, the documented rules give %s' % (at, K, hx(x['b'][K]), hx(y['b'][K]))
                V.q(slug, scn, msg) if slug else V.v('binding-' + K, scn, msg)

def builds_at(F, files, fhex, line, exact):
    """build statements of file fhex whose first line is `line` (exact) or whose extent / following token covers `line`"""
    out = []
    for b in F.builds:
        if b.file != fhex: continue
        if exact:
            if b.line == line: out.append(b)
        elif b.line <= line:
            end, nxt = statement_extent(files.get(fhex, b''), b.line)
            if line <= max(end, nxt): out.append(b)
    return out

def gate_verdict(V, scn, F, files, A):
    """implementation rejected a "$^" although the reference accepts the manifest"""
    f, l = A['file'], A['line']
    cs = [c for c in F.carets if c[2] == f and c[3] <= l]
    if not cs:
        if b'$^' in files.get(f, b''): V.choice['C5 "$^" gate not modelled by the reference'] += 1
        else: V.v('caret-gate', scn, '"$^" error at %s:%d but that file has no "$^"' % (hx(f), l))
        return
    top = max(c[3] for c in cs)
    c = [c for c in cs if c[3] == top][0]
    vis, let = visible_version(F, F.chain(c[1]), c[0])
    if vis == 'yes':
        if let.file == f and len([e for e in F.enters if e[2] == f]) == 1:
            V.v('caret-gate', scn, '%s:%d: "$^" rejected although %s:%d declares ninja_required_version = %s earlier in the same file'
                % (hx(f), l, hx(let.file), let.line, hx(let.value)))
        else:
            V.q('required-version-scope', scn, '%s:%d: "$^" rejected although ninja_required_version = %s is in force (declared at %s:%d, visible in this scope)'
                % (hx(f), l, hx(let.value), hx(let.file), let.line))
    else:
        V.choice['C5 "$^" gate not modelled by the reference'] += 1

def gate_accepts(V, scn, F):
    """implementation accepted the manifest: every "$^" must stand under a visible ninja_required_version >= 1.14"""
    for c in F.carets:
        vis, _ = visible_version(F, F.chain(c[1]), c[0])
        if vis != 'no': continue
        other = [l for l in F.lets if l.name == VERSION and l.seq < c[0] and (clean_version(l.value) or (0, 0)) >= (1, 14)]
        msg = '%s:%d uses "$^" and is accepted, but no ninja_required_version >= 1.14 is visible there' % (hx(c[2]), c[3])
        if other:
            V.q('required-version-scope', scn, msg + ' (the declaration at %s:%d belongs to another scope)' % (hx(other[0].file), other[0].line))
        else:
            V.v('caret-gate', scn, msg + ' (manual: "$^" requires ninja_required_version >= 1.14 to be specified)')
        return

def compare_acceptance(V, scn, F, files, A, B):
    """exactly one side accepted"""
    if A['k'] == 'OK':
        # silently accepted although the documented rules reject
        slug = None
        if B['k'] == 'ERR' and B['cls'] in ('unknown_pool', 'dyndep_not_input'):
            K = POOL if B['cls'] == 'unknown_pool' else DYNDEP
            for b in builds_at(F, files, B['file'], B['line'], True):
                slug = explain(F, b, F.rule_of(b), K, None, None, False)
                if slug: break
        elif B['k'] == 'FATAL' and B['cls'] == 'cycle':
            # a cycle between rule variables that the code never walks because a file-level binding comes first (Q1)
            for b in F.builds:
                r = F.rule_of(b)
                if r and not b.keys and any(F.lets_in(b.scope, v) for v in r.refs):
                    slug = 'file-scope-shadows-rule'; break
        msg = 'accepted by the implementation, rejected by the documented rules: reference says %s' % fmt_result(B)
        V.q(slug, scn, msg) if slug else V.v('silently-accepted', scn, msg)
        return
    # implementation rejected what the reference accepts
    if A['k'] == 'ERR' and A['cls'] == 'newline_version':
        gate_verdict(V, scn, F, files, A); return
    slug = None
    if A['k'] == 'ERR' and A['cls'] in ('unknown_pool', 'dyndep_not_input'):
        K = POOL if A['cls'] == 'unknown_pool' else DYNDEP
        for b in builds_at(F, files, A['file'], A['line'], False):
            slug = explain(F, b, F.rule_of(b), K, None, None, False)
            if slug: break
    msg = 'rejected by the implementation (%s), accepted by the documented rules' % fmt_result(A)
    V.q(slug, scn, msg) if slug else V.v('wrongly-rejected', scn, msg)

def fmt_result(R):
    if R['k'] == 'ERR': return '%s:%d: %s' % (vlib.unhex(R['file']).decode(errors='replace'), R['line'], R['cls'])
    if R['k'] == 'OK': return 'accepted (%d statements)' % len(R['edges'])
    return '%s %s' % (R['k'], R['cls'][:80])

def compare_lines(V, scn, files, A, B, F=None):
    """both rejected with a parse error of the same class in the same file: where does the diagnostic point?"""
    if A['line'] == B['line']: return 'same'
    if F is not None and A['cls'] == 'unknown_pool' and A['line'] > B['line'] and \
       any(pool_mentions_out(F, b) for b in builds_at(F, files, B['file'], B['line'], True)):
        # listed quirk Q5: the statement the documented rules reject (its rule's pool variable reaches $out) gets the default
        # pool in the implementation, which goes on and meets ANOTHER unknown pool further down
        V.q('pool-var-resolved-before-outputs', scn, '%s: the documented rules reject the statement on line %d (pool via $out), the implementation accepts it and stops at line %d'
            % (hx(A['file']), B['line'], A['line']))
        return 'other-statement'
    text = files.get(B['file'], b'')
    end, nxt = statement_extent(text, B['line'])
    if B['line'] <= A['line'] <= end: return 'inside'
    if A['cls'] in POST_BLOCK and A['line'] == nxt:
        V.q('error-line-of-next-token', scn, '%s: the statement on lines %d-%d is reported as line %d (%s), the line of the next token'
            % (hx(A['file']), B['line'], end, A['line'], A['cls']))
        return 'next-token'
    V.v('error-line', scn, '%s: %s is reported at line %d; the statement at fault spans lines %d-%d' % (hx(A['file']), A['cls'], A['line'], B['line'], end))
    return 'off'

# --------------------------------------------------------------------------- running
def run_parallel(binary, component, lines, jobs=8, timeout=3000):
    """vlib.run_lines over chunks; -> (list of output lines or None when a chunk broke, stderr text)"""
    if not lines: return [], ''
    size = max(200, (len(lines) + jobs - 1) // jobs)
    chunks = [lines[i:i + size] for i in range(0, len(lines), size)]
    with concurrent.futures.ThreadPoolExecutor(max_workers=jobs) as ex:
        res = list(ex.map(lambda c: vlib.run_lines(binary, component, c, timeout=timeout), chunks))
    out = []; err = ''
    for c, (rc, o, e) in zip(chunks, res):
        if rc != 0 or len(o) != len(c):
            return None, 'rc=%s, %d of %d lines answered; first unanswered scenario: %s\n%s' % (rc, len(o), len(c), c[len(o)] if len(o) < len(c) else '?', e[-800:])
        out += o
    return out, err

def replay_text(scn, note=''):
    t = 'component manifest\ncase %s\n' % scn
    for name, text in scenario_files(scn).items():
        t += '# file %s:\n' % vlib.unhex(name).decode(errors='replace')
        for ln in text.decode(errors='replace').split('\n'): t += '#   | %s\n' % ln.replace('\r', '\\r').replace('\x00', '\\0')
    return t + (('# ' + note + '\n') if note else '')

def pool_mentions_out(F, b):
    """the code expands this statement's pool variable through the rule, reaching $out, before any output is attached"""
    r = F.rule_of(b)
    return bool(r and POOL in r.refs and POOL not in b.keys and H('out') in closure(r, POOL) and (b.keys or not F.lets_in(b.scope, POOL)))

def listed_ids(ctx):
    env = os.environ.get('C12_ASSUME_KNOWN', '')
    ids = {k.get('id') for k in ctx.known_list if k.get('property') == 'C12'}
    if env == 'all': ids |= set(QUIRKS)
    elif env: ids |= set(env.split(','))
    return ids

def run(ctx):
    impl = os.path.join(vlib.build_impl('asan'), 'impl_run')
    if not ctx.model:
        ctx.violation('build', 'model\n', 'the extracted model could not be built', no_input=True); return
    mrun = os.path.join(os.path.dirname(ctx.model), 'manifest_run')
    # private copies: the shared caches keep only the three newest builds and other checks rebuild them while this one runs
    bindir = tempfile.mkdtemp(prefix='c12-bin-', dir=vlib.CACHE)
    try:
        impl = shutil.copy2(impl, os.path.join(bindir, 'impl_run'))
        mrun = shutil.copy2(mrun, os.path.join(bindir, 'manifest_run'))
        _run(ctx, impl, mrun)
    finally:
        shutil.rmtree(bindir, ignore_errors=True)

def _run(ctx, impl, mrun):
    # ---- scenarios -----------------------------------------------------------------
    families = collections.OrderedDict()
    if ctx.replay:
        scns = [l.split(None, 1)[1].strip() for l in open(ctx.replay) if l.startswith('case ')]
        families['replay'] = len(scns)
    else:
        scns = list(PROBES.values()); families['quirk_probes'] = len(scns)
        n = 9000 if ctx.quick() else 120000
        g = gen_manifest.gen(ctx.seed, n)
        nspecial = len(gen_manifest.gen_special())
        families['special_families'] = min(nspecial, len(g)); families['random_bases_and_mutations'] = len(g) - families['special_families']
        scns += g
        if not ctx.quick():
            ex = gen_manifest.gen_exhaustive(4)
            families['exhaustive_len<=4_x5_contexts'] = len(ex); scns += ex
    # ---- the three sides -----------------------------------------------------------
    iout, ierr = run_parallel(impl, 'manifest', scns)
    if iout is None:
        ctx.violation('crash', 'component manifest\n', 'impl_run manifest itself died: ' + ierr); return
    mout, merr = run_parallel(mrun, 'model', scns, jobs=4)
    sout, serr = run_parallel(mrun, 'spec', scns, jobs=4)
    fout, ferr = run_parallel(mrun, 'facts', scns, jobs=4)
    if mout is None or sout is None or fout is None:
        ctx.proof['broken'].append('manifest_run failed: ' + (merr or serr or ferr)[:600]); return
    V = Verdicts()
    # UBSan stops the child where a plain build carries on: "$out" expanded on an edge without outputs (only reachable through
    # quirk Q5).  Those scenarios are judged on the plain build's answer, the undefined behaviour is reported under its own id.
    ub = [i for i, a in enumerate(iout) if a.startswith('FATAL other:') and b'reference binding to null pointer' in vlib.unhex(a[12:])]
    def ub_expected(i):
        F = Facts(fout[i])
        if any(pool_mentions_out(F, b) for b in F.builds): return True
        # a later syntax error stops the reference's syntactic pass (no facts): decide on the text
        return F.stop is not None and any(re.search(rb'pool[ ]*=[^\n]*\$\{?out', t) for t in scenario_files(scns[i]).values())
    ub = [i for i in ub if ub_expected(i)]
    if ub:
        plain = shutil.copy2(os.path.join(vlib.build_impl('plain'), 'impl_run'), os.path.join(os.path.dirname(impl), 'impl_run_plain'))
        pout, perr = run_parallel(plain, 'manifest', [scns[i] for i in ub])
        if pout is not None:
            for i, p in zip(ub, pout):
                V.q(UB_SLUG, scns[i], 'UBSan: %s' % vlib.unhex(iout[i][12:]).decode(errors='replace').strip().split('\n')[0][:200])
                iout[i] = p
    stats = collections.Counter(); rej_classes = collections.Counter(); nontriv = set(); linecheck = collections.Counter()
    undoc_reject = []
    for scn, a, m, s, f in zip(scns, iout, mout, sout, fout):
        # (a) correspondence: the model of the code prints the same line as the code
        if a != m:
            if m == 'MODEL include_fuel' and (a.startswith('CRASH') or a.startswith('FATAL other')):
                stats['include_cycle'] += 1
                msg = 'id=include-recursion-crash an include cycle overflows the stack (%s); C13 matter' % a[:40]
                if 'include-recursion-crash' in listed_ids(ctx) or any(k.get('property') == 'C13' and 'include' in k.get('id', '') for k in ctx.known_list):
                    ctx.known_finding(msg)
                else:
                    ctx.violation('crash', replay_text(scn), 'include cycle: the implementation ends with %s (unbounded recursion of ManifestParser::Load)' % a[:60])
                continue
            ctx.corr_broken.append('manifest %s: model `%s` implementation `%s`' % (describe(scn, 300), m[:300], a[:300]))
            # the property oracle below still judges the implementation's own answer
        try:
            A = parse_dump(a); B = parse_dump(s)
        except (ValueError, IndexError) as e:
            ctx.corr_broken.append('unparsable dump line (%s): %s' % (e, a[:200])); continue
        if A['k'] in ('CRASH', '?') or (A['k'] == 'FATAL' and A['cls'].startswith('other')):
            text = vlib.unhex(A['cls'][6:]).decode(errors='replace') if A['cls'].startswith('other:') else A['cls']
            san = 'Sanitizer' in text or 'runtime error' in text
            ctx.violation('memory-safety' if san or A['k'] == 'CRASH' else 'crash', replay_text(scn),
                          'ManifestParser on %s: %s %s' % (describe(scn, 300), A['k'], text[-500:]))
            continue
        if B['k'] in ('MODEL', '?'):
            ctx.corr_broken.append('reference evaluator gave %s on %s' % (s[:80], describe(scn, 300))); continue
        F = Facts(f)
        files = None
        aok, bok = A['k'] == 'OK', B['k'] == 'OK'
        if aok and len(A['edges']) > 0: nontriv.add(a)
        nq, nv, nc = sum(len(x) for x in V.quirk.values()), len(V.viol), sum(V.choice.values())
        if aok: gate_accepts(V, scn, F)
        if aok and bok:
            if a != s: compare_ok(V, scn, F, A, B)
        elif aok != bok:
            compare_acceptance(V, scn, F, scenario_files(scn), A, B)
        else:
            # (c) rejects: both reject; the implementation's diagnostic must carry file:line
            if B['k'] == 'ERR': rej_classes[B['cls']] += 1
            else: rej_classes['fatal_' + B['cls']] += 1
            if A['k'] == 'ERR':
                if A['file'] == '-' or A['line'] < 1:
                    V.v('reject-without-location', scn, 'rejected without file:line: %s' % a[:200])
                elif B['k'] == 'ERR' and A['file'] == B['file'] and A['cls'] == B['cls']:
                    linecheck[compare_lines(V, scn, scenario_files(scn), A, B, F)] += 1
                else: linecheck['different defect named'] += 1
            else: stats['rejected_fatal_' + A['cls']] += 1
        d = (sum(len(x) for x in V.quirk.values()) - nq, len(V.viol) - nv, sum(V.choice.values()) - nc)
        if a == s: stats['identical'] += 1
        elif d[1]: stats['VIOLATION'] += 1
        elif d[0]: stats['explained_by_quirk'] += 1
        elif d[2]: stats['documented_choice'] += 1
        elif not aok and not bok: stats['both_rejected'] += 1
        else: stats['UNCLASSIFIED'] += 1; V.v('unclassified', scn, 'difference without verdict: implementation %s reference %s' % (a[:200], s[:200]))
        if bok: stats['reference_accepts'] += 1
        else: stats['reference_rejects'] += 1
    # ---- verdicts ------------------------------------------------------------------
    listed = listed_ids(ctx)
    for slug, inst in V.quirk.items():
        scn, text = inst[0]
        if slug in listed:
            ctx.known_finding('id=%s %d instance(s), e.g. %s  [%s]' % (slug, len(inst), text, describe(scn, 400)))
        else:
            for scn, text in inst[:2]:
                ctx.violation('memory-safety' if slug == UB_SLUG else 'spec-mismatch', replay_text(scn, 'classifier: ' + slug), '%s -- %s  [%s] (classified as %s, which known_findings.txt does not list for C12)'
                              % (text, QUIRKS[slug], describe(scn, 400), slug))
    seen = collections.Counter()
    for oracle, scn, text in V.viol:
        seen[oracle] += 1
        if seen[oracle] <= 3:
            ctx.violation('spec-mismatch' if oracle not in ('silently-accepted', 'reject-without-location', 'caret-gate', 'error-line') else oracle,
                          replay_text(scn, 'oracle: ' + oracle), '[%s] %s  [%s]' % (oracle, text, describe(scn, 500)))
    dist = dict(families)
    dist.update({'result_' + k: v for k, v in stats.items()})
    dist.update({'quirk_' + k: len(v) for k, v in V.quirk.items()})
    dist.update({'choice_' + k: v for k, v in V.choice.items()})
    dist.update({'reference_reject_class_' + k: v for k, v in rej_classes.items()})
    dist.update({'error_line_' + k: v for k, v in linecheck.items()})
    dist['documented_constraints_exercised'] = len({DOCUMENTED[c] for c in rej_classes if c in DOCUMENTED})
    samples = []
    for i in (0, len(PROBES), len(scns) // 2, len(scns) - 1):
        if 0 <= i < len(scns): samples.append({'manifest': describe(scns[i], 300), 'implementation': iout[i][:200], 'reference': sout[i][:200]})
    ctx.cov.update(evaluations=len(scns), distinct_nontrivial=len(nontriv),
                   rule='every scenario = a tree of manifest files; run through the real ManifestParser (ASan), the extracted model of it (lines must be identical) and the '
                        'extracted reference evaluator (acceptance, error location, every dumped field compared; each difference must match one narrow classifier). '
                        'non-trivial = accepted by the implementation with at least one build statement, distinct by dump line. '
                        'Families: one probe per documented quirk; %d special scenarios (pool depths, version strings, "$^" gate over include/subninja); random bases '
                        '(every statement form, nesting <= 3, shadowing at every scope, all escapes, continuations, CRLF, non-canonical paths, legacy phony) each with up to 24 '
                        'single-token mutations%s' % (families.get('special_families', 0), '' if ctx.quick() else '; every string of length <= 4 over 15 bytes in 5 contexts'),
                   samples=samples, distribution=dist)
