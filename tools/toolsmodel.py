#!/usr/bin/env python3
"""Correspondence between the Gallina model of ninja's listing tools (coq/Engine/ToolsDefs.v: PrintCommands,
CommandCollector, InputsCollector; theorems in Properties_C19tools.v) and the REAL ninja binary compiled from the
working tree.

Per case a random manifest graph (explicit / implicit / order-only inputs, validations, phony statements, several
outputs, shared inputs, CYCLES -- the tools diagnose none) is written as build.ninja; the real binary runs
  ninja -t commands T..      ninja -t commands -s T..      ninja -t compdb-targets T..      ninja -t inputs -d -E T..
and what it printed is mapped back to statement / node numbers.  The same graphs go, as Gallina literals together
with the observed answers, into one generated cases.v which a single `coqc` evaluates with vm_compute inside the
proof assistant (no extraction, no OCaml glue): the value it prints is the list of (case, tool) pairs on which
model and binary DIFFER.  Every random choice comes from one random.Random(seed).

  hook(ctx)                       called from props/c19.py
  python3 tools/toolsmodel.py <seed> <n>     standalone"""
import json, os, random, re, shutil, subprocess, sys, tempfile, collections
sys.path.insert(0, os.path.dirname(os.path.abspath(__file__)))
import vlib

def gen_case(rnd):
    ne = rnd.randrange(1, 9)
    nsrc = rnd.randrange(1, 5)
    nodes = ['s%d' % i for i in range(nsrc)]
    edges = []
    for e in range(ne):
        outs = ['o%d' % e] + (['p%d' % e] if rnd.random() < 0.25 else [])
        edges.append(dict(outs=outs, phony=rnd.random() < 0.25)); nodes += outs
    cyc = rnd.random() < 0.3            # allow references to later statements (cycles possible) in 30 % of the graphs
    for e, ed in enumerate(edges):
        pool = [n for n in nodes if n not in ed['outs'] or (not ed['phony'] and rnd.random() < 0.05)]
        if not cyc: pool = [n for n in pool if n[0] == 's' or int(n[1:]) < e] or nodes[:nsrc]
        pick = lambda k: [rnd.choice(pool) for _ in range(rnd.choice(k))]
        ed['exp'] = pick([0, 1, 1, 2, 3]); ed['imp'] = pick([0, 0, 1, 2]); ed['oo'] = pick([0, 0, 0, 1, 2]); ed['val'] = pick([0, 0, 0, 1])
        if ed['phony']:   # the parser erases a phony statement's reference to itself (legacy form): never generate it
            for k in ('exp', 'imp', 'oo'): ed[k] = [n for n in ed[k] if n not in ed['outs']]
    nt = rnd.choice([1, 1, 2, 3])
    mentioned = [n for n in nodes if n[0] != 's' or any(n in ed[k] for ed in edges for k in ('exp', 'imp', 'oo', 'val'))]   # other names are unknown targets
    srcs = [n for n in mentioned if n[0] == 's'] or mentioned
    targets = [rnd.choice(mentioned if rnd.random() < 0.8 else srcs) for _ in range(nt)]
    return dict(nodes=nodes, edges=edges, targets=targets)

def manifest(c):
    t = 'rule r\n  command = c$id\n'
    for e, ed in enumerate(c['edges']):
        l = 'build ' + ' '.join(ed['outs']) + ': ' + ('phony' if ed['phony'] else 'r') + ' ' + ' '.join(ed['exp'])
        if ed['imp']: l += ' | ' + ' '.join(ed['imp'])
        if ed['oo']: l += ' || ' + ' '.join(ed['oo'])
        if ed['val']: l += ' |@ ' + ' '.join(ed['val'])
        t += l + '\n' + ('' if ed['phony'] else '  id = %d\n' % e)
    return t

def run_real(ninja, c, d):
    open(os.path.join(d, 'build.ninja'), 'w').write(manifest(c))
    idx = {n: i for i, n in enumerate(c['nodes'])}
    res = {}
    def call(args):
        p = subprocess.run([ninja, '-C', d] + args + c['targets'], stdout=subprocess.PIPE, stderr=subprocess.PIPE, timeout=60)
        out = p.stdout.decode(errors='replace')
        out = '\n'.join(l for l in out.split('\n') if not l.startswith('ninja: Entering directory'))
        return p.returncode, out, p.stderr.decode(errors='replace')
    rc, out, err = call(['-t', 'commands'])
    res['commands'] = [int(l[1:]) for l in out.split('\n') if re.fullmatch(r'c\d+', l)] if rc == 0 else ('ERR', rc, err[-200:])
    rc, out, err = call(['-t', 'commands', '-s'])
    res['single'] = [int(l[1:]) for l in out.split('\n') if re.fullmatch(r'c\d+', l)] if rc == 0 else ('ERR', rc, err[-200:])
    rc, out, err = call(['-t', 'compdb-targets'])
    if rc == 0:
        # one JSON object per INPUT of each collected statement (none for a statement without inputs): runs are collapsed here,
        # the model side is tool_compdb_objects (statements without inputs and validation-only statements are not listed)
        try:
            res['compdb'] = []
            for x in json.loads(out):
                if not res['compdb'] or res['compdb'][-1] != int(x['command'][1:]): res['compdb'].append(int(x['command'][1:]))
        except Exception as ex: res['compdb'] = ('ERR', 'json', str(ex)[:100])
    else: res['compdb'] = ('ERR', rc, err[-200:])      # e.g. no command edge reachable: an error message, not part of the model
    rc, out, err = call(['-t', 'inputs', '-d', '-E'])
    res['inputs'] = [idx[l] for l in out.split('\n') if l in idx] if rc == 0 else ('ERR', rc, err[-200:])
    return res

def coq_list(xs): return '[' + '; '.join(str(x) for x in xs) + ']'

def coq_case(c, r):
    idx = {n: i for i, n in enumerate(c['nodes'])}
    prod = {}
    for e, ed in enumerate(c['edges']):
        for o in ed['outs']: prod[idx[o]] = e
    eds = []
    for ed in c['edges']:
        ins = [idx[n] for n in ed['exp'] + ed['imp'] + ed['oo']]
        eds.append('mkEdge %s %d %d %s %s %s false false DepsNone 0' % (coq_list(ins), len(ed['imp']), len(ed['oo']), coq_list([idx[o] for o in ed['outs']]),
                                                                       coq_list([idx[n] for n in ed['val']]), 'true' if ed['phony'] else 'false'))
    g = '(mkGraph %d (fun e => nth e [%s] dflt) (fun n => nth n [%s] None) (fun _ => false))' % (
        len(eds), '; '.join(eds), '; '.join(('Some %d' % prod[i]) if i in prod else 'None' for i in range(len(c['nodes']))))
    opt = lambda v: 'None' if isinstance(v, tuple) else 'Some ' + coq_list(v)
    return '(%s, %s, %d, (%s, %s, %s, %s))' % (g, coq_list([idx[t] for t in c['targets']]), len(c['nodes']),
                                               opt(r['commands']), coq_list(r['single']) if not isinstance(r['single'], tuple) else '[]', opt(r['compdb']), opt(r['inputs']))

CASES_HEAD = """From NinjaV Require Import Base.Bytes Engine.ScanDefs Engine.ToolsDefs.
Local Open Scope nat_scope.
Definition dflt := mkEdge [] 0 0 [] [] false false false DepsNone 0.
Definition leqb (a b : list nat) : bool := if list_eq_dec Nat.eq_dec a b then true else false.
Definition oeqb (a b : option (list nat)) : bool :=
  match a, b with Some x, Some y => leqb x y | None, None => true | _, _ => false end.
(* tool numbers: 1 commands, 2 commands -s, 3 compdb-targets (compared only when the binary answered), 4 inputs -d *)
Definition diff (i : nat) (c : graph * list nat * nat * (option (list nat) * list nat * option (list nat) * option (list nat))) : list (nat * nat) :=
  let '(g, ts, nn, (ec, es, ed, ei)) := c in
  (if oeqb (tool_commands g ts) ec then [] else [(i, 1)]) ++
  (if leqb (tool_commands_single g ts) es then [] else [(i, 2)]) ++
  (match ed with
   | Some _ => if oeqb (tool_compdb_objects g ts) ed then [] else [(i, 3)]
   | None => [] end) ++
  (if oeqb (tool_inputs g nn ts) ei then [] else [(i, 4)]).
Fixpoint diffs (i : nat) (l : list _) : list (nat * nat) :=
  match l with [] => [] | c :: l' => diff i c ++ diffs (S i) l' end.
"""

def run_model(pairs, workdir):
    """pairs: [(case, real answers)] -> list of (case index, tool number) on which the model differs; raises on coqc failure"""
    ok, out = vlib.build_coq(['Engine/ToolsDefs.vo'])
    if not ok: raise vlib.BuildError('Engine/ToolsDefs.v no longer compiles:\n' + out[-2000:])
    res = []
    for sh in range(0, len(pairs), 150):
        chunk = pairs[sh:sh + 150]
        src = CASES_HEAD + 'Definition cases := [\n' + ';\n'.join(coq_case(c, r) for c, r in chunk) + '\n].\nEval vm_compute in diffs 0 cases.\n'
        f = os.path.join(workdir, 'cases%d.v' % sh)
        open(f, 'w').write(src)
        p = subprocess.run(['timeout', '600', 'coqc', '-Q', vlib.COQ, 'NinjaV', f], stdout=subprocess.PIPE, stderr=subprocess.STDOUT, cwd=workdir)
        txt = p.stdout.decode(errors='replace')
        m = re.search(r'=\s*(\[.*?\])\s*:\s*list', txt, flags=re.S)
        if p.returncode != 0 or not m: raise RuntimeError('coqc on the generated cases failed: ' + txt[-1500:])
        res += [(sh + int(a), int(b)) for a, b in re.findall(r'\((\d+),\s*(\d+)\)', m.group(1))]
    return res

TOOL = {1: 'commands', 2: 'commands -s', 3: 'compdb-targets', 4: 'inputs -d'}

def check(seed, n, ninja=None):
    ninja = ninja or os.path.join(vlib.build_impl('plain'), 'ninja')
    rnd = random.Random(seed * 7919 + 19)
    d = tempfile.mkdtemp(prefix='verif-tools-', dir='/dev/shm' if os.path.isdir('/dev/shm') else None)
    st = collections.Counter(); mism = []
    try:
        pairs = []
        for i in range(n):
            c = gen_case(rnd); r = run_real(ninja, c, d); pairs.append((c, r))
            st['cases'] += 1; st['statements'] += len(c['edges']); st['phony statements'] += sum(e['phony'] for e in c['edges'])
            for k in ('commands', 'single', 'compdb', 'inputs'):
                if isinstance(r[k], tuple): st['binary refused: ' + k] += 1
                else: st['listed by ' + k] += len(r[k])
            if isinstance(r['commands'], list) and len(r['commands']) >= 3: st['listings of 3+ commands'] += 1
        for i, t in run_model(pairs, d):
            c, r = pairs[i]
            mism.append(dict(case=i, tool=TOOL[t], manifest=manifest(c), targets=c['targets'], real=repr(r[{1: 'commands', 2: 'single', 3: 'compdb', 4: 'inputs'}[t]])))
    finally:
        shutil.rmtree(d, ignore_errors=True)
    return mism, dict(st)

def hook(ctx):
    n = 250 if ctx.quick() else 3000
    try:
        mism, st = check(ctx.seed, n)
    except (RuntimeError, vlib.BuildError) as ex:
        ctx.corr_broken.append('tools model (ToolsDefs) could not be evaluated: %s' % str(ex)[:300]); return
    for m in mism[:5]:
        # a difference between model and binary on a listing IS a concrete input: the theorems of Properties_C19tools.v
        # speak about the model's answer, the binary gave another one for this manifest
        ctx.violation('tools-listing', '# manifest\n%s\n# targets %s\n# tool -t %s\n# real binary printed %s\n' % (m['manifest'], ' '.join(m['targets']), m['tool'], m['real']),
                      'ninja -t %s %s lists %s, the model of PrintCommands/CommandCollector/InputsCollector (ToolsDefs.v, theorems C19_commands_*) another list for the same manifest' % (m['tool'], ' '.join(m['targets']), m['real'][:120]))
    ctx.cov['tools_model_correspondence'] = dict(st, mismatches=len(mism))
    ctx.cov['evaluations'] = ctx.cov.get('evaluations', 0) + 4 * st.get('cases', 0)

if __name__ == '__main__':
    seed = int(sys.argv[1]) if len(sys.argv) > 1 else 1; n = int(sys.argv[2]) if len(sys.argv) > 2 else 200
    mism, st = check(seed, n)
    print(json.dumps(st, indent=1))
    for m in mism[:10]: print('MISMATCH', json.dumps(m, indent=1))
    print('%d mismatches' % len(mism))
    sys.exit(1 if mism else 0)
