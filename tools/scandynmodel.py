"""Correspondence between the extracted scan model WITH scan-time dyndep loads (coq/Engine/ScanDynDefs.v,
binary `scandyn_run`) and the real DependencyScan/DyndepLoader/Plan as driven by harness/run_engine.cc, for
histories WITH dyndep information.  Everything that is not dyndep is scanmodel.py's (imported, unchanged).

The model input is scanmodel.model_input's line plus
   Y=<edge:ddnode,..>   the `dyndep =` bindings
   O=<ddnode:e+e..,..>  Node::out_edges() of every dyndep node as the manifest parser leaves it
   X=<ddnode:b | ddnode:p:edge/outs/ins/restat;.. ,..>  what DyndepParser makes of the file ON DISK before the scan
                         (absent = no such file; b = rejected by the parser for a graph reason)
Builds whose dyndep file on disk is outside the `engine.dd_text` shape (malformed files: C11's own generator) or
names an output that only another dyndep file produces are skipped and counted.

  check_all(hists[, parsed, raw]) -> (mismatches, stats)
  check(h, builds, raw)           -> list of mismatch strings
  python3 scandynmodel.py [seed [n_random [n_cycle]]]"""
import os, re, sys, copy, collections
sys.path.insert(0, os.path.dirname(os.path.abspath(__file__)))
import vlib, engine, enginecheck, scanmodel
from engine import uh

_BASE_MODEL_INPUT = scanmodel.model_input

def model_binary():
    b = os.environ.get('SCANDYNMODEL_BIN')
    if b: return b
    return os.path.join(os.path.dirname(vlib.build_model()), 'scandyn_run')

def run_model(lines):
    rc, out, err = vlib.run_lines(model_binary(), 'scandyn', lines, timeout=900)
    if rc != 0 or len(out) != len(lines):
        raise RuntimeError('scandyn_run failed rc=%s got %d/%d lines: %s' % (rc, len(out), len(lines), err[-500:]))
    return out

# ------------------------------------------------------------------ the dyndep file on disk
BUILD_RE = re.compile(r'^build (\S+)((?: \| (?:\S+)(?: \S+)*)?): dyndep((?: \| (?:\S+)(?: \S+)*)?)$')
def parse_ddfile(text):
    """-> list of (out, imp_outs, imp_ins, restat) or None when the text is not of the shape engine.dd_text writes"""
    lines = text.split('\n')
    if not text.endswith('\n') or lines[0] != 'ninja_dyndep_version = 1': return None
    res = []
    for l in lines[1:-1]:
        if l.startswith('  restat = ') and len(l) > len('  restat = '):
            if not res or res[-1][3]: return None
            res[-1] = res[-1][:3] + (True,)
            continue
        m = BUILD_RE.match(l)
        if not m: return None
        io = m.group(2)[3:].split() if m.group(2) else []
        ii = m.group(3)[3:].split() if m.group(3) else []
        res.append((m.group(1), io, ii, False))
    return res

def manifest_order(g):
    """indices into g.edges in the order of State::edges_ (statements of part.ninja come last)"""
    return [k for k, e in enumerate(g.edges) if not g.in_part(e)] + [k for k, e in enumerate(g.edges) if g.in_part(e)]

# ------------------------------------------------------------------ model input
def model_input(g, targets, files, log, deps, hashes):
    """same signature as scanmodel.model_input; c.skip is set (and line is None) when the build is out of scope"""
    dds = []
    for e in g.edges:
        if e.dyndep and e.dyndep not in dds: dds.append(e.dyndep)
    parsed = {}; extra = []; skip = None
    # the generator's `sethidden` step may add order-only inputs to the ground truth ahead of the next manifest rewrite
    # (for a split graph the statement may live in part.ninja: compare both files)
    if ('build.ninja' in files and files['build.ninja'][1] != g.manifest()) or \
       (g.is_split() and 'part.ninja' in files and files['part.ninja'][1] != g.manifest(part=True)):
        skip = 'ground truth ahead of the manifest on disk'
    manifest_out = {}
    for k, e in enumerate(g.edges):
        for o in e.outs: manifest_out.setdefault(o, k)
    dyn_outs = set()
    for dd in dds:
        if dd not in files: continue
        p = parse_ddfile(files[dd][1])
        if p is None: skip = 'malformed dyndep file'; continue
        parsed[dd] = p
        for out, io, ii, rs in p:
            extra += [out] + io + ii; dyn_outs |= set(io)
    X = {}
    for dd, p in parsed.items():
        seen = set(); ents = []
        for out, io, ii, rs in p:
            if out not in manifest_out:
                if out in dyn_outs: skip = skip or 'dyndep file names a dyndep-discovered output'
                X[dd] = 'b'; break                      # no build statement exists for 'out'
            k = manifest_out[out]
            if k in seen: X[dd] = 'b'; break            # multiple statements for 'out'
            seen.add(k); ents.append((k, io, ii, rs))
        else: X[dd] = ents
    line, c = _BASE_MODEL_INPUT(g, list(targets) + [x for x in extra if x not in targets], files, log, deps, hashes)
    c.skip = skip; c.dds = dds; c.has_dd = bool(dds)
    if skip: return None, c
    ID = c.id
    j = lambda l: '+'.join(str(ID[x]) for x in l) if l else '-'
    w = line.split(' ')
    assert w[1].startswith('T=')
    w[1] = 'T=' + (','.join(str(ID[t]) for t in targets) or '-')
    Y = ','.join('%d:%d' % (k, ID[e.dyndep]) for k, e in enumerate(g.edges) if e.dyndep) or '-'
    order = manifest_order(g)
    O = []
    for dd in dds:
        oes = []
        for k in order:
            oes += [k] * scanmodel.edge_ins(g.edges[k])[0].count(dd)
        if oes: O.append('%d:%s' % (ID[dd], '+'.join(map(str, oes))))
    XS = []
    for dd in dds:
        if dd not in X: continue
        if X[dd] == 'b': XS.append('%d:b' % ID[dd])
        else: XS.append('%d:p:%s' % (ID[dd], ';'.join('%d/%s/%s/%d' % (k, j(io), j(ii), rs) for k, io, ii, rs in X[dd]) or '-'))
    c.X = X
    return ' '.join(w) + ' Y=%s O=%s X=%s' % (Y, ','.join(O) or '-', ','.join(XS) or '-'), c

def parse_model(out, c):
    w = out.split()
    if w[0] == 'dynerr':
        r = dict(kind='dynerr', what=w[1])
        if w[1] == 'load': r['dd'] = c.names[int(w[2])]
        elif w[1] == 'notmentioned': r['edge'] = int(w[2]); r['dd'] = c.names[int(w[3])]
        elif w[1] == 'extra': r['dd'] = c.names[int(w[2])]; r['edge'] = int(w[3])
        elif w[1] == 'multiple': r['node'] = c.names[int(w[2])]
        return r
    if w[0] != 'ok': return scanmodel.parse_model(out, c)
    kv = dict(x.split('=', 1) for x in w[1:])
    items = [] if kv['edges'] == '-' else kv['edges'].split(',')
    base = 'ok nodes=%s edges=%s wanted=%s commands=%s' % (kv['nodes'], ','.join(':'.join(it.split(':')[:8]) for it in items) or '-', kv['wanted'], kv['commands'])
    r = scanmodel.parse_model(base, c)
    for it in items:
        f = it.split(':')
        r['edges'][int(f[0])]['outs'] = [] if f[8] == '-' else [c.names[int(x)] for x in f[8].split('+')]
        r['edges'][int(f[0])]['restat'] = f[9] == '1'
    r['pending'] = set() if kv['pending'] == '-' else {c.names[int(x)] for x in kv['pending'].split(',')}
    return r

# ------------------------------------------------------------------ comparison
def compare(r, sn, c):
    g = c.g
    code, msg = sn.first_exit if sn.first_exit else (None, '')
    if r['kind'] == 'dynerr':
        if sn.has_snap: return ['impl scan ok, model says %s' % r]
        if r['what'] == 'multiple': ok = msg == 'multiple rules generate ' + r['node']
        elif r['what'] == 'load': ok = msg.startswith("loading '%s': " % r['dd']) or msg.startswith(r['dd'] + ':')
        elif r['what'] == 'notmentioned': ok = msg == "'%s' not mentioned in its dyndep file '%s'" % (g.edges[r['edge']].out0, r['dd'])
        else: ok = msg.startswith("dyndep file '%s' mentions output '" % r['dd']) and msg.endswith('does not have a dyndep binding for the file')
        return [] if ok else ['dyndep load error: impl %r model %s' % (msg, r)]
    if r['kind'] != 'ok' or not sn.has_snap: return scanmodel.compare(r, sn, c)
    # restat as the load left it is the model's business: compare it here and give scanmodel.compare the model's value as "ground truth"
    c2 = copy.copy(c); c2.g = copy.copy(g); c2.g.edges = []
    for k, e in enumerate(g.edges):
        e2 = copy.copy(e); e2.restat = r['edges'][k]['restat']; c2.g.edges.append(e2)
    bad = scanmodel.compare(r, sn, c2)
    for k, e in enumerate(g.edges):
        ie = sn.edges.get(e.out0)
        if ie is None: continue
        if ie['outs'] != r['edges'][k]['outs']: bad.append('edge %s outs: impl %s model %s' % (e.out0, ie['outs'], r['edges'][k]['outs']))
        if e.dyndep and 'ddpend' in ie:
            if (ie['ddpend'] == '1') != (e.dyndep in r['pending']): bad.append('edge %s dyndep_pending of %s: impl %s model %s' % (e.out0, e.dyndep, ie['ddpend'], e.dyndep in r['pending']))
    return bad

# ------------------------------------------------------------------ driver
def parse_snaps(raw):
    """scanmodel.parse_snaps plus the `ddpend` field of `snap edge`"""
    res = scanmodel.parse_snaps(raw)
    cur = None; i = -1
    for l in raw:
        w = l.split()
        if not w: continue
        if w[0] == 'scenario': cur = res.get(w[1]); i = -1
        elif w[0] in ('build', 'clean') and len(w) == 2 and cur is not None: i += 1
        elif w[0] == 'snap' and w[1] == 'edge' and cur is not None and 0 <= i < len(cur):
            kv = dict(x.split('=', 1) for x in w[3:])
            d = cur[i].edges.get(uh(w[2]))
            if d is not None and 'ddpend' in kv: d['ddpend'] = kv['ddpend']
    return res

def prepare(h, builds, snaps):
    """scanmodel.prepare with this module's model_input -> list of (step, Build, Snap, line|None, ctx)"""
    orig = scanmodel.model_input
    scanmodel.model_input = model_input
    try: return scanmodel.prepare(h, builds, snaps)
    finally: scanmodel.model_input = orig

def has_dyndep(h):
    return bool(h.g0.dd_info) or any(getattr(s_, 'g', None) is not None and (s_.g.dd_info or any(e.dyndep for e in s_.g.edges)) for s_ in h.steps)

def account(r, sn, c, stats):
    stats['builds'] += 1; stats['result:' + r['kind'] + (':' + r['what'] if r['kind'] == 'dynerr' else '')] += 1
    if r['kind'] == 'ok':
        g = c.g
        loaded = [dd for dd in c.dds if dd not in r['pending']]
        visited_pending = [dd for dd in c.dds if dd in r['pending'] and any(e.dyndep == dd and r['edges'][k]['mark'] == 2 for k, e in enumerate(g.edges))]
        if loaded: stats['builds with a scan-time load'] += 1
        if visited_pending: stats['builds with a visited statement left pending'] += 1
        stats['scan-time loads'] += len(loaded); stats['pending after visit'] += len(visited_pending)
        prod = {o: e for e in g.edges for o in e.outs}
        stats['loads of a produced (clean) file'] += sum(1 for dd in loaded if dd in prod)
        stats['loads of a source file'] += sum(1 for dd in loaded if dd not in prod)
        for k, e in enumerate(g.edges):
            me = r['edges'][k]
            if len(me['outs']) > len(e.outs): stats['edges with outputs added'] += 1
            if me['restat'] and not e.restat and not e.phony: stats['edges with restat from the file'] += 1
            if e.dyndep and e.dyndep in loaded and len(me['ins']) > len(scanmodel.edge_ins(e)[0]): stats['edges with inputs spliced (dyndep or deps)'] += 1

def check_all(hists, parsed=None, raw=None, stats=None):
    """hists: enginecheck.Hist list (those without dyndep are ignored); parsed/raw: result of enginecheck.run_hists
    (the scenarios are run when omitted) -> (mismatches, stats)"""
    stats = stats if stats is not None else collections.Counter()
    hists = [h for h in hists if has_dyndep(h)]
    if raw is None:
        rc, parsed, err, raw = enginecheck.run_hists(hists)
        if rc != 0: raise RuntimeError('impl_run engine rc=%s: %s' % (rc, err[-800:]))
    snaps = parse_snaps(raw) if raw and isinstance(raw[0], str) else raw
    alljobs = []
    for h in hists:
        for j in prepare(h, parsed.get(h.sid, []), snaps.get(h.sid, [])):
            if j[3] is None: stats['skipped: ' + (j[4].skip or '?')] += 1
            elif not j[4].has_dd: stats['skipped: no dyndep binding in this build'] += 1
            else: alljobs.append((h,) + j)
    outs = run_model([j[4] for j in alljobs]) if alljobs else []
    bad = []
    for (h, st, b, sn, line, c), out in zip(alljobs, outs):
        r = parse_model(out, c)
        account(r, sn, c, stats)
        ms = compare(r, sn, c)
        if ms:
            stats['mismatching builds'] += 1
            for m in ms: bad.append((h, '%s: %s   [model line: %s]' % (h.sid, m, line)))
    stats['mismatching builds'] += 0
    return bad, stats

def check(h, builds, raw):
    bad, _ = check_all([h], {h.sid: builds}, raw)
    return [m for _, m in bad]

def selftest(seed=1, nrandom=300, ncycle=300, verbose=True):
    import random
    rnd = random.Random(seed)
    FE = [dict(dyndep=1.0), dict(dyndep=1.0, deps=0.5), dict(dyndep=1.0, restat=0.5, orderonly=0.6), dict(dyndep=1.0, phony=0.4, validations=0.4),
          dict(dyndep=1.0, multiout=0.5, impout=0.4, implicit=0.6), dict(dyndep=1.0, deps=0.7, restat=0.4, validations=0.3)]
    hs = [enginecheck.gen_history(rnd, 'sd%d_%d' % (seed, i), rnd.randrange(1, 10), rnd.randrange(2, 9), feat=rnd.choice(FE),
                                  faults=rnd.choice([0.0, 0.3]), wf_reads=rnd.random() < 0.6) for i in range(nrandom)]
    cs = [enginecheck.gen_cycle_history(rnd, 'sdc%d_%d' % (seed, i)) for i in range(ncycle)]
    ps = []
    for i in range(nrandom // 4):
        a, b = enginecheck.gen_dyndep_pair(rnd, 'sdp%d_%d' % (seed, i)); ps.append(a)
    stats = collections.Counter(); bad = []
    allh = hs + cs + ps
    for i in range(0, len(allh), 50):
        b, stats = check_all(allh[i:i + 50], stats=stats)
        bad += b
    if verbose:
        print('scandynmodel selftest seed=%d: %d scenarios, %d mismatches' % (seed, len(allh), len(bad)))
        for k, v in sorted(stats.items()): print('  %-52s %d' % (k, v))
        for h, m in bad[:12]: print(m[:1200])
    return bad, stats

if __name__ == '__main__':
    a = [int(x) for x in sys.argv[1:]] + [1, 300, 300][len(sys.argv) - 1:]
    bad, stats = selftest(a[0], a[1], a[2])
    sys.exit(1 if bad else 0)
