#!/usr/bin/env python3
"""C18: ninja's Cleaner (`-t clean` in all scopes, `-t cleandead`) against the Gallina model coq/Clean/CleanDefs.v
and against an independent oracle.

  gen_clean_history(rnd, sid)       one scenario (enginecheck.Hist): graph, builds, file/manifest mutations, clean
                                    steps of every scope kind (incl. -g, -n), repeated cleans, rebuilds
  directed_histories()              hand-written families (generator by target, -r phony, directory in the way, ...)
  cycle_histories()                 by-target cleaning on cyclic manifests (DoCleanTarget marks a node before it recurses: terminates)
  check_hists(hists, traces)        -> Report: model/impl differences, oracle failures (classified), statistics
  python3 tools/cleanmodel.py selftest [n] [seed]

The model binary is `clean_run` (coq/ExtractClean.v + extract/clean_run.ml): CLEAN_MODEL_RUN overrides; else the one
next to model_run (set_model_dir); else a private build in /tmp/work_C18.

Model input of a clean step = the generator's graph at that moment with the dyndep information of the dyndep files
that exist merged in (what Cleaner::LoadDyndeps does), the file tree right before the step (tracked from the state
dumps of the trace and the edit/rm steps in between), the build-log entries (cleandead).  Compared: the ORDER of the
successful RemoveFile calls (cleandead: the set — BuildLog::Entries is a hash map), cleaned_files_count(), the
return status, the resulting file tree.

The oracle does not go through the model: it computes the declarative scope as a set from the generator's Graph
objects and checks (1) only in-scope files removed, (2) every existing in-scope file removed (-n: counted, tree
unchanged), (3) no source file and no phony name removed, (4) no generator output removed without -g,
(5) count/status, (6) an immediately repeated clean removes nothing, (7) -n reports what the real run removes,
(8) after the next full successful build every cleaned output exists again."""
import copy, os, random, subprocess, sys, hashlib, shutil, collections

HERE = os.path.dirname(os.path.abspath(__file__))
sys.path.insert(0, HERE)
import vlib, engine, enginecheck as ec
from engine import hx
VERIF = os.path.dirname(HERE)

# ------------------------------------------------------------------------------ model binary
_BIN = None
_MODEL_DIR = None
def set_model_dir(d):
    global _MODEL_DIR, _BIN
    _MODEL_DIR = d; _BIN = None

def model_binary():
    global _BIN
    if _BIN: return _BIN
    if os.environ.get('CLEAN_MODEL_RUN'):
        _BIN = os.environ['CLEAN_MODEL_RUN']; return _BIN
    if _MODEL_DIR and os.path.exists(os.path.join(_MODEL_DIR, 'clean_run')):
        _BIN = os.path.join(_MODEL_DIR, 'clean_run'); return _BIN
    # private build: Base/Bytes.v + Clean/CleanDefs.v + ExtractClean.v + extract/clean_run.ml
    srcs = [os.path.join(VERIF, 'coq', 'Base', 'Bytes.v'), os.path.join(VERIF, 'coq', 'Clean', 'CleanDefs.v'),
            os.path.join(VERIF, 'coq', 'ExtractClean.v'), os.path.join(VERIF, 'extract', 'clean_run.ml')]
    h = hashlib.sha256(b''.join(open(p, 'rb').read() for p in srcs)).hexdigest()[:16]
    d = os.path.join('/tmp/work_C18', 'model-' + h)
    exe = os.path.join(d, 'clean_run')
    if not os.path.exists(exe):
        tmp = d + '.tmp%d' % os.getpid()
        shutil.rmtree(tmp, ignore_errors=True)
        base = os.path.join(tmp, 'NinjaV')
        os.makedirs(os.path.join(base, 'Base')); os.makedirs(os.path.join(base, 'Clean'))
        shutil.copy(srcs[0], os.path.join(base, 'Base')); shutil.copy(srcs[1], os.path.join(base, 'Clean'))
        shutil.copy(srcs[2], tmp); shutil.copy(srcs[3], tmp)
        for f in ('Base/Bytes.v', 'Clean/CleanDefs.v'):
            subprocess.run(['timeout', '600', 'coqc', '-Q', base, 'NinjaV', os.path.join(base, f)], check=True, cwd=tmp, stdout=subprocess.DEVNULL)
        subprocess.run(['timeout', '600', 'coqc', '-Q', base, 'NinjaV', 'ExtractClean.v'], check=True, cwd=tmp, stdout=subprocess.DEVNULL)
        subprocess.run(['ocamlfind', 'ocamlopt', '-w', '-a', 'cleanmodel.mli', 'cleanmodel.ml', 'clean_run.ml', '-o', 'clean_run'], check=True, cwd=tmp)
        shutil.rmtree(d, ignore_errors=True)
        os.rename(tmp, d)
    _BIN = exe
    return _BIN

# ------------------------------------------------------------------------------ graphs
class CGraph(engine.Graph):
    """engine.Graph whose statements may share a rule (e.rname): the per-statement attributes are then written as
    bindings of the build statement (the edge scope wins over the rule's binding)"""
    def rule_name(s, e):
        if e.phony: return 'phony'
        return getattr(e, 'rname', None) or 'r%d' % e.idx
    # csplit = k: the statements from position k on live in part.ninja, pulled in by `subninja`; that file RE-DECLARES the shared rules
    # its statements use (a same-named rule object in the child scope): `-t clean -r NAME` goes by the rule's name and must reach them too
    def in_cpart(s, e): return getattr(s, 'csplit', None) is not None and s.edges.index(e) >= s.csplit
    def is_split(s): return getattr(s, 'csplit', None) is not None
    def manifest(s, part=False):
        L = []
        if not part:
            for p, d in sorted(s.pools.items()): L += ['pool %s' % p, '  depth = %d' % d]
        def binds(e, ind):
            B = []
            if e.restat: B.append('restat = 1')
            if e.generator: B.append('generator = 1')
            if e.deps: B.append('deps = ' + e.deps)
            if e.depfile: B.append('depfile = ' + e.depfile)
            if e.rsp: B += ['rspfile = ' + e.rsp, 'rspfile_content = ' + (e.rspcontent() or '$nothing')]
            return [ind + b for b in B]
        seen = set()
        for e in s.edges:
            if e.phony or s.in_cpart(e) != part: continue
            rn = s.rule_name(e)
            if getattr(e, 'rname', None):
                if rn in seen: continue
                seen.add(rn)
                L += ['rule ' + rn, '  command = %s $out' % rn]
            else:
                L += ['rule ' + rn, '  command = ' + e.cmd()] + binds(e, '  ')
        if not part:
            for r in getattr(s, 'extra_rules', []):
                if r not in seen: L += ['rule ' + r, '  command = ' + r]
        for e in s.edges:
            if s.in_cpart(e) != part: continue
            outs = ' '.join(e.outs[:len(e.outs) - e.n_imp_out])
            if e.n_imp_out: outs += ' | ' + ' '.join(e.outs[len(e.outs) - e.n_imp_out:])
            l = 'build %s: %s' % (outs, s.rule_name(e))
            if e.exp: l += ' ' + ' '.join(e.exp)
            if e.imp: l += ' | ' + ' '.join(e.imp)
            if e.oo: l += ' || ' + ' '.join(e.oo)
            if e.vals: l += ' |@ ' + ' '.join(e.vals)
            L.append(l)
            if getattr(e, 'rname', None): L += binds(e, '  ')
            if e.pool: L.append('  pool = ' + e.pool)
            if e.dyndep: L.append('  dyndep = ' + e.dyndep)
        if not part and s.is_split(): L.append('subninja part.ninja')
        if not part and s.defaults: L.append('default ' + ' '.join(s.defaults))
        return '\n'.join(L) + '\n'
    def declared_rules(s):
        # what `-t clean -r NAME` can find: the rules of the TOP-LEVEL file (a rule declared only inside the subninja file is unknown there)
        return {'phony'} | {s.rule_name(e) for e in s.edges if not e.phony and not s.in_cpart(e)} | set(getattr(s, 'extra_rules', []))

FEAT = dict(implicit=0.4, orderonly=0.35, multiout=0.35, impout=0.2, phony=0.25, restat=0.2, generator=0.3, alias=0.4,
            deps=0.45, validations=0.12, pools=0.0, rsp=0.3, dyndep=0.0, subdirs=0.3)

def gen_clean_graph(rnd, nedges=None, feat=None):
    f = dict(FEAT); f.update(feat or {})
    g0 = engine.gen_graph(rnd, nedges or rnd.randrange(2, 9), f)
    g = CGraph(); g.__dict__.update(g0.__dict__)
    g.defaults = []
    for e in g.edges:
        if e.pool: e.pool = ''
    for _ in range(rnd.choice([0, 0, 1, 1, 2])):
        keep = copy.deepcopy(g.__dict__)
        engine.add_dyndep(rnd, g)
        # a statement has ONE dyndep binding: a second file re-binding an already bound statement is not a valid setup
        if any(e.dyndep != dd for dd, info in g.dd_info.items() for e in g.edges if e.out0 in info and not e.phony and dd not in e.outs):
            g.__dict__.update(keep)
    # statements sharing a rule
    ne = [e for e in g.edges if not e.phony and e.idx < 900]
    if rnd.random() < 0.6:
        for e in ne:
            if rnd.random() < 0.6: e.rname = rnd.choice(['cc', 'ld'])
    # a source "declared" by a phony statement without inputs (a common idiom for optional headers)
    if rnd.random() < 0.25:
        pe = engine.Edge(800); pe.phony = True; pe.outs = ['hdr800']; g.edges.append(pe)
        if rnd.random() < 0.8: g.sources['hdr800'] = 'declared-header'
        if ne and rnd.random() < 0.7: rnd.choice(ne).imp.append('hdr800')
    g.extra_rules = ['unused'] if rnd.random() < 0.2 else []
    # a suffix of the statements moved into a subninja file that re-declares the shared rules it uses (all its non-phony statements
    # must use a shared rule, and the top-level file declares every such name as well, if need be as an otherwise unused rule)
    cands = [k for k in range(1, len(g.edges)) if all(e.phony or getattr(e, 'rname', None) for e in g.edges[k:]) and any(not e.phony for e in g.edges[k:])]
    if cands and rnd.random() < 0.5:
        g.csplit = rnd.choice(cands)
        top = {e.rname for e in g.edges[:g.csplit] if not e.phony and getattr(e, 'rname', None)}
        for e in g.edges[g.csplit:]:
            if not e.phony and e.rname not in top and e.rname not in g.extra_rules: g.extra_rules.append(e.rname)
    return g

class Loaded:
    """the graph as the Cleaner sees it after LoadDyndeps(): dyndep information merged for the dyndep files that
    exist in `files`"""
    def __init__(s, g, files):
        s.g = g; s.edges = []
        for e in g.edges:
            outs = list(e.outs); ii = []
            if e.dyndep and s.dd_ok(e.dyndep, files) and e.dyndep in g.dd_info and e.out0 in g.dd_info[e.dyndep]:
                io, ii, rs = g.dd_info[e.dyndep][e.out0]
                outs += io
            ins = e.exp + e.imp + list(ii) + e.oo
            s.edges.append((e, outs, ins))
        s.prod = {}
        for e, outs, ins in s.edges:
            for o in outs: s.prod.setdefault(o, (e, outs, ins))
        s.consumed = {i for e, outs, ins in s.edges for i in ins}
        s.nodes = set(s.prod) | s.consumed | {v for e in g.edges for v in e.vals}
    @staticmethod
    def dd_ok(dd, files):
        # the dyndep file exists and holds dyndep text (not the garbage a failed command left behind)
        return dd in files and (not isinstance(files, dict) or files[dd].startswith('ninja_dyndep_version'))
    @staticmethod
    def aux(e):
        return ([e.depfile] if e.depfile else []) + ([e.rsp] if e.rsp else [])

# ------------------------------------------------------------------------------ histories
def clean_line(mode, gen=False, dry=False, names=()):
    l = 'step clean mode=%s generator=%d dry=%d' % (mode, 1 if gen else 0, 1 if dry else 0)
    if names: l += ' names=' + ','.join(hx(n) for n in names)
    return l

def canon(n):
    """the canonical form of the few non-canonical spellings used here"""
    while n.startswith('./'): n = n[2:]
    return n.replace('//', '/')

def add_clean(h, mode, gen=False, dry=False, names=(), **kw):
    st = ec.Step('clean', clean_line(mode, gen, dry, names), g=copy.deepcopy(h.g), mode=mode, gen=gen, dry=dry,
                 names=list(names), **kw)
    h.add(st); return st

def pick_names(rnd, g, mode):
    if mode == 'targets':
        outs = [o for e in g.edges for o in e.outs]
        ddo = [o for info in g.dd_info.values() for (io, ii, rs) in info.values() for o in io]
        pool = outs * 3 + ddo * 2 + sorted(g.sources) + ['nosuch']
        names = [rnd.choice(pool) for _ in range(rnd.choice([1, 1, 1, 2, 2, 3]))]
        if rnd.random() < 0.1: names.append(names[0])
        if rnd.random() < 0.1: names[0] = './' + names[0]
        if rnd.random() < 0.03: names.append('')
        return [n for n in names if n != ''] or [outs[0]]
    rules = sorted(g.declared_rules())
    pool = [r for r in rules if r != 'phony'] * 3 + ['phony', 'nosuchrule']
    return [rnd.choice(pool) for _ in range(rnd.choice([1, 1, 2, 3]))]

def full_build(h, rnd, faults=None, targets=None):
    return h.build(rnd, targets, j=rnd.choice([1, 2, 4]), k=rnd.choice([1, 0]), sched=ec.rand_sched(rnd, 2 * len(h.g.edges) + 2),
                   faults=faults or None)

def mutate_manifest(rnd, h):
    """remove / rename a statement (not one tied to a dyndep file); returns a tag or None"""
    g = h.g
    bound = {e.idx for e in g.edges if e.dyndep}
    cands = [e for e in g.edges if e.idx < 800 and e.idx not in bound]
    if len(cands) < 1 or len(g.edges) < 2: return None
    e = rnd.choice(cands)
    kind = rnd.choice(['remove', 'remove', 'rename', 'rename-all'])
    if kind == 'remove':
        g.edges.remove(e)
        for x in g.edges: x.vals = [v for v in x.vals if v not in e.outs]
    else:
        k = rnd.randrange(len(e.outs)); old = e.outs[k]; new = old + '_r'
        e.outs[k] = new
        for x in g.edges:
            x.vals = [new if v == old else v for v in x.vals]
            if kind == 'rename-all' or rnd.random() < 0.5:
                for a in ('exp', 'imp', 'oo'): setattr(x, a, [new if v == old else v for v in getattr(x, a)])
                x.hidden = [new if v == old else v for v in x.hidden]
        if kind == 'rename-all':
            for info in g.dd_info.values():
                for o0 in list(info):
                    io, ii, rs = info[o0]; info[o0] = (io, [new if v == old else v for v in ii], rs)
            for dd in list(g.ddtext): g.ddtext[dd] = engine.dd_text(g.dd_info[dd])
            for dd in g.dd_info:
                if dd in g.sources: g.sources[dd] = engine.dd_text(g.dd_info[dd])
    h.rewrite_manifest()
    for dd, t in g.ddtext.items():
        h.add(ec.Step('setdd', 'step setdd %s %s' % (hx(dd), hx(t))))
        # a produced dyndep file whose text changed is regenerated by the next build; until then it is absent
        # (a stale one would name nodes the generator's description no longer knows)
        if kind == 'rename-all': h.add(ec.Step('rm', 'step rm %s' % hx(dd), path=dd))
    for dd in g.dd_info:
        if dd in g.sources and h.sources.get(dd) != g.sources[dd]: h.edit(dd, g.sources[dd])
    return kind

def gen_clean_history(rnd, sid, feat=None):
    g = gen_clean_graph(rnd, feat=feat)
    h = ec.Hist(sid, g)
    ne = [e for e in g.edges if not e.phony]
    r = rnd.random()
    if r < 0.78:
        fl = {}
        if rnd.random() < 0.15 and ne:
            e = rnd.choice(ne); fl[e.out0] = (1, rnd.random() < 0.5)
        full_build(h, rnd, faults=fl)
    elif r < 0.92:
        outs = [e.out0 for e in g.edges]
        full_build(h, rnd, targets=rnd.sample(outs, rnd.randrange(1, min(3, len(outs)) + 1)))
    def mutations():
        for _ in range(rnd.choice([0, 0, 1, 1, 2, 3])):
            x = rnd.random(); ne = [e for e in h.g.edges if not e.phony]
            if x < 0.3 and ne:
                e = rnd.choice(ne); o = rnd.choice(e.outs); h.add(ec.Step('rm', 'step rm %s' % hx(o), path=o))
            elif x < 0.4:
                es = [e for e in ne if e.depfile]
                if es: e = rnd.choice(es); h.add(ec.Step('rm', 'step rm %s' % hx(e.depfile), path=e.depfile))
            elif x < 0.5 and h.g.dd_info:
                dd = rnd.choice(sorted(h.g.dd_info)); h.add(ec.Step('rm', 'step rm %s' % hx(dd), path=dd))
            elif x < 0.62:
                # files a killed command leaves behind: its response file, the depfile of a deps= statement
                es = [(e, e.rsp) for e in ne if e.rsp] + [(e, e.depfile) for e in ne if e.depfile and e.deps]
                if es: e, f = rnd.choice(es); h.add(ec.Step('edit', 'step edit %s %s' % (hx(f), hx('leftover')), path=f))
            elif x < 0.9:
                if mutate_manifest(rnd, h) and rnd.random() < 0.6: full_build(h, rnd)
            elif x < 0.93:
                h.add(ec.Step('droplog', 'step droplog'))
    mutations()
    for rounds in range(rnd.choice([1, 1, 2])):
        g = h.g
        mode = rnd.choice(['all', 'all', 'targets', 'targets', 'rules', 'dead', 'dead'])
        gen = mode == 'all' and rnd.random() < 0.4
        if mode == 'dead' and rnd.random() < 0.7:
            # cleandead situations: a statement removed / renamed since the build that filled the log
            if mutate_manifest(rnd, h) and rnd.random() < 0.5: full_build(h, rnd)
            g = h.g
        names = pick_names(rnd, g, mode) if mode in ('targets', 'rules') else []
        x = rnd.random()
        if x < 0.3:
            add_clean(h, mode, gen, True, names)
            if rnd.random() < 0.8: add_clean(h, mode, gen, False, names, twin_of_dry=True)
        else:
            add_clean(h, mode, gen, False, names)
        if rnd.random() < 0.35: add_clean(h, mode, gen, rnd.random() < 0.2, names, repeat=True)
        if rnd.random() < 0.85: full_build(h, rnd)
        if rounds == 0 and rnd.random() < 0.5: mutations()
    return h

def _mk(sid, edges, sources, extra_rules=()):
    g = CGraph(); g.edges = edges; g.sources = dict(sources); g.extra_rules = list(extra_rules)
    return ec.Hist(sid, g)

def _edge(idx, outs, exp=(), **kw):
    e = engine.Edge(idx); e.outs = list(outs); e.exp = list(exp)
    for k, v in kw.items(): setattr(e, k, v)
    return e

def directed_histories():
    """small hand-written scenarios, one per interesting corner of clean.cc"""
    rnd = random.Random(18)
    H = []
    def std():
        return [_edge(0, ['g.h'], ['s0'], generator=True),
                _edge(1, ['a.o', 'a.lst'], ['a.c'], imp=['g.h'], depfile='a.o.d', rname='cc'),
                _edge(2, ['b.o'], ['b.c'], deps='gcc', depfile='b.o.d', rname='cc'),
                _edge(3, ['prog'], ['a.o', 'b.o'], rsp='prog.rsp', rname='ld'),
                _edge(4, ['src.h'], [], phony=True),
                _edge(5, ['all'], ['prog', 'src.h'], phony=True)]
    src = {'s0': 's', 'a.c': 'a', 'b.c': 'b', 'src.h': 'hdr'}
    for k, (mode, gen, names) in enumerate([('all', False, []), ('all', True, []), ('targets', False, ['all']), ('targets', False, ['a.lst']),
                                            ('targets', False, ['g.h']), ('targets', False, ['s0', 'nosuch']), ('rules', False, ['cc']),
                                            ('rules', False, ['ld', 'nosuch']), ('rules', False, ['phony']), ('rules', False, ['r0']),
                                            ('dead', False, [])]):
        h = _mk('C18_dir_std%d' % k, std(), src)
        full_build(h, rnd)
        h.add(ec.Step('edit', 'step edit %s %s' % (hx('prog.rsp'), hx('leftover')), path='prog.rsp'))
        add_clean(h, mode, gen, True, names); add_clean(h, mode, gen, False, names, twin_of_dry=True)
        add_clean(h, mode, gen, False, names, repeat=True)
        full_build(h, rnd)
        H.append(h)
    # cleandead: a statement removed (output unused -> dead), one removed whose output is still consumed (now a source: kept),
    # one renamed
    for k in range(3):
        h = _mk('C18_dir_dead%d' % k, std(), src)
        full_build(h, rnd)
        g = h.g
        if k == 0: g.edges = [e for e in g.edges if e.idx not in (3, 5)]          # prog, all gone: prog is dead
        elif k == 1: g.edges = [e for e in g.edges if e.idx != 1]                  # a.o now a source (consumed by prog); a.lst dead
        else: g.edges[2].outs = ['b2.o']                                          # b.o renamed, prog still reads b.o -> kept
        h.rewrite_manifest()
        add_clean(h, 'dead', False, True); add_clean(h, 'dead', False, False, twin_of_dry=True); add_clean(h, 'dead', False, False, repeat=True)
        full_build(h, rnd)
        H.append(h)
    # a directory in the way of a dead build-log entry: RemoveFile fails, status 1
    h = _mk('C18_dir_stuck', [_edge(0, ['d'], ['s0'])], {'s0': 's'})
    full_build(h, rnd)
    h.add(ec.Step('rm', 'step rm %s' % hx('d'), path='d'))
    h.g.edges = [_edge(0, ['d/o'], ['s0'])]; h.rewrite_manifest()
    full_build(h, rnd)
    add_clean(h, 'dead', False, True); add_clean(h, 'dead', False, False, twin_of_dry=True)
    H.append(h)
    return H

def cycle_histories(n=6):
    """by-target cleaning on a cyclic manifest (nothing is built: a build would report the cycle; the outputs are placed as files).
    Ordinary scenarios: a crash of the Cleaner here is a violation"""
    H = []
    for k in range(n):
        es = [_edge(0, ['a'], ['b']), _edge(1, ['b', 'b2'], ['a' if k % 3 != 1 else 'c'], depfile='b.d'), _edge(2, ['c'], ['c' if k % 3 == 2 else 'a', 's'])]
        h = _mk('C18_cyc%d' % k, es, {'a': 'x', 'b': 'y', 'b2': 'y2', 'c': 'z', 'b.d': 'd', 's': 'src'})
        names = ['a' if k % 3 != 2 else 'c'] + (['c', 'a'] if k >= 3 else [])
        add_clean(h, 'targets', False, True, names); add_clean(h, 'targets', False, False, names, twin_of_dry=True)
        add_clean(h, 'targets', False, False, names, repeat=True)
        H.append(h)
    return H

# ------------------------------------------------------------------------------ pairing trace blocks with steps
def prefixes(p):
    parts = p.split('/'); return ['/'.join(parts[:i]) for i in range(1, len(parts))]

def blocks(h, bs):
    """[(step, Build, pre)] for build and clean steps; pre = dict(files={path: content}, dirs=set, log=set of names)
    right before the step"""
    files = {'build.ninja': h.g0.manifest()}
    if h.g0.is_split(): files['part.ninja'] = h.g0.manifest(part=True)
    files.update(h.g0.sources)
    dirs = set(); log = set(); res = []; i = 0
    for st in h.steps:
        if st.kind in ('edit', 'manifest'):
            w = st.line.split(); files[engine.uh(w[2])] = engine.uh(w[3]) if len(w) > 3 else ''
        elif st.kind == 'rm': files.pop(st.path, None)
        elif st.kind == 'droplog': log = set()
        elif st.kind in ('build', 'clean'):
            if i >= len(bs): break
            b = bs[i]; i += 1
            if b.kind != st.kind: break
            res.append((st, b, dict(files=dict(files), dirs=set(dirs), log=set(log))))
            if any(ev[0] == 'parse-error' for ev in b.events): continue
            files = {p: c for p, (m, c) in b.files.items()}
            for p in files: dirs.update(prefixes(p))
            log = set(b.log)
    return res

def clean_result(b):
    rc = cnt = None; removed = []
    for ev in b.events:
        if ev[0] == 'remove': removed.append(engine.uh(ev[1]))
        elif ev[0] == 'clean-result':
            kv = dict(x.split('=') for x in ev[1:]); rc = int(kv['rc']); cnt = int(kv['count'])
    return removed, cnt, rc

# ------------------------------------------------------------------------------ model side
def model_case(cid, st, pre):
    g = st.g; L = Loaded(g, pre['files'])
    rid = {'phony': 0}
    for r in sorted(g.declared_rules()): rid.setdefault(r, len(rid))
    decl = sorted(rid.values())
    hexl = lambda xs: ','.join(hx(x) for x in xs) if xs else '-'
    lines = ['case %s mode=%s dry=%d gen=%d' % (cid, st.mode, 1 if st.dry else 0, 1 if st.gen else 0)]
    for e, outs, ins in L.edges:
        lines.append('edge outs=%s ins=%s vals=%s phony=%d generator=%d rule=%d depfile=%s rspfile=%s' % (
            hexl(outs), hexl(ins), hexl(e.vals), 1 if e.phony else 0, 1 if (e.generator and not e.phony) else 0, rid.setdefault(g.rule_name(e), 500 + len(rid)),
            hx(e.depfile) if (e.depfile and not e.phony) else '-', hx(e.rsp) if (e.rsp and not e.phony) else '-'))
    lines.append('rules ' + ','.join(str(x) for x in decl))
    stuck = sorted(d for d in pre['dirs'] if d not in pre['files'])
    lines.append('files ' + hexl(sorted(pre['files'])))
    lines.append('stuck ' + hexl(stuck))
    if st.mode == 'targets': lines.append('args ' + hexl([canon(n) for n in st.names]))
    elif st.mode == 'rules':
        ids = []
        for n in st.names:
            if n not in rid: rid[n] = 1000 + len(rid)
            ids.append(rid[n])
        lines.append('args ' + ','.join(str(x) for x in ids))
    elif st.mode == 'dead': lines.append('args ' + hexl(sorted(pre['log'])))
    lines.append('run')
    return lines

def run_model(cases):
    """cases: {cid: lines}; returns {cid: dict(ok, removed, count, status, attempted, left)}"""
    if not cases: return {}
    data = '\n'.join(l for c in cases.values() for l in c) + '\n'
    p = subprocess.run([model_binary()], input=data.encode(), stdout=subprocess.PIPE, stderr=subprocess.PIPE, timeout=600)
    if p.returncode != 0: raise RuntimeError('clean_run failed: ' + p.stderr.decode(errors='replace')[-500:])
    res = {}
    unl = lambda s: [] if s == '-' else [engine.uh(x) for x in s.split(',')]
    for l in p.stdout.decode().split('\n'):
        w = l.split()
        if not w or w[0] != 'result': continue
        if w[2] == 'fuel': res[w[1]] = dict(ok=False); continue
        kv = dict(x.split('=', 1) for x in w[3:])
        res[w[1]] = dict(ok=True, removed=unl(kv['removed']), count=int(kv['count']), status=int(kv['status']),
                         attempted=unl(kv['attempted']), left=set(unl(kv['left'])))
    return res

def compare(st, b, pre, m):
    """model result m against the implementation's block b: list of differences"""
    removed, cnt, rc = clean_result(b)
    if cnt is None: return ['no clean-result line in the trace']
    if not m.get('ok'): return ['model ran out of fuel but the Cleaner returned (count=%s)' % cnt]
    d = []
    if st.dry:
        if removed: d.append('dry run removed %s' % removed)
    elif st.mode == 'dead':
        if sorted(removed) != sorted(m['removed']): d.append('removed set: impl %s, model %s' % (sorted(removed), sorted(m['removed'])))
    elif removed != m['removed']: d.append('removal order: impl %s, model %s' % (removed, m['removed']))
    # optional observation (harness line `ev clean-attempted <hex>...` = Cleaner::removed_): the attempted set, also with -n
    att = [ev for ev in b.events if ev[0] == 'clean-attempted']
    if att and sorted(engine.uh(x) for x in att[0][1:]) != sorted(m['attempted']):
        d.append('removed_ set: impl %s, model %s' % (sorted(engine.uh(x) for x in att[0][1:]), sorted(m['attempted'])))
    if cnt != m['count']: d.append('cleaned_files_count: impl %d, model %d' % (cnt, m['count']))
    if rc != m['status']: d.append('status: impl %d, model %d' % (rc, m['status']))
    post = set(b.files)
    if post & set(pre['files']) != m['left'] or post - set(pre['files']):
        d.append('file tree after: impl lost %s, model lost %s' % (sorted(set(pre['files']) - post), sorted(set(pre['files']) - m['left'])))
    return d

# ------------------------------------------------------------------------------ independent oracle
def scope(st, pre):
    """the declarative scope of a clean step as a set of paths (from the generator's description)"""
    g = st.g; L = Loaded(g, pre['files']); S = set()
    if st.mode == 'all':
        for e, outs, ins in L.edges:
            if e.phony or (e.generator and not st.gen): continue
            S |= set(outs) | set(L.aux(e))
    elif st.mode == 'targets':
        seen = set(); todo = [canon(n) for n in st.names if canon(n) in L.nodes]
        while todo:
            n = todo.pop()
            if n in seen: continue
            seen.add(n)
            if n in L.prod:
                e, outs, ins = L.prod[n]
                if not e.phony: S |= set(outs) | set(L.aux(e))
                todo += ins
    elif st.mode == 'rules':
        decl = g.declared_rules()
        for e, outs, ins in L.edges:
            if not e.phony and g.rule_name(e) in st.names and g.rule_name(e) in decl:
                S |= set(outs) | set(L.aux(e))
    elif st.mode == 'dead':
        for p in pre['log']:
            if p not in L.nodes or (p not in L.prod and p not in L.consumed): S.add(p)
    return S, L

def oracle(h, st, b, pre):
    """-> list of (kind, text); kinds: scope, complete, source, phony, generator, count, status, tree"""
    removed, cnt, rc = clean_result(b)
    if cnt is None: return []
    S, L = scope(st, pre); bad = []
    files = set(pre['files']); stuck = {d for d in pre['dirs'] if d not in files}
    post = set(b.files)
    gone = files - post
    if post - files: bad.append(('tree', 'files appeared during cleaning: %s' % sorted(post - files)))
    if set(removed) != gone: bad.append(('tree', 'RemoveFile succeeded on %s but the tree lost %s' % (sorted(removed), sorted(gone))))
    out = [p for p in gone if p not in S]
    if out: bad.append(('scope', 'removed outside the scope of `%s`: %s' % (st.line.split(' ', 2)[2][:60], sorted(out))))
    if st.dry:
        if gone: bad.append(('complete', 'dry run changed the tree: %s' % sorted(gone)))
        want = len([p for p in S if p in files or p in stuck])
        if cnt != want: bad.append(('count', 'dry run reports %d files, %d in-scope files exist' % (cnt, want)))
    else:
        left = [p for p in S if p in files and p in post]
        if left: bad.append(('complete', 'existing in-scope files not removed: %s' % sorted(left)))
        if cnt != len(removed): bad.append(('count', 'count %d but %d files removed' % (cnt, len(removed))))
    # sources / phony names / generator outputs (ground truth of the generator, whatever the scope says)
    auxs = {a for e, outs, ins in L.edges if not e.phony for a in L.aux(e)}
    srcs = {n for n in h.g0.sources if n not in L.prod and n not in auxs} | {n for n in L.nodes if n not in L.prod and n in L.consumed}
    phony = {o for e, outs, ins in L.edges if e.phony for o in outs}
    gens = {o for e, outs, ins in L.edges if e.generator and not e.phony for o in outs}
    x = sorted(p for p in gone if p in phony)
    if x: bad.append(('phony', 'phony name removed: %s' % x))
    x = sorted(p for p in gone if p in srcs and p not in phony)
    if x: bad.append(('source', 'source file removed: %s' % x))
    if not (st.mode == 'all' and st.gen) and st.mode != 'dead':
        x = sorted(p for p in gone if p in gens)
        if x: bad.append(('generator', 'generator output removed without -g (%s): %s' % (st.mode, x)))
    # status
    unknown = (st.mode == 'targets' and any(canon(n) not in L.nodes for n in st.names)) or \
              (st.mode == 'rules' and any(n not in st.g.declared_rules() for n in st.names))
    fails = (not st.dry) and any(p in stuck for p in S)
    if rc != (1 if (unknown or fails) else 0):
        bad.append(('status', 'status %d, expected %d (unknown name: %s, unremovable in scope: %s)' % (rc, 1 if (unknown or fails) else 0, unknown, fails)))
    return bad

def oracle_seq(h, blks, k, stats=None):
    """oracles relating the clean block k to its neighbours: repeated clean, dry twin, rebuild"""
    st, b, pre = blks[k]; bad = []
    if stats is None: stats = collections.Counter()
    removed, cnt, rc = clean_result(b)
    if cnt is None: return bad
    if k > 0 and blks[k - 1][0].kind == 'clean' and blks[k - 1][0].line.replace('dry=1', 'dry=0') == st.line.replace('dry=1', 'dry=0') \
       and h.steps.index(st) == h.steps.index(blks[k - 1][0]) + 1:
        pst, pb, ppre = blks[k - 1]; premoved, pcnt, prc = clean_result(pb)
        if pcnt is not None:
            stuck = {d for d in pre['dirs'] if d not in pre['files']}
            stats['repeat-after-real' if not pst.dry else ('real-after-dry' if not st.dry else 'dry-after-dry')] += 1
            if not pst.dry and (removed or cnt != (len([p for p in scope(st, pre)[0] if p in stuck]) if st.dry else 0)):
                bad.append(('idempotent', 'the same clean repeated at once removed %s, count %d' % (removed, cnt)))
            if pst.dry and not st.dry and pcnt != cnt and not any(p in stuck for p in scope(st, pre)[0]):
                bad.append(('dryrun', '-n reported %d files, the real run removed %d' % (pcnt, cnt)))
    # rebuild
    if not st.dry and removed:
        for j in range(k + 1, len(blks)):
            nst, nb, npre = blks[j]
            if nst.kind != 'build': continue
            if h.steps.index(nst) != h.steps.index(st) + (j - k): break      # something else happened in between
            if nb.exit == 0 and not nst.targets and not nst.opts.get('faults'):
                L = Loaded(nst.g, {p: c for p, (mt, c) in nb.files.items()})
                outs = {o for e, os_, ins in L.edges if not e.phony for o in os_}
                stats['rebuild-checked'] += 1; stats['rebuild-checked-files'] += len([p for p in removed if p in outs])
                miss = sorted(p for p in removed if p in outs and p not in nb.files)
                if miss: bad.append(('rebuild', 'cleaned outputs not re-created by the following successful build: %s' % miss))
            break
    return bad

# known-finding classifiers: kind -> (id, predicate on the step)
FINDINGS = {
    'generator': ('clean-scoped-removes-generator', lambda st: st.mode in ('targets', 'rules')),
}

class Report:
    def __init__(s):
        s.corr = []; s.viol = []; s.known = {}; s.evals = 0; s.nontrivial = 0; s.modes = collections.Counter()
        s.samples = []; s.removed_total = 0; s.stats = collections.Counter()

def check_hists(hists, tr, crashes=(), known_ids=()):
    rep = Report()
    cases = {}; meta = {}
    crashed = {hh.sid: (rc, err) for hh, rc, err in crashes}
    for h in hists:
        bs = tr.get(h.sid)
        if bs is None or h.sid in crashed: continue
        blks = blocks(h, bs)
        for k, (st, b, pre) in enumerate(blks):
            if st.kind != 'clean': continue
            cid = '%s:%d' % (h.sid, k)
            cases[cid] = model_case(cid, st, pre); meta[cid] = (h, st, b, pre, blks, k)
    res = run_model(cases)
    for cid, (h, st, b, pre, blks, k) in meta.items():
        m = res.get(cid)
        rep.evals += 1; rep.modes[st.mode + ('-n' if st.dry else '') + ('-g' if st.gen else '')] += 1
        removed, cnt, rc = clean_result(b)
        if cnt: rep.nontrivial += 1; rep.removed_total += cnt
        if m is None: rep.corr.append((h, '%s: no model result' % cid)); continue
        d = compare(st, b, pre, m)
        if d: rep.corr.append((h, '%s `%s`: %s' % (cid, st.line[11:80], '; '.join(d[:3]))))
        bad = oracle(h, st, b, pre) + oracle_seq(h, blks, k, rep.stats)
        if cnt: rep.stats['removing:' + st.mode] += 1
        if rc: rep.stats['status1'] += 1
        for kind, text in bad:
            f = FINDINGS.get(kind)
            if f and f[0] in known_ids and f[1](st):
                rep.known.setdefault(f[0], 'id=%s %s (`%s`)' % (f[0], text, st.line[11:90]))
            else:
                rep.viol.append((kind, h, '%s block %d `%s`: %s' % (h.sid, k, st.line[11:90], text)))
        if len(rep.samples) < 3 and cnt:
            rep.samples.append({'scenario': h.sid, 'manifest': st.g.manifest()[:400], 'step': st.line, 'removed': removed, 'count': cnt, 'rc': rc})
    return rep

def run(hists, known_ids=()):
    rc, tr, err, out = ec.run_hists(hists)
    crashes = getattr(ec.run_hists, 'crashes', [])
    rep = check_hists(hists, tr, crashes, known_ids)
    for hh, crc, cerr in crashes:
        rep.viol.append(('engine-crash', hh, 'ninja died (rc=%s) in scenario %s' % (crc, hh.sid)))
    return rep

if __name__ == '__main__':
    if len(sys.argv) > 1 and sys.argv[1] == 'selftest':
        n = int(sys.argv[2]) if len(sys.argv) > 2 else 300; seed = int(sys.argv[3]) if len(sys.argv) > 3 else 1
        rnd = random.Random(seed)
        hs = [gen_clean_history(rnd, 'C18_%d_%d' % (seed, i)) for i in range(n)] + directed_histories() + cycle_histories()
        known = sys.argv[4].split(',') if len(sys.argv) > 4 else ()
        import time; t0 = time.time()
        rep = run(hs, known)
        print('evaluations', rep.evals, 'nontrivial', rep.nontrivial, 'removed', rep.removed_total, dict(rep.modes), '%.1fs' % (time.time() - t0))
        print('stats', dict(rep.stats))
        print('correspondence mismatches:', len(rep.corr))
        for h, t in rep.corr[:8]: print('  CORR', t)
        kinds = collections.Counter(k for k, h, t in rep.viol)
        print('oracle failures:', dict(kinds))
        seen = set()
        for k, h, t in rep.viol:
            if k in seen and len(sys.argv) <= 5: continue
            seen.add(k); print('  VIOL', k, t)
            open('/tmp/work_C18/viol-%s.scn' % k, 'w').write(h.text())
        for k, t in rep.known.items(): print('  KNOWN', t)
