#!/usr/bin/env python3
"""C11 (file-level part): correspondence between the Gallina model of ninja's dyndep-file parser +
loader (coq/Dyndep/DyndepDefs.v, extracted to `dyndep_run`) and the real code
(`impl_run dyndep` = harness/run_dyndep.cc: real ManifestParser + real DyndepLoader::LoadDyndeps).

  check(seed, n) -> (mismatches, stats, samples)
      generates >= n scenarios (random small graphs; valid dyndep files in many spellings; invalid
      variants: every truncation offset, each line deleted / duplicated / swapped, statements for
      unbound / unknown outputs, claimed outputs, explicit / order-only parts, wrong rule, bad
      bindings, missing / duplicate / unsupported version, byte-level mutations, missing file),
      runs both sides and compares the result lines literally (graph before the load, OK + graph
      after the load | ERR + class of the message).
      For the valid-by-construction files it also checks the manifest-level meaning:
        (a) model  inline_dyndep g stmts          == REAL ManifestParser on the inlined manifest
        (b) real   load result                    == REAL ManifestParser on the inlined manifest
            whenever the hypothesis of theorem C11_load_is_inline holds (the dyndep file is listed
            once among the inputs of a bound edge); differences are only allowed in that quirk
            situation (stats['quirk_dyndep_listed_twice']).  Together with the literal load
            comparison this also gives model load == model inline_dyndep on those cases.
      A CRASH of the implementation is a mismatch (every scenario runs in a forked child).
      mismatches: list of dicts (tag, what, impl, model, manifest, dyndep, content)
      stats: counters; samples: {result class: (tag, manifest, content)} one example each.
  python3 tools/dyndepmodel.py [seed] [n]     run check and print a summary (exit 1 on mismatch)

Binaries: $DYNDEP_MODEL_RUN / $DYNDEP_IMPL_RUN if set; else the project's builds
(vlib.build_model() directory has dyndep_run / vlib.build_impl('asan') knows `dyndep`); else a
private build under .cache/ (model: a few seconds; implementation: ~15 s).
"""
import os, sys, random, subprocess, hashlib, shutil, collections

HERE = os.path.dirname(os.path.abspath(__file__))
sys.path.insert(0, HERE)
import vlib
VERIF = os.path.dirname(HERE)

# ------------------------------------------------------------------------------ binaries
_MODEL = None
_IMPL = None

def _private_model():
    srcs = [os.path.join(vlib.COQ, p) for p in ('Base/Bytes.v', 'Canon/CanonDefs.v', 'Dyndep/DyndepDefs.v', 'ExtractDyndep.v')] + \
           [os.path.join(VERIF, 'extract', 'dyndep_run.ml')]
    h = vlib._hash_files(srcs)
    d = os.path.join(vlib.CACHE, 'dyndepmodel-' + h)
    exe = os.path.join(d, 'dyndep_run')
    with vlib.Lock('dyndepmodel'):
        if os.path.exists(os.path.join(d, 'OK')): return exe
        shutil.rmtree(d, ignore_errors=True); os.makedirs(os.path.join(d, 'q'))
        # compile the three definition files into a private -Q root so that nothing in coq/ is touched
        for rel in ('Base/Bytes.v', 'Canon/CanonDefs.v', 'Dyndep/DyndepDefs.v', 'ExtractDyndep.v'):
            dst = os.path.join(d, 'q', rel)
            os.makedirs(os.path.dirname(dst), exist_ok=True)
            shutil.copy(os.path.join(vlib.COQ, rel), dst)
            p = vlib.sh(['timeout', '600', 'coqc', '-Q', os.path.join(d, 'q'), 'NinjaV', dst], cwd=d,
                        stdout=subprocess.PIPE, stderr=subprocess.STDOUT)
            if p.returncode != 0:
                raise vlib.BuildError('coqc %s failed:\n%s' % (rel, p.stdout.decode(errors='replace')[-3000:]))
        shutil.copy(os.path.join(VERIF, 'extract', 'dyndep_run.ml'), d)
        p = vlib.sh(['ocamlfind', 'ocamlopt', '-w', '-a', 'dyndepmodel.mli', 'dyndepmodel.ml', 'dyndep_run.ml', '-o', 'dyndep_run'],
                    cwd=d, stdout=subprocess.PIPE, stderr=subprocess.STDOUT)
        if p.returncode != 0:
            raise vlib.BuildError('ocaml build of dyndep_run failed:\n' + p.stdout.decode(errors='replace')[-3000:])
        open(os.path.join(d, 'OK'), 'w').write('ok')
    return exe

def model_binary():
    global _MODEL
    if _MODEL: return _MODEL
    if os.environ.get('DYNDEP_MODEL_RUN'):
        _MODEL = os.environ['DYNDEP_MODEL_RUN']; return _MODEL
    if not os.environ.get('DYNDEP_PRIVATE'):
        try:
            b = os.path.join(os.path.dirname(vlib.build_model()), 'dyndep_run')
            if os.path.exists(b):
                _MODEL = b; return _MODEL
        except Exception:
            pass
    _MODEL = _private_model()
    return _MODEL

def _private_impl():
    flavor = 'asan'
    srcs = [os.path.join(vlib.REPO, 'src', s) for s in vlib.LIB_SOURCES] + \
           [p for p in (os.path.join(vlib.REPO, 'src', f) for f in os.listdir(os.path.join(vlib.REPO, 'src'))) if p.endswith('.h')] + \
           [os.path.join(VERIF, 'harness', f) for f in ('run_dyndep.cc', 'impl_run.cc', 'common.h')]
    h = vlib._hash_files(srcs)
    d = os.path.join(vlib.CACHE, 'dyndepimpl-' + h)
    exe = os.path.join(d, 'impl_run')
    with vlib.Lock('dyndepimpl'):
        if os.path.exists(os.path.join(d, 'OK')): return exe
        shutil.rmtree(d, ignore_errors=True); os.makedirs(os.path.join(d, 'obj'))
        cxx = ['g++', '-std=c++17', '-DUSE_PPOLL=1', '-w', '-iquote', os.path.join(vlib.REPO, 'src')] + vlib.FLAVORS[flavor]
        cmds = [cxx + ['-c', os.path.join(vlib.REPO, 'src', s), '-o', os.path.join(d, 'obj', s[:-3] + '.o')] for s in vlib.LIB_SOURCES]
        for s in ('run_dyndep.cc', 'impl_run.cc'):
            cmds.append(cxx + ['-I' + os.path.join(VERIF, 'harness'), '-c', os.path.join(VERIF, 'harness', s),
                               '-o', os.path.join(d, 'obj', 'h_' + s[:-3] + '.o')])
        fails = vlib._parallel(cmds)
        if fails:
            raise vlib.BuildError('compilation failed:\n' + '\n'.join(o[-2000:] for c, rc, o in fails))
        objs = [os.path.join(d, 'obj', f) for f in sorted(os.listdir(os.path.join(d, 'obj')))]
        p = vlib.sh(['g++'] + vlib.FLAVORS[flavor] + ['-o', exe] + objs + ['-lpthread', '-lutil'],
                    stdout=subprocess.PIPE, stderr=subprocess.STDOUT)
        if p.returncode != 0:
            raise vlib.BuildError('link failed:\n' + p.stdout.decode(errors='replace')[-3000:])
        open(os.path.join(d, 'OK'), 'w').write('ok')
    return exe

def impl_binary():
    global _IMPL
    if _IMPL: return _IMPL
    if os.environ.get('DYNDEP_IMPL_RUN'):
        _IMPL = os.environ['DYNDEP_IMPL_RUN']; return _IMPL
    if not os.environ.get('DYNDEP_PRIVATE'):
        try:
            enabled = open(os.path.join(VERIF, 'harness', 'ENABLED')).read().split()
            if 'run_dyndep.cc' in enabled:
                _IMPL = os.path.join(vlib.build_impl('asan'), 'impl_run'); return _IMPL
        except Exception:
            pass
    _IMPL = _private_impl()
    return _IMPL

def _run(binary, component, lines):
    # run_lines wants (binary, component): dyndep_run takes the component as argv[1] as well
    rc, out, err = vlib.run_lines(binary, component, lines, timeout=1800)
    if rc != 0 or len(out) != len(lines):
        raise RuntimeError('%s %s: rc=%s, %d lines for %d cases\n%s' % (binary, component, rc, len(out), len(lines), err[-3000:]))
    return out

# ------------------------------------------------------------------------------ graphs / manifests
def hx(b): return b.hex() if b else '-'

def esc_path(n):
    """manifest / dyndep path spelling"""
    return n.replace(b'$', b'$$').replace(b' ', b'$ ').replace(b':', b'$:')
def esc_value(n):
    return n.replace(b'$', b'$$').replace(b' ', b'$ ')

class Edge:
    def __init__(self):
        self.outs = []; self.imp_outs = []          # explicit / implicit outputs
        self.ins = []; self.imp = []; self.oo = []  # explicit / implicit / order-only inputs
        self.dyndep = None                           # name of the dyndep file
        self.bind = None                             # 'edge' (indented binding) | 'rule'
        self.own_restat = None                       # None | b'1' | b'0' | b''   indented restat binding
        self.other_binding = False                   # some other indented binding (gives a scope)
        self.rule_restat = None                      # None | b'1' | b''
    def scoped(self):
        # since "fix: give an edge whose dyndep binding comes from its rule a scope of its own" the parser allocates a scope
        # for every statement that has a dyndep binding, also when it comes from the rule
        return self.bind is not None or self.own_restat is not None or self.other_binding
    def copy(self):
        e = Edge(); e.__dict__.update({k: (list(v) if isinstance(v, list) else v) for k, v in self.__dict__.items()})
        return e

class Graph:
    def __init__(self):
        self.edges = []; self.file_restat = None
    def copy(self):
        g = Graph(); g.edges = [e.copy() for e in self.edges]; g.file_restat = self.file_restat; return g

def manifest_text(g):
    o = []
    if g.file_restat is not None:
        o.append(b'restat = ' + g.file_restat + b'\n')
    for i, e in enumerate(g.edges):
        o.append(b'rule r%d\n  command = c\n' % i)
        if e.rule_restat is not None: o.append(b'  restat = ' + e.rule_restat + b'\n')
        if e.bind == 'rule': o.append(b'  dyndep = ' + esc_value(e.dyndep) + b'\n')
    for i, e in enumerate(g.edges):
        l = b'build ' + b' '.join(esc_path(x) for x in e.outs)
        if e.imp_outs: l += b' | ' + b' '.join(esc_path(x) for x in e.imp_outs)
        l += b': r%d' % i
        if e.ins: l += b' ' + b' '.join(esc_path(x) for x in e.ins)
        if e.imp: l += b' | ' + b' '.join(esc_path(x) for x in e.imp)
        if e.oo: l += b' || ' + b' '.join(esc_path(x) for x in e.oo)
        o.append(l + b'\n')
        if e.bind == 'edge': o.append(b'  dyndep = ' + esc_value(e.dyndep) + b'\n')
        if e.own_restat is not None: o.append(b'  restat = ' + e.own_restat + b'\n')
        if e.other_binding: o.append(b'  description = d\n')
    return b''.join(o)

def tri(v):
    return 'n' if v is None else ('t' if v != b'' else 'f')

def model_desc(g, dd, content):
    w = [tri(g.file_restat), hx(dd), content, str(len(g.edges))]
    for e in g.edges:
        outs = e.outs + e.imp_outs; ins = e.ins + e.imp + e.oo
        sc = 'n' if not e.scoped() else ('s' if e.own_restat is None else tri(e.own_restat))
        w += [','.join(hx(x) for x in outs) or '-', str(len(e.imp_outs)),
              ','.join(hx(x) for x in ins) or '-', str(len(e.imp)), str(len(e.oo)),
              hx(e.dyndep) if e.dyndep is not None else '~', sc, tri(e.rule_restat)]
    return ' '.join(w)

COMP_CHARS = [b'a', b'b', b'c', b'o', b'x', b'1', b'_', b'-', b'.', b' ', b':', b'$', b'#', b'=', b'{', b'}', b'~',
              b'\x80', b'\xff', b'\t', b'@', b'^', b'%', b'"']
def gen_component(rnd):
    while True:
        k = rnd.choice([1, 1, 2, 2, 3, 4])
        c = b''.join(rnd.choice(COMP_CHARS if rnd.random() < 0.35 else COMP_CHARS[:7]) for _ in range(k))
        if c not in (b'.', b'..'): return c
def gen_name(rnd, used):
    for _ in range(1000):
        n = b'/'.join(gen_component(rnd) for _ in range(rnd.choice([1, 1, 1, 2, 3])))
        if rnd.random() < 0.05: n = b'/' + n
        # manifest values (dyndep = ...) lose leading spaces; keep names free of leading blanks
        if n[:1] in (b' ',) : continue
        if n not in used:
            used.add(n); return n
    raise RuntimeError('names')

def gen_graph(rnd):
    """-> (Graph, dyndep file name)"""
    used = set()
    g = Graph()
    dd = gen_name(rnd, used)
    dd2 = gen_name(rnd, used)
    sources = [gen_name(rnd, used) for _ in range(rnd.randint(1, 3))]
    if rnd.random() < 0.08: g.file_restat = rnd.choice([b'1', b''])
    nedges = rnd.randint(1, 5)
    nbound = rnd.randint(0 if rnd.random() < 0.1 else 1, min(3, nedges))
    bound = set(rnd.sample(range(nedges), nbound))
    produced = []
    for i in range(nedges):
        e = Edge()
        e.outs = [gen_name(rnd, used) for _ in range(rnd.choice([1, 1, 1, 2]))]
        e.imp_outs = [gen_name(rnd, used) for _ in range(rnd.choice([0, 0, 0, 1]))]
        pool = sources + produced
        e.ins = rnd.sample(pool, min(len(pool), rnd.choice([0, 1, 1, 2])))
        e.imp = rnd.sample(pool, min(len(pool), rnd.choice([0, 0, 1])))
        e.oo = rnd.sample(pool, min(len(pool), rnd.choice([0, 0, 1, 2])))
        if i in bound:
            e.dyndep = dd
            where = rnd.choice(['ins', 'imp', 'imp', 'oo'])
            getattr(e, where).insert(rnd.randint(0, len(getattr(e, where))), dd)
            if rnd.random() < 0.06:   # listed twice (quirk: UpdateEdge runs twice)
                where = rnd.choice(['ins', 'imp', 'oo'])
                getattr(e, where).append(dd)
            e.bind = 'rule' if rnd.random() < 0.15 else 'edge'
        elif rnd.random() < 0.15:
            e.dyndep = dd2; e.imp.append(dd2); e.bind = 'edge'
        elif rnd.random() < 0.1:
            e.ins.append(dd)          # consumes the dyndep file without being bound to it
        r = rnd.random()
        if r < 0.08: e.own_restat = b'1'
        elif r < 0.12: e.own_restat = b''
        elif r < 0.14: e.own_restat = b'0'
        if rnd.random() < 0.1: e.other_binding = True
        r = rnd.random()
        if r < 0.06: e.rule_restat = b'1'
        elif r < 0.09: e.rule_restat = b''
        produced += e.outs + e.imp_outs
        g.edges.append(e)
    return g, dd, used

class Stmt:
    def __init__(self, ei, out, imp_outs, imp_ins, restat):
        self.ei = ei; self.out = out; self.imp_outs = imp_outs; self.imp_ins = imp_ins; self.restat = restat

def gen_stmts(rnd, g, dd, used):
    """a valid statement list for the edges bound to dd"""
    used = set(used)
    allnodes = sorted({x for e in g.edges for x in e.outs + e.imp_outs + e.ins + e.imp + e.oo})
    st = []
    for i, e in enumerate(g.edges):
        if e.dyndep != dd: continue
        out = rnd.choice(e.outs + e.imp_outs)
        imp_outs = [gen_name(rnd, used) for _ in range(rnd.choice([0, 0, 1, 1, 2]))]
        imp_ins = []
        for _ in range(rnd.choice([0, 1, 1, 2, 3])):
            # (the dyndep file itself included: UpdateEdge then appends to the out edges of the node
            #  whose out edges LoadDyndeps is iterating -- a copy since the fix)
            imp_ins.append(rnd.choice(allnodes) if rnd.random() < 0.5 else gen_name(rnd, used))
        st.append(Stmt(i, out, imp_outs, imp_ins, rnd.random() < 0.35))
    rnd.shuffle(st)
    return st

def spell(rnd, n, fancy):
    """a spelling of canonical path n in a dyndep file"""
    if fancy and rnd.random() < 0.25:
        r = rnd.random()
        if not n.startswith(b'/'):
            if r < 0.3: n = b'./' + n
            elif r < 0.5: n = b'q/../' + n
            elif r < 0.6: n = b'.//' + n
        if r >= 0.6 and b'/' in n[1:]:
            k = n.index(b'/', 1); n = n[:k] + (b'//' if r < 0.8 else b'/./') + n[k + 1:]
    s = esc_path(n)
    if fancy and rnd.random() < 0.15 and len(s) > 1:
        # a variable reference (evaluates to nothing) or a line continuation in the middle; not
        # inside a two-byte escape
        cut = [k for k in range(1, len(s)) if not _inside_escape(s, k)]
        if cut:
            k = rnd.choice(cut)
            s = s[:k] + rnd.choice([b'${x}', b'${a.b}', b'$\n', b'$\n   ', b'$\r\n ']) + s[k:]
    if fancy and rnd.random() < 0.04: s += rnd.choice([b'$zz', b'$-', b'${q}'])   # "$name" up to the delimiter
    return s

def _inside_escape(s, k):
    """is position k between a '$' and the byte it escapes?"""
    i = 0
    while i < len(s):
        if s[i:i + 1] == b'$':
            if k == i + 1: return True
            i += 2
        else:
            i += 1
    return False

def render_plain(stmts):
    """exactly the model's print_dyndep (checked against `dyndep_run print` in check())"""
    o = [b'ninja_dyndep_version = 1\n']
    for st in stmts:
        l = b'build ' + esc_path(st.out)
        if st.imp_outs: l += b' |' + b''.join(b' ' + esc_path(x) for x in st.imp_outs)
        l += b': dyndep'
        if st.imp_ins: l += b' |' + b''.join(b' ' + esc_path(x) for x in st.imp_ins)
        o.append(l + b'\n')
        if st.restat: o.append(b'  restat = 1\n')
    return b''.join(o)

def render(rnd, stmts, fancy):
    if not fancy: return render_plain(stmts)
    nl = b'\r\n' if rnd.random() < 0.15 else b'\n'
    sp = lambda: b' ' * rnd.choice([1, 1, 1, 2, 3])
    osp = lambda: b' ' * rnd.choice([0, 0, 1, 2])
    lines = []
    def pipe_then(x):
        # "|@" and "||" are tokens of their own: keep a blank before a name that starts with '@'
        return b'|' + (b' ' if x[:1] in (b'@', b'|') else osp()) + x
    def junk():
        if rnd.random() < 0.2:
            lines.append(rnd.choice([b'', b'# comment', b'   ', b'  # indented comment', b'#']) + nl)
    junk()
    ver = rnd.choice([b'1', b'1', b'1.0', b'1.0', b'1.0.7', b'1.0-x', b'01', b'1.', b'$ 1', b'+1', b'1x'])
    lines.append(b'ninja_dyndep_version' + osp() + b'=' + osp() + ver + nl)
    junk()
    for st in stmts:
        l = b'build' + sp() + spell(rnd, st.out, True)
        if st.imp_outs or rnd.random() < 0.1:
            l += osp() + pipe_then(sp().join(spell(rnd, x, True) for x in st.imp_outs))
        l += osp() + b':' + osp() + b'dyndep'
        if st.imp_ins or rnd.random() < 0.1:
            l += osp() + pipe_then(sp().join(spell(rnd, x, True) for x in st.imp_ins))
        l += osp()
        lines.append(l + nl)
        if rnd.random() < 0.08: lines.append(b'# a comment before the binding' + nl)
        if st.restat:
            lines.append(sp() + b'restat' + osp() + b'=' + osp() + rnd.choice([b'1', b'0', b'yes', b'$$', b'a b:c|d']) + nl)
        elif rnd.random() < 0.15:
            lines.append(sp() + b'restat' + osp() + b'=' + osp() + rnd.choice([b'', b'$x', b'${y}']) + nl)
        junk()
    return b''.join(lines)

def inlined_graph(g, stmts):
    """the manifest-level meaning, built independently of the model"""
    h = g.copy()
    for st in stmts:
        e = h.edges[st.ei]
        e.imp_outs = e.imp_outs + st.imp_outs
        e.imp = e.imp + st.imp_ins
        if st.restat: e.own_restat = b'1'
    return h

ALPHABET = [b' ', b'$', b':', b'|', b'\n', b'\r', b'\t', b'#', b'=', b'{', b'}', b'^', b'@', b'\0', b'\x80', b'a', b'.',
            b'/', b'-', b'||', b'|@', b'$\n', b'$$', b'$ ', b'$:', b'${', b'\r\n', b'build', b'dyndep', b'restat',
            b'pool', b'rule', b'default', b'include', b'subninja', b'ninja_dyndep_version', b'  ']

def variants(rnd, g, dd, used, stmts, text, full):
    """invalid (and some accidentally valid) variants of a valid file: list of (tag, content bytes | None)"""
    v = []
    allouts = [x for e in g.edges for x in e.outs + e.imp_outs]
    unbound_outs = [x for e in g.edges if e.dyndep != dd for x in e.outs + e.imp_outs]
    plain = render(rnd, stmts, False)
    if full:
        for k in range(len(text)): v.append(('trunc', text[:k]))
        for k in range(len(plain)): v.append(('trunc_plain', plain[:k]))
    else:
        for k in rnd.sample(range(len(text)), min(len(text), 12)): v.append(('trunc', text[:k]))
    for src, tagp in ((text, ''), (plain, '_plain')):
        lines = src.split(b'\n'); lines = [l + b'\n' for l in lines[:-1]] + ([lines[-1]] if lines[-1] else [])
        for i in range(len(lines)):
            v.append(('line_del' + tagp, b''.join(lines[:i] + lines[i + 1:])))
            v.append(('line_dup' + tagp, b''.join(lines[:i + 1] + lines[i:])))
        if len(lines) > 1:
            for _ in range(3):
                i, j = rnd.sample(range(len(lines)), 2)
                l2 = list(lines); l2[i], l2[j] = l2[j], l2[i]
                v.append(('line_swap' + tagp, b''.join(l2)))
    # statement-level
    def rend(sts, **kw): return render(rnd, sts, False)
    fresh = lambda: gen_name(rnd, set(used))
    if unbound_outs:
        v.append(('stmt_unbound', rend(stmts + [Stmt(-1, rnd.choice(unbound_outs), [], [], False)])))
        v.append(('stmt_unbound_first', rend([Stmt(-1, rnd.choice(unbound_outs), [], [fresh()], True)] + stmts)))
    v.append(('stmt_unknown', rend(stmts + [Stmt(-1, fresh(), [], [], False)])))
    srcs = sorted({x for e in g.edges for x in e.ins + e.imp + e.oo} - set(allouts))
    if srcs: v.append(('stmt_source', rend(stmts + [Stmt(-1, rnd.choice(srcs), [], [], False)])))
    if stmts:
        k = rnd.randrange(len(stmts))
        v.append(('stmt_omitted', rend(stmts[:k] + stmts[k + 1:])))
        v.append(('stmt_twice', rend(stmts + [stmts[k]])))
        e = g.edges[stmts[k].ei]
        other = [x for x in e.outs + e.imp_outs if x != stmts[k].out]
        if other: v.append(('stmt_twice_other_out', rend(stmts + [Stmt(stmts[k].ei, other[0], [], [], False)])))
        def with_(k, **kw):
            s = stmts[k]; t = Stmt(s.ei, s.out, list(s.imp_outs), list(s.imp_ins), s.restat)
            for a, b in kw.items(): setattr(t, a, b)
            return stmts[:k] + [t] + stmts[k + 1:]
        v.append(('claim_existing_out', rend(with_(k, imp_outs=stmts[k].imp_outs + [rnd.choice(allouts)]))))
        v.append(('claim_own_out', rend(with_(k, imp_outs=[stmts[k].out]))))
        f = fresh()
        v.append(('claim_dup_in_stmt', rend(with_(k, imp_outs=[f, f]))))
        if len(stmts) > 1:
            k2 = (k + 1) % len(stmts)
            s2 = with_(k, imp_outs=stmts[k].imp_outs + [f])
            t = s2[k2]; s2[k2] = Stmt(t.ei, t.out, t.imp_outs + [f], t.imp_ins, t.restat)
            v.append(('claim_two_stmts', rend(s2)))
        if srcs: v.append(('claim_source_as_out', rend(with_(k, imp_outs=[rnd.choice(srcs)]))))
        v.append(('imp_in_dup', rend(with_(k, imp_ins=[f, f]))))
        v.append(('imp_in_is_out', rend(with_(k, imp_ins=[stmts[k].out]))))
    # syntax-level, on the plain rendering
    o = esc_path(stmts[0].out) if stmts else esc_path(allouts[0])
    V = b'ninja_dyndep_version = 1\n'
    rest = b''.join(plain.split(b'\n', 1)[1:])   # the file without its version line
    for tag, c in [
        ('explicit_out', V + b'build ' + o + b' exp: dyndep\n'), ('explicit_out_pipe', V + b'build ' + o + b' exp | i: dyndep\n'),
        ('explicit_in', V + b'build ' + o + b': dyndep exp\n'), ('explicit_in_pipe', V + b'build ' + o + b': dyndep exp | i\n'),
        ('order_only', V + b'build ' + o + b': dyndep || oo\n'), ('order_only2', V + b'build ' + o + b': dyndep | i || oo\n'),
        ('order_only3', V + b'build ' + o + b': dyndep ||\n'), ('validation', V + b'build ' + o + b': dyndep |@ v\n'),
        ('wrong_rule', V + b'build ' + o + b': touch\n'), ('wrong_rule2', V + b'build ' + o + b': dyndepx | i\n'),
        ('wrong_rule3', V + b'build ' + o + b': phony\n'), ('no_rule', V + b'build ' + o + b':\n'),
        ('no_rule2', V + b'build ' + o + b': | i\n'), ('no_colon', V + b'build ' + o + b'\n'), ('no_colon2', V + b'build ' + o + b' dyndep\n'),
        ('no_out', V + b'build : dyndep\n'), ('no_out2', V + b'build | x : dyndep\n'), ('empty_out', V + b'build $x : dyndep\n'),
        ('empty_imp_out', V + b'build ' + o + b' | ${e}: dyndep\n'), ('empty_imp_in', V + b'build ' + o + b': dyndep | $e\n'),
        ('empty_both', V + b'build ' + o + b' | $e: dyndep | $f\n'),
        ('bad_binding', V + b'build ' + o + b': dyndep\n  not_restat = 1\n'), ('bad_binding2', V + b'build ' + o + b': dyndep\n  restat = 1\n  restat = 1\n'),
        ('bad_binding3', V + b'build ' + o + b': dyndep\n  restat\n'), ('bad_binding4', V + b'build ' + o + b': dyndep\n  = 1\n'),
        ('bad_binding5', V + b'build ' + o + b': dyndep\n  restat = 1'), ('bad_binding6', V + b'build ' + o + b': dyndep\n  restat : 1\n'),
        ('bad_binding7', V + b'build ' + o + b': dyndep\n\n  restat = 1\n'), ('bad_binding8', V + b'build ' + o + b': dyndep\n  pool = console\n'),
        ('binding_first', V + b'  restat = 1\nbuild ' + o + b': dyndep\n'), ('var_after_version', V + b'x = 1\n' + rest),
        ('no_version', rest), ('no_version_other_var', b'x = 1\n' + rest), ('dup_version', V + V + rest), ('version_last', rest + V),
        ('version_indent', b' ' + V + rest), ('empty', b''), ('only_version', V), ('only_newlines', b'\n\n'), ('only_comment', b'# c\n'),
        ('comment_no_nl', V + rest + b'# c'), ('indent_comment_no_nl', V + rest + b'  # c'), ('trailing_spaces', V + rest + b'   '),
        ('tab', V + b'\tbuild ' + o + b': dyndep\n'), ('tab2', V + b'build\t' + o + b': dyndep\n'), ('tab3', V + b'build ' + o + b':\tdyndep\n'),
        ('caret', V + b'build ' + o + b'$^x: dyndep\n'), ('caret_value', b'ninja_dyndep_version = 1$^\n' + rest),
        ('bad_escape', V + b'build ' + o + b'$!: dyndep\n'), ('bad_escape2', V + b'build ' + o + b'${: dyndep\n'),
        ('bad_escape3', V + b'build ' + o + b'${}: dyndep\n'), ('bad_escape4', V + b'build ' + o + b'${a b}: dyndep\n'),
        ('bad_escape5', V + b'build ' + o + b': dyndep | $'), ('bad_escape6', V + b'build ' + o + b': dyndep | $\r'),
        ('lone_cr', V + b'build ' + o + b'\r: dyndep\n'), ('lone_cr2', V + b'build ' + o + b': dyndep\r'), ('lone_cr3', V + b'\rbuild ' + o + b': dyndep\n'),
        ('after_pipe', V + b'build ' + o + b' |'), ('after_pipe_sp', V + b'build ' + o + b' | '), ('after_pipe_in', V + b'build ' + o + b': dyndep |'),
        ('after_pipe_in_sp', V + b'build ' + o + b': dyndep | '), ('after_pipe_name', V + b'build ' + o + b' | x'),
        ('keywords', V + b'pool p\n'), ('keywords2', V + b'rule r\n'), ('keywords3', V + b'default x\n'), ('keywords4', V + b'include x\n'),
        ('keywords5', V + b'subninja x\n'), ('keywords6', V + b'build ' + o + b' |@ x: dyndep\n'), ('keywords7', V + b'build ' + o + b' || x: dyndep\n'),
        ('keywords8', V + b'= 1\n'), ('keywords9', V + b': x\n'), ('keywords10', V + b'| x\n'), ('keywords11', V + b'|| x\n'), ('keywords12', V + b'|@ x\n'),
        ('buildx', V + b'buildx ' + o + b': dyndep\n'), ('build_dot', V + b'build.' + o + b': dyndep\n'), ('nul_inside', V + b'\0' + rest), ('nul_inside2', V + b'build ' + o + b'\0: dyndep\n'),
        ('high_byte', V + b'\x80\n'), ('continuation', V + b'build $\n ' + o + b' $\n : $\n dyndep $\n | x $\n\n'),
        ('continuation_crlf', V + b'build $\r\n ' + o + b': dyndep\r\n'), ('crlf_all', plain.replace(b'\n', b'\r\n')),
        ('version_value_pipe', b'ninja_dyndep_version = 1 | :x\n' + rest), ('version_colon', b'ninja_dyndep_version : 1\n' + rest),
        ('version_noeq', b'ninja_dyndep_version\n' + rest), ('version_noeq2', b'ninja_dyndep_version 1\n' + rest),
        ('version_name', b'ninja_dyndep_versio = 1\n' + rest), ('version_name2', b'ninja_dyndep_version2 = 1\n' + rest),
    ]:
        if full or rnd.random() < 0.2: v.append((tag, c))
    for ver in [b'0', b'1.1', b'2', b'1.0.0', b'', b'$x', b'-1', b'+1', b' 1', b'$ 1', b'1x', b'x1', b'1.x', b'1.0x', b'1.-0', b'1.+0', b'1. 0',
                b'4294967297', b'1.4294967296', b'18446744073709551617', b'9223372036854775808', b'-4294967295', b'1.9223372036854775807',
                b'1.99999999999999999999', b'99999999999999999999', b'1..1', b'.1', b'1.\t0', b'\t1', b'1 .1', b'1.0.1', b'0x1', b'1e0', b'1,0']:
        if full or rnd.random() < 0.2:
            v.append(('version:' + ver.decode('latin1'), b'ninja_dyndep_version = ' + ver + b'\n' + rest))
    # byte-level mutations of both renderings
    for src, tagp in ((text, ''), (plain, '_plain')):
        for _ in range(40 if full else 8):
            k = rnd.randrange(len(src) + 1)
            a = rnd.choice(ALPHABET)
            r = rnd.random()
            if r < 0.45: c = src[:k] + a + src[k:]
            elif r < 0.75: c = src[:k] + a + src[k + 1:]
            else: c = src[:k] + src[k + rnd.choice([1, 1, 2, 3]):]
            v.append(('mutate' + tagp, c))
    v.append(('missing_file', None))
    return v

# ------------------------------------------------------------------------------ the check
def gen_cases(seed, n):
    rnd = random.Random(seed)
    cases = []   # (tag, graph, dd, content|None, stmts-if-valid-by-construction|None)
    gi = 0
    while len(cases) < n:
        g, dd, used = gen_graph(rnd)
        stmts = gen_stmts(rnd, g, dd, used)
        gi += 1
        for fancy in (False, True, True):
            text = render(rnd, stmts, fancy)
            cases.append(('valid_fancy' if fancy else 'valid', g, dd, text, stmts))
        full = (gi % 4 == 1)
        for tag, c in variants(rnd, g, dd, used, stmts, render(rnd, stmts, True), full):
            cases.append((tag, g, dd, c, None))
    return cases

def fuzz_lines(rnd, n):
    """n input lines for `impl_run dyndep` (for crash/sanitizer fuzzing by other checks, e.g. C13)"""
    out = []
    for tag, g, dd, c, st in gen_cases(rnd.randrange(1 << 30), n)[:n]:
        out.append('%s %s %s' % (hx(manifest_text(g)), hx(dd), '!' if c is None else hx(c)))
    return out

def check(seed=1, n=20000):
    cases = gen_cases(seed, n)
    impl, model = impl_binary(), model_binary()
    il, ml = [], []
    mcache = {}
    for tag, g, dd, c, st in cases:
        key = id(g)
        if key not in mcache: mcache[key] = hx(manifest_text(g))
        cs = '!' if c is None else hx(c)
        il.append('%s %s %s' % (mcache[key], hx(dd), cs))
        ml.append(model_desc(g, dd, cs))
    io = _run(impl, 'dyndep', il)
    mo = _run(model, 'load', ml)
    mismatches = []; stats = collections.Counter(); samples = {}
    def mm(what, i, a, b):
        tag, g, dd, c, st = cases[i]
        mismatches.append({'tag': tag, 'what': what, 'impl': a, 'model': b, 'manifest': manifest_text(g), 'dyndep': dd, 'content': c})
    for i, (a, b) in enumerate(zip(io, mo)):
        tag = cases[i][0]
        stats['cases'] += 1
        stats['tag:' + tag.split(':')[0]] += 1
        if a.startswith('CRASH'):
            stats['crash'] += 1
            mm('CRASH of the implementation', i, a, b); continue
        if a.startswith('MANIFEST_ERR') or ' POST ' not in a:
            mm('generator: manifest rejected', i, a, b); continue
        res = a.split(' POST ', 1)[1]
        cls = 'OK' if res.startswith('OK') else res
        stats['result:' + cls] += 1
        if tag.startswith('trunc'):
            stats['trunc_' + ('accepted' if cls == 'OK' else 'rejected')] += 1
        if cls not in samples: samples[cls] = (tag, manifest_text(cases[i][1]), cases[i][3])
        if a != b: mm('load', i, a, b)
    # the model's printer renders what the generator's plain rendering fed to the real code
    pi = [i for i, c in enumerate(cases) if c[0] == 'valid']
    def sl(st): return '%s/%s/%s/%d' % (hx(st.out), ','.join(hx(x) for x in st.imp_outs) or '-', ','.join(hx(x) for x in st.imp_ins) or '-', 1 if st.restat else 0)
    po = _run(model, 'print', [' '.join(sl(st) for st in cases[i][4]) or ' ' for i in pi]) if pi else []
    for k, i in enumerate(pi):
        stats['printer_cases'] += 1
        w = po[k].split()
        if w[0] != hx(cases[i][3]) or w[1] != '1' or w[2] != '1':
            mm('printer: print_dyndep differs from the generator rendering / not well-formed / no round trip', i, hx(cases[i][3]), po[k])
    # the manifest-level meaning, for the valid-by-construction files
    vi = [i for i, c in enumerate(cases) if c[4] is not None]
    inl_i = []; inl_m = []
    for i in vi:
        tag, g, dd, c, st = cases[i]
        h = inlined_graph(g, st)
        inl_i.append('%s %s ~' % (hx(manifest_text(h)), hx(dd)))
        inl_m.append(model_desc(g, dd, hx(c)))
    ri = _run(impl, 'dyndep', inl_i) if vi else []
    rm = _run(model, 'inline', inl_m) if vi else []
    for k, i in enumerate(vi):
        tag, g, dd, c, st = cases[i]
        stats['inline_cases'] += 1
        real_inl = ri[k].split(' POST ')[0][4:] if ri[k].startswith('PRE ') else ri[k]
        model_inl = rm[k][4:]
        if real_inl != model_inl:
            mm('inline: model inline_dyndep vs real parse of the inlined manifest', i, ri[k], rm[k]); continue
        if io[i].startswith('CRASH'): continue   # already reported
        real_post = io[i].split(' POST ', 1)[1]
        bound = [e for e in g.edges if e.dyndep == dd]
        with_stmt = {s.ei: s for s in st}
        unscoped_restat = any((not g.edges[s.ei].scoped()) and s.restat for s in st)
        selfin = any(dd in s.imp_ins for s in st)
        twice = any((e.ins + e.imp + e.oo).count(dd) > 1 for e in bound)
        if unscoped_restat: stats['restat_for_edge_without_scope'] += 1   # the fixed restat leak: must correspond
        if selfin: stats['file_names_itself_as_input'] += 1               # the fixed use-after-free: must correspond
        if twice: stats['quirk_dyndep_listed_twice'] += 1
        if real_post.startswith('OK '):
            same = (real_post[3:] == real_inl)
            if same: stats['load_equals_inlined'] += 1
            else:
                stats['load_differs_from_inlined'] += 1
                if not twice:
                    mm('metamorphic: real load differs from real inlined manifest outside the known quirk', i, real_post, real_inl)
        else:
            stats['valid_file_rejected:' + real_post] += 1
            if not twice:
                mm('valid-by-construction file rejected outside the known quirk', i, real_post, real_inl)
    return mismatches, dict(stats), samples

if __name__ == '__main__':
    seed = int(sys.argv[1]) if len(sys.argv) > 1 else 1
    n = int(sys.argv[2]) if len(sys.argv) > 2 else 20000
    import time
    t0 = time.time()
    mism, stats, samples = check(seed, n)
    for k in sorted(stats): print('%-60s %d' % (k, stats[k]))
    print('time %.1fs' % (time.time() - t0))
    for m in mism[:15]:
        print('--- MISMATCH [%s] %s' % (m['tag'], m['what']))
        print('manifest:\n' + m['manifest'].decode('latin1'))
        print('dyndep file %r content %r' % (m['dyndep'], m['content']))
        print('impl : ' + m['impl']); print('model: ' + m['model'])
    print('%d mismatches in %d cases' % (len(mism), stats.get('cases', 0)))
    sys.exit(1 if mism else 0)
