#!/usr/bin/env python3
"""Trace acceptance for the Gallina model of ninja's Plan + build loop (coq/Engine/PlanDefs.v).

  check(trace_lines, scenario_text)  -> list of mismatch strings (empty = accepted)
  check_many([(trace_lines, scenario_text), ...]) -> {index: [mismatch strings]}, statistics dict
  check_hists(hists, raw_out_lines) -> {sid: [mismatch strings]}, statistics   (enginecheck.Hist objects +
                                        the 4th result of enginecheck.run_hists)
  python3 tools/planmodel.py selftest [nscenarios] [seed]   generate scenarios, run impl + model, report
  python3 tools/planmodel.py campaign <seed-from> <seed-to> [nscenarios] [dir]   several seeds, totals

`trace_lines` are the raw output lines of `impl_run engine` for ONE scenario (from `scenario <id>` to
`end <id>`, or any slice containing whole `build N` blocks).  `scenario_text` is the scenario input
(Hist.text()): the trace does not contain -j/-k/tokens, they are read from its `step build` lines
(the i-th `step build`/`step clean` line belongs to trace block `build i`/`clean i`).

For every build that entered Builder::Build() with the scripted command runner the tool
  1. builds the model's static graph and snapshot from the `snap edge` / `snap plan` lines,
  2. turns the trace into model events (start / wait / prune / finish / interrupt / exit),
  3. feeds them to `model_run plan` (the extracted `step_res`), and
  4. compares the model state with EVERY `ps` line of the implementation (want, ready, per-pool
     current_use and delayed, wanted, commands, running), the Status counters at those points, the
     computable well-formedness of the snapshot (wf_graph_b / wf_snap_b / wf_cfg_b) and the exit.
Two kinds of plan activity leave no line of their own in the trace and are reconstructed:
  * starts of PHONY edges (StartEdge returns at once): found by `auto` (PlanDefs.auto_phony): start
    ready phony edges that the next `ps` line shows gone; before a non-interrupt exit all of them;
  * prunes of PHONY edges (no EdgeRemovedFromPlan call): from the `ps want` diff across the finish;
    when no `ps` follows the last finish the tool tries the candidate subsets (reported in stats).
The order in which Pool::RetrieveReadyEdges takes delayed edges (priority) is an input of the model:
the tool passes "edges the next `ps` shows not delayed, then the still delayed ones".

DYNDEP.  Dyndep files loaded by the dependency scan are part of the snapshot.  Loads DURING the build
(Builder::LoadDyndeps from Plan::EdgeFinished -> Plan::DyndepsLoaded) are part of the model; the harness prints,
add-only: `ddsnap <out0> dd=<path> pending=0|1` (dyndep bindings at snapshot time), `sc <out0> cons=..` (the
out-edges NodeFinished visits, in its order), and with every `ps` dump `pg <out0> outs=.. ins=.. cons=..` for
each edge whose inputs_/outputs_/out-edges changed and `po ready=..` (the edges with outputs_ready_).  From them:
  * the graph gets GATED entries `x@b` (input/out-edge that exists once the dyndep information of edge b is
    loaded), `ddprod=` (the edge producing the pending dyndep file an edge is bound to), `ddouts=`;
  * one `load <e> dirty= ready= added= walk=` line per Plan::DyndepsLoaded call, keyed by the edge e whose
    EdgeFinished makes the call: what the re-scan decided, read off the plan state before/after the event in
    which e became outputs_ready (dirty: kWantNothing -- or pruned in the same event -- and wanted afterwards;
    added: new want_ entries; ready: edges outside want_ that became outputs_ready; walk: a simulation of
    AddSubTarget's dyndep_walk + the dyndep node's out-edges).  The model performs the bookkeeping and checks
    every fact it can (PlanDefs.apply_load); `outputs_ready` is compared with every `po` line as well.
  * the harness also dumps the plan state when Build() returns (except after an interrupt), so the event before
    the exit -- a load made while draining after a failure included -- is compared like any other;
  * dyndep_walk is a std::set<Edge*>: its iteration order (heap addresses) is not in the trace and does show
    in which pool edge gets delayed; ascending ids first, then the same search as for phony starts.
  * `ev exit 1 stuck [this is a bug]` (status ExitFailure since "fix: exit with a failure status when the build
    loop is stuck") is what the model expects on the stuck branch.  By C06_never_stuck it needs a cyclic graph
    (C17 finding dyndep-output-cycle-not-named): such builds are outside wf_graph; they are replayed without the
    wfgraph/wfsnap comparison and counted as `cyclic-graph-accepted`, or skipped if the model rejects something.
"""
import os, sys, re, subprocess, hashlib, itertools, random, collections

HERE = os.path.dirname(os.path.abspath(__file__))
sys.path.insert(0, HERE)
import vlib
VERIF = os.path.dirname(HERE)

# ------------------------------------------------------------------------------ model binary
_BIN = None
def model_binary():
    """PLAN_MODEL_RUN, else plan_run next to the project's model_run (vlib.build_model), else a private build
    from coq/ExtractPlan.v + extract/plan_run.ml"""
    global _BIN
    if _BIN: return _BIN
    if os.environ.get('PLAN_MODEL_RUN'):
        _BIN = os.environ['PLAN_MODEL_RUN']; return _BIN
    if not os.environ.get('PLAN_MODEL_PRIVATE'):
        try:
            b = os.path.join(os.path.dirname(vlib.build_model()), 'plan_run')
            p = subprocess.run([b, 'plan'], input=b'plan x j=1 k=1 tokens=-1\nend\n', stdout=subprocess.PIPE, stderr=subprocess.PIPE)
            if p.returncode == 0 and p.stdout.startswith(b'plan x'):
                _BIN = b; return _BIN
        except Exception:
            pass
    defs = os.path.join(VERIF, 'coq', 'Engine', 'PlanDefs.v')
    drv = os.path.join(VERIF, 'extract', 'plan_run.ml')
    h = hashlib.sha256(open(defs, 'rb').read() + open(drv, 'rb').read()).hexdigest()[:16]
    d = '/tmp/planmodel-cache-' + h
    exe = os.path.join(d, 'plan_run')
    if not os.path.exists(exe):
        import shutil
        base = os.path.join(d, 'NinjaV'); os.makedirs(os.path.join(base, 'Base'), exist_ok=True); os.makedirs(os.path.join(base, 'Engine'), exist_ok=True)
        shutil.copy(os.path.join(VERIF, 'coq', 'Base', 'Bytes.v'), os.path.join(base, 'Base'))
        shutil.copy(defs, os.path.join(base, 'Engine'))
        shutil.copy(os.path.join(VERIF, 'coq', 'ExtractPlan.v'), d); shutil.copy(drv, d)
        for f in ('Base/Bytes.v', 'Engine/PlanDefs.v'):
            subprocess.run(['coqc', '-Q', base, 'NinjaV', os.path.join(base, f)], check=True, cwd=d, timeout=900)
        subprocess.run(['coqc', '-Q', base, 'NinjaV', 'ExtractPlan.v'], check=True, cwd=d, timeout=900)
        subprocess.run(['ocamlfind', 'ocamlopt', '-w', '-a', 'planmodel.mli', 'planmodel.ml', 'plan_run.ml', '-o', 'plan_run'], check=True, cwd=d)
    _BIN = exe
    return _BIN

ORDER_TRIES = 30

# ------------------------------------------------------------------------------ trace parsing
def _kv(ws): return dict(x.split('=', 1) for x in ws if '=' in x)
def _lst(s, sep=','): return [] if s in ('-', '') else s.split(sep)

class Ps:
    def __init__(s, line):
        kv = _kv(line.split()[1:])
        s.want = dict(x.rsplit(':', 1) for x in _lst(kv['want']))
        s.ready = set(_lst(kv['ready']))
        s.pools = {}
        for p in _lst(kv['pools'], ';'):
            name, use, dl = p.split(':')
            s.pools[name] = (int(use), set(_lst(dl, '+')))
        s.wanted = int(kv['wanted']); s.commands = int(kv['commands'])
        s.running = set(_lst(kv['running']))
        s.delayed = set().union(*[d for _, d in s.pools.values()]) if s.pools else set()

def split_builds(trace_lines):
    """[(kind, number, [lines])] for the `build N` / `clean N` blocks of one scenario"""
    blocks = []; cur = None
    for l in trace_lines:
        w = l.split()
        if not w: continue
        if w[0] in ('build', 'clean') and len(w) == 2 and w[1].isdigit():
            cur = (w[0], int(w[1]), []); blocks.append(cur)
        elif w[0] in ('scenario', 'end'): cur = None
        elif cur is not None: cur[2].append(l)
    return blocks

def build_opts(scenario_text):
    """{block number: dict(j,k,tokens,...)} from the `step build` / `step clean` lines"""
    res = {}; n = 0
    for l in scenario_text.split('\n'):
        w = l.split()
        if len(w) >= 2 and w[0] == 'step' and w[1] in ('build', 'clean'):
            kv = _kv(w[2:]); kv['_kind'] = w[1]
            res[n] = kv; n += 1
    return res

MSG = {'': 'success', '-': 'success', 'subcommand failed': 'failed', 'subcommands failed': 'failed',
       'cannot make progress due to previous errors': 'noprogress', 'stuck [this is a bug]': 'stuck',
       'interrupted by user': 'interrupted'}

class Skip(Exception): pass

class BuildCase:
    """one Builder::Build() run: model input lines + the comparisons to make on the output"""
    def __init__(s, lines, opts, label):
        s.label = label; s.opts = opts
        s.edges = []      # snap edge dicts in order
        s.items = []      # trace items after the snapshot
        s.parse(lines)

    def parse(s, lines):
        added = 0; snap_seen = False; plan_seen = False
        s.ddsnap = {}     # out0 of a bound edge -> (dyndep path, pending)
        s.sc = {}         # out0 -> out0s of the edges NodeFinished visits, in order (None: older harness)
        for l in lines:
            w = l.split()
            if w[0] == 'ddsnap':
                kv = _kv(w[2:]); s.ddsnap[w[1]] = (kv['dd'], kv['pending'] == '1')
            elif w[0] == 'sc':
                s.sc[w[1]] = _lst(_kv(w[2:])['cons'])
            elif w[0] == 'snap' and w[1] == 'edge':
                if plan_seen: raise Skip('several snapshots (manifest rebuilt)')
                kv = _kv(w[3:]); kv['out0'] = w[2]; s.edges.append(kv); snap_seen = True
            elif w[0] == 'snap' and w[1] == 'plan':
                kv = _kv(w[2:]); s.snap_wanted = int(kv['wanted']); s.snap_commands = int(kv['commands']); plan_seen = True
            elif not plan_seen:
                if w[0] == 'st' and w[1] == 'added': added += 1
                elif w[0] == 'ps' or (w[0] == 'ev' and w[1] in ('start', 'wait', 'manifest-rebuilt')):
                    raise Skip('manifest rebuild phase')
            else:
                if w[0] == 'ps': s.items.append(('ps', Ps(l)))
                elif w[0] == 'pg': kv = _kv(w[2:]); s.items.append(('pg', w[1], _lst(kv['outs']), _lst(kv['ins']), _lst(kv['cons']) if 'cons' in kv else None))
                elif w[0] == 'po': s.items.append(('po', set(_lst(_kv(w[1:])['ready']))))
                elif w[0] == 'ev' and w[1] == 'start': s.items.append(('start', w[2]))
                elif w[0] == 'ev' and w[1] == 'wait': s.items.append(('wait',))
                elif w[0] == 'ev' and w[1] == 'finish': s.items.append(('finish', w[2], int(w[3])))
                elif w[0] == 'ev' and w[1] == 'interrupt': s.items.append(('interrupt',))
                elif w[0] == 'ev' and w[1] == 'exit':
                    s.items.append(('exit', int(w[2]), vlib.unhex(w[3]).decode('latin1') if len(w) > 3 and w[3] != '-' else ''))
                elif w[0] == 'ev' and w[1] == 'uptodate': raise Skip('already up to date')
                elif w[0] == 'ev' and w[1] in ('midedit', 'limits', 'counters', 'tokens-at-exit', 'double-start'): pass
                elif w[0] == 'ev': raise Skip('event outside the model: ' + w[1])
                elif w[0] == 'st' and w[1] in ('added', 'removed', 'started', 'finished'): s.items.append(('st', w[1], w[2]))
        if not plan_seen: raise Skip('Build() not reached')
        if not any(i[0] == 'ps' for i in s.items): raise Skip('no plan-state lines (dry run / crash child)')
        if not any(i[0] == 'exit' for i in s.items): raise Skip('no exit line')
        s.added0 = added
        # ids
        s.id = {e['out0']: i for i, e in enumerate(s.edges)}
        s.has_dyndep = any(p for _, p in s.ddsnap.values())
        prod = {}
        for i, e in enumerate(s.edges):
            for o in _lst(e['outs']): prod[o] = i
        # the graph at the end of the build (`pg` lines: inputs_/outputs_ after dyndep loads)
        n = len(s.edges)
        ins0 = [_lst(e['ins']) for e in s.edges]; outs0 = [_lst(e['outs']) for e in s.edges]
        insF = [list(x) for x in ins0]; outsF = [list(x) for x in outs0]
        for it in s.items:
            if it[0] == 'pg' and it[1] in s.id: outsF[s.id[it[1]]] = it[2]; insF[s.id[it[1]]] = it[3]
        prodF = {}
        for i in range(n):
            for o in outsF[i]: prodF.setdefault(o, i)
        # edges bound to a dyndep file that is pending when Build() starts and has a producing edge:
        # their dyndep-discovered inputs/outputs are entries gated by the bound edge
        s.ddprod = [None] * n; s.ddnodes = collections.defaultdict(list)
        for out0, (dd, pending) in s.ddsnap.items():
            if pending and out0 in s.id and dd in prod:
                s.ddprod[s.id[out0]] = prod[dd]
                if dd not in s.ddnodes[prod[dd]]: s.ddnodes[prod[dd]].append(dd)
        def gate(b, x): return '%d@%d' % (x, b) if s.ddprod[b] is not None else str(x)
        newouts = {}    # node discovered as an output of b by a dyndep load -> b
        for b in range(n):
            for o in outsF[b][len(outs0[b]):]: newouts[o] = b
        s.gins = []     # gated entries as strings; s.ins = all producers (final graph)
        s.ins = []
        for d in range(n):
            old = collections.Counter(ins0[d]); gl = []; pl = []
            for x in insF[d]:
                if x not in prodF: continue
                isnew = old[x] == 0
                if not isnew: old[x] -= 1
                if x in newouts and newouts[x] != d: gl.append(gate(newouts[x], prodF[x]))
                elif isnew: gl.append(gate(d, prodF[x]))
                else: gl.append(str(prodF[x]))
                pl.append(prodF[x])
            s.gins.append(gl); s.ins.append(pl)
        s.gcons = []; s.cons = []
        for i in range(n):
            gl = []; pl = []
            for o in outsF[i]:
                for d in range(n):
                    old = collections.Counter(ins0[d])
                    for x in insF[d]:
                        isnew = old[x] == 0
                        if not isnew: old[x] -= 1
                        if x != o: continue
                        if o in newouts and newouts[o] != d: gl.append(gate(newouts[o], d))
                        elif isnew: gl.append(gate(d, d))
                        else: gl.append(str(d))
                        pl.append(d)
            s.gcons.append(gl); s.cons.append(pl)
        # the exact visiting order of NodeFinished when the harness prints it (`sc` lines, `cons=` of `pg`)
        if s.sc:
            consF = {}
            for i, e in enumerate(s.edges): consF[i] = s.sc.get(e['out0'])
            for it in s.items:
                if it[0] == 'pg' and it[1] in s.id and len(it) > 4 and it[4] is not None: consF[s.id[it[1]]] = it[4]
            for i in range(n):
                if consF[i] is None: continue
                order = [s.id[x] for x in consF[i] if x in s.id]
                if collections.Counter(order) != collections.Counter(s.cons[i]): continue   # keep the computed one
                queues = collections.defaultdict(list)
                for ent, d in zip(s.gcons[i], s.cons[i]): queues[d].append(ent)
                s.gcons[i] = [queues[d].pop(0) for d in order]; s.cons[i] = order
        # out_edges of the pending dyndep nodes an edge produces
        s.ddouts = []
        for i in range(n):
            l = []
            for dd in s.ddnodes.get(i, []):
                for d in range(n): l += [d] * insF[d].count(dd)
            s.ddouts.append(l)
        s.phony = [e['phony'] == '1' for e in s.edges]
        s.pool_id = {'-': 0}; s.depths = [0]
        for e in s.edges:
            if e['pool'] not in s.pool_id:
                s.pool_id[e['pool']] = len(s.depths); s.depths.append(int(e['depth']))
        # rank = longest producer chain.  A cyclic graph is outside wf_graph (the premise of the theorems);
        # the real tree can reach Build() with one (C17 finding dyndep-output-cycle-not-named) and then
        # leaves the loop with `ev exit 1 stuck [this is a bug]`.  The model is still run on it (back
        # edges cut for the rank): an accepted trace is counted, a rejected one is skipped, not reported.
        memo = {}; s.cyclic = False
        def rk(i, stack=()):
            if i in memo: return memo[i]
            if i in stack: s.cyclic = True; return -1
            r = 1 + max([rk(p, stack + (i,)) for p in s.ins[i]] + [-1]); memo[i] = r; return r
        s.rank = [rk(i) for i in range(len(s.edges))]

    # -------------------------------------------------------------------------- model input
    def hint(s, T):
        if T is None: return '-'
        n = len(s.edges)
        dl = {s.id[x] for x in T.delayed if x in s.id}
        return ','.join(str(i) for i in [i for i in range(n) if i not in dl] + sorted(dl)) or '-'

    def script(s, extra_prunes=(), order=None):
        """-> (input lines, checks) ; checks[i] = what to compare on the output of input line i.
        order: None = phony starts tried in ascending id order, 'rev' = descending, int = shuffled"""
        o = s.opts
        rnd = random.Random(order) if isinstance(order, int) else None
        def perm(S):
            S = list(S)
            if order == 'rev': S.reverse()
            elif rnd: rnd.shuffle(S)
            if len(S) > 1: s.multi_auto = True
            return ','.join(map(str, S))
        s.multi_auto = False
        k = int(o.get('k', 1)); n = len(s.edges)
        L = ['plan %s j=%d k=%d tokens=%d' % (s.label, int(o.get('j', 1)), k if k > 0 else n + 1, int(o.get('tokens', -1)))]
        C = [None]
        for i, d in enumerate(s.depths): L.append('pool %d %d' % (i, d)); C.append(None)
        for i, e in enumerate(s.edges):
            L.append('edge %d pool=%d phony=%d ins=%s cons=%s ddprod=%s ddouts=%s want=%s ready=%s rank=%d' % (
                i, s.pool_id[e['pool']], 1 if s.phony[i] else 0, ','.join(s.gins[i]) or '-',
                ','.join(s.gcons[i]) or '-', '-' if s.ddprod[i] is None else s.ddprod[i],
                ','.join(map(str, s.ddouts[i])) or '-', e['want'], e['ready'], s.rank[i])); C.append(None)
        L.append('snapplan %d %d' % (s.snap_wanted, s.snap_commands)); C.append(None)
        for l in s.load_lines(order, rnd): L.append(l); C.append(None)
        items = s.items
        def next_ps(i, stop=('exit',)):
            for j in range(i + 1, len(items)):
                if items[j][0] == 'ps': return items[j][1]
                if items[j][0] in stop: return None
            return None
        first = next_ps(-1)
        L.append('init ' + s.hint(first)); C.append(('init',))
        last = None; prev = 'init'; cur_po = None
        st = dict(added=s.added0, removed=0, started=0, finished=0)
        ambiguous = None
        for i, it in enumerate(items):
            k0 = it[0]
            if k0 == 'st': st[it[1]] += 1; continue
            if k0 == 'pg': continue
            if k0 == 'po': cur_po = it[1]; continue
            if k0 == 'ps':
                T = it[1]
                if prev == 'ps' and last is not None:
                    S = s.gone_phony(last, T)
                    if S: L.append('auto %s %s' % (perm(S), s.hint(T))); C.append(None)
                L.append('#check'); C.append(('ps', T, dict(st), cur_po))
                last = T
            elif k0 == 'start':
                T = next_ps(i)
                S = s.gone_phony(last, T) if (last is not None and T is not None) else []
                if S: L.append('auto %s %s' % (perm(S), s.hint(T))); C.append(None)
                L.append('start %d %s' % (s.id[it[1]], s.hint(T))); C.append(('ev', 'start ' + it[1]))
            elif k0 == 'wait':
                L.append('wait'); C.append(('ev', 'wait'))
            elif k0 == 'finish':
                T = next_ps(i, stop=('exit',))
                pr = []
                for j in range(i + 1, len(items)):
                    if items[j][0] not in ('st', 'pg', 'po'): break
                    if items[j][0] == 'st' and items[j][1] == 'removed': pr.append(s.id[items[j][2]])
                if it[2] == 0 and last is not None:
                    cand = [s.id[x] for x, w in last.want.items() if w == 's' and s.phony[s.id[x]] and x not in last.ready and x not in last.delayed]
                    if T is not None:
                        pr += [c for c in cand if T.want.get(s.edges[c]['out0'], 'n') == 'n']
                    else:
                        down = s.downstream(s.id[it[1]])
                        amb = [c for c in cand if c in down]
                        if amb: ambiguous = amb
                        pr += [c for c in extra_prunes if c in amb]
                for e in pr: L.append('prune %d' % e); C.append(('ev', 'prune %d' % e))
                L.append('finish %d %d %s' % (s.id[it[1]], it[2], s.hint(T))); C.append(('ev', 'finish ' + it[1]))
            elif k0 == 'interrupt':
                L.append('interrupt'); C.append(('ev', 'interrupt'))
            elif k0 == 'exit':
                cls = MSG.get(it[2])
                if cls is None: raise Skip('exit message outside the model: %r' % it[2])
                if cls != 'interrupted':
                    L.append('auto %s -' % (perm([i for i in range(n) if s.phony[i]]) or '-')); C.append(None)
                L.append('exit %d %s' % (it[1], cls)); C.append(('exit', it[1], cls, dict(st)))
            prev = k0
        L.append('end'); C.append(None)
        s.ambiguous = ambiguous
        return L, C

    def load_lines(s, order=None, rnd=None):
        """`load` lines: what the trace says about each Plan::DyndepsLoaded call made during the build (keyed by
        the edge whose EdgeFinished loads the dyndep file).  The re-scan's decisions are read off the plan
        state before/after the event in which that edge's outputs became ready."""
        if not any(x is not None for x in s.ddprod): return []
        n = len(s.edges); res = {}
        P = None; O = None; curO = None; PR = set()
        snap_ready = {e['out0'] for e in s.edges if e['ready'] == '1'}
        for it in s.items:
            if it[0] == 'po': curO = it[1]
            if it[0] == 'st' and it[1] == 'removed' and it[2] in s.id: PR.add(s.id[it[2]])
            if it[0] != 'ps': continue
            T = it[1]; O2 = curO if curO is not None else snap_ready
            if P is not None:
                R = {s.id[x] for x in (O2 - (O or set())) if x in s.id}
                ldr = sorted([e for e in R if s.ddnodes.get(e)], key=lambda e: s.rank[e])
                if ldr:
                    pw = {s.id[x]: w for x, w in P.want.items()}; tw = {s.id[x]: w for x, w in T.want.items()}
                    # kWantNothing (also: pruned by restat earlier in this very event) and wanted afterwards
                    dirty = sorted(x for x, w in pw.items() if (w == 'n' or x in PR) and tw.get(x) in ('s', 'f'))
                    added = [(x, 's' if tw[x] in ('s', 'f') else 'n') for x in sorted(tw, key=lambda x: s.rank[x]) if x not in pw]
                    ready = sorted([x for x in R if x not in pw and x not in tw and not s.ddnodes.get(x) or (x in R and x not in pw and x not in tw and x not in ldr)], key=lambda x: s.rank[x])
                    ready = sorted(set(x for x in R if x not in pw and x not in tw), key=lambda x: s.rank[x])
                    for k, e in enumerate(ldr):
                        roots = [b for b in range(n) if s.ddprod[b] == e and (b in pw or b in tw)]
                        walk = set(x for x in s.ddouts[e] if x in pw or x in tw)
                        if k == 0:
                            # dyndep_walk: AddSubTarget from the dyndep-discovered inputs of the bound edges that are in
                            # the plan, and (since "fix: schedule validation targets discovered by a mid-build dyndep
                            # load") from the validation nodes the re-scan met; it stops at edges already in want_ (not
                            # inserted at all when kWantToFinish) and recurses through the entries it inserts.  So every
                            # new want_ entry is on the walk, together with the not-yet-scheduled producers of its inputs.
                            addset = {x for x, _ in added}; seen = set()
                            def visit(x):
                                if x in pw:
                                    if pw[x] != 'f': walk.add(x)
                                    return
                                if x in addset and x not in seen:
                                    seen.add(x); walk.add(x)
                                    for y in s.ins[x]: visit(y)
                            for b in roots:
                                for ent in s.gins[b]:
                                    if ent.endswith('@%d' % b): visit(int(ent.split('@')[0]))
                            for x, _ in added: visit(x)
                            res[e] = (dirty, ready, added, sorted(walk))
                        else:
                            res[e] = ([], [], [], sorted(walk))
            P = T; O = O2; PR = set()
        for e in range(n):
            if s.ddnodes.get(e) and e not in res: res[e] = ([], [], [], sorted(set(s.ddouts[e])))
        s.nloads = len(res)
        # dyndep_walk is a std::set<Edge*>: its iteration order is the order of heap addresses, which the
        # trace does not show; ascending edge ids first, other orders are tried when the replay mismatches
        def wperm(w):
            w = list(w)
            if len(w) > 1: s.multi_auto = True
            if order == 'rev': w.reverse()
            elif rnd: rnd.shuffle(w)
            return w
        return ['load %d dirty=%s ready=%s added=%s walk=%s' % (
                    e, ','.join(map(str, d)) or '-', ','.join(map(str, r)) or '-',
                    ','.join('%d:%s' % a for a in ad) or '-', ','.join(map(str, wperm(w))) or '-')
                for e, (d, r, ad, w) in sorted(res.items())]

    def gone_phony(s, last, T):
        return sorted(s.id[x] for x, w in last.want.items() if w in 's f'.split() and s.phony[s.id[x]] and x not in T.want)

    def downstream(s, e):
        seen = set(); todo = [e]
        while todo:
            x = todo.pop()
            for d in s.cons[x]:
                if d not in seen: seen.add(d); todo.append(d)
        return seen

    # -------------------------------------------------------------------------- comparison
    def compare(s, L, C, out):
        """out: output lines of the model for this block (one per non-comment input line that answers)"""
        bad = []
        oi = 0; cur = None
        def parse_state(line):
            kv = _kv(line.split()[1:]); return kv
        for l, c in zip(L, C):
            if l.startswith('#check'):
                ans = None
            elif l.split()[0] in ('pool', 'edge', 'snapplan', 'load'):
                continue
            else:
                ans = out[oi] if oi < len(out) else 'missing'; oi += 1
                if ans.startswith('ok '): cur = parse_state(ans)
                elif ans.startswith('plan ') or ans == 'end': pass
                elif ans == 'skip': continue
                else:
                    bad.append('%s: model answered %r to event %r' % (s.label, ans, l)); cur = None; continue
            if c is None or cur is None: continue
            if c[0] == 'init':
                for f in ('wfgraph', 'wfsnap', 'wfcfg'):
                    if s.cyclic and f != 'wfcfg': continue
                    if cur.get(f) != '1': bad.append('%s: snapshot violates %s' % (s.label, f))
            elif c[0] == 'ps':
                bad += s.cmp_ps(cur, c[1], c[2], c[3] if len(c) > 3 else None)
            elif c[0] == 'exit':
                stc = c[3]
                if c[2] != 'interrupted':
                    for f, v in (('total', stc['added'] - stc['removed']), ('started', stc['started']), ('finished', stc['finished'])):
                        if int(cur[f]) != v: bad.append('%s: at exit: status counter %s model %s impl %d' % (s.label, f, cur[f], v))
        return bad

    def cmp_ps(s, cur, T, stc, po=None):
        bad = []; name = lambda i: vlib.unhex(s.edges[int(i)]['out0']).decode('latin1')
        def ids(x): return set(int(i) for i in _lst(x))
        if po is not None and 'oready' in cur:
            ip = {s.id[x] for x in po if x in s.id}
            if ids(cur['oready']) != ip: bad.append('outputs_ready: model %s impl %s' % (sorted(ids(cur['oready'])), sorted(ip)))
        mw = {int(a.split(':')[0]): a.split(':')[1] for a in _lst(cur['want'])}
        iw = {s.id[x]: w for x, w in T.want.items()}
        if mw != iw: bad.append('want: model %s impl %s' % (sorted(mw.items()), sorted(iw.items())))
        for f, iv in (('ready', T.ready), ('running', T.running), ('delayed', T.delayed)):
            iv = {s.id[x] for x in iv}
            if ids(cur[f]) != iv: bad.append('%s: model %s impl %s' % (f, sorted(ids(cur[f])), sorted(iv)))
        mu = {int(a.split(':')[0]): int(a.split(':')[1]) for a in _lst(cur['use'])}
        for pn, (use, dl) in T.pools.items():
            if pn in s.pool_id:
                if mu.get(s.pool_id[pn]) != use: bad.append('pool %s current_use: model %s impl %d' % (pn, mu.get(s.pool_id[pn]), use))
            elif use != 0 or dl: bad.append('pool %s without edges has use %d delayed %s' % (pn, use, dl))
        for f, iv in (('wanted', T.wanted), ('commands', T.commands), ('total', stc['added'] - stc['removed']),
                      ('started', stc['started']), ('finished', stc['finished']), ('pending', len(T.running))):
            if int(cur[f]) != iv: bad.append('%s: model %s impl %d' % (f, cur[f], iv))
        return ['%s: at ps: %s' % (s.label, b) for b in bad]

def run_model(lines):
    rc, out, err = vlib.run_lines(model_binary(), 'plan', [l for l in lines if not l.startswith('#')], timeout=1800)
    if rc != 0: raise RuntimeError('model_run plan failed rc=%s %s' % (rc, err[-500:]))
    return out

def _split_out(out):
    blocks = []; cur = None
    for l in out:
        if l.startswith('plan '): cur = [l]; blocks.append(cur)
        elif cur is not None: cur.append(l)
    return blocks

def check_many(pairs):
    """pairs: [(trace_lines, scenario_text)].  -> ({pair index: [mismatches]}, stats)"""
    stats = collections.Counter(); cases = []; res = collections.defaultdict(list)
    for pi, (trace, text) in enumerate(pairs):
        opts = build_opts(text)
        for kind, no, lines in split_builds(trace):
            if kind != 'build': continue
            stats['builds'] += 1
            try:
                c = BuildCase(lines, opts.get(no, {}), 'p%d.b%d' % (pi, no))
                L, C = c.script()
                cases.append((pi, c, L, C))
            except Skip as ex:
                stats['skipped: ' + str(ex).split(':')[0]] += 1
    if not cases: return dict(res), stats
    out = _split_out(run_model([l for _, _, L, _ in cases for l in L]))
    retry = []
    for (pi, c, L, C), o in zip(cases, out):
        bad = c.compare(L, C, o)
        if c.cyclic:
            if bad: stats['skipped: cyclic graph'] += 1; continue
            stats['cyclic-graph-accepted (outside wf_graph)'] += 1
        stats['replayed'] += 1
        stats['events'] += sum(1 for x in C if x and x[0] == 'ev')
        stats['ps-compared'] += sum(1 for x in C if x and x[0] == 'ps')
        if any(l.startswith('auto') for l in L[:-3]): stats['with-phony-starts'] += 1
        if any(l.startswith('prune') for l in L): stats['with-prunes'] += 1
        for l in L:
            if l.startswith('exit '): stats['exit ' + l.split()[2] + (' code!=0' if l.split()[1] != '0' else '')] += 1
            if l.startswith('finish ') and l.split()[2] != '0': stats['failed-commands'] += 1
        if int(c.opts.get('tokens', -1)) >= 0: stats['with-jobserver'] += 1
        if c.has_dyndep: stats['with-pending-dyndep'] += 1
        if any(it[0] == 'pg' for it in c.items): stats['with-dyndep-load-changing-the-graph'] += 1
        for l in L:
            if l.startswith('load '):
                kv = _kv(l.split()[2:])
                if kv['dirty'] != '-': stats['loads: dependents found dirty'] += 1
                if kv['added'] != '-': stats['loads: new want_ entries'] += 1
                if kv['ready'] != '-': stats['loads: new edges found up to date'] += 1
        if len(c.depths) > 1: stats['with-pools'] += 1
        if any(x and x[0] == 'ps' and x[1].delayed for x in C): stats['with-delayed-edges'] += 1
        if bad and (c.ambiguous or c.multi_auto): retry.append((pi, c, bad))
        elif bad: res[pi] += bad
    # The trace under-determines two things; the tool searches for an accepted completion:
    #  * unobservable phony prunes before the last finish: the candidate subsets;
    #  * the order of several invisible phony starts between two `ps` lines (it decides which pool
    #    edge is delayed): ascending ids first, then descending, then ORDER_TRIES shuffles.
    for pi, c, bad0 in retry:
        amb = c.ambiguous or []
        if amb: stats['ambiguous-phony-prune'] += 1
        if c.multi_auto: stats['ambiguous-phony-start-order'] += 1
        ok = False
        subs = [()] + [sub for r in range(1, len(amb) + 1) for sub in itertools.combinations(amb, r)]
        orders = [None] + (['rev'] + list(range(ORDER_TRIES)) if c.multi_auto else [])
        for sub in subs:
            for order in orders:
                if sub == () and order is None: continue
                L, C = c.script(extra_prunes=sub, order=order)
                o = _split_out(run_model(L))[0]
                if not c.compare(L, C, o): ok = True; break
            if ok: break
        if not ok: res[pi] += bad0
    stats['mismatching-builds'] = sum(1 for v in res.values() if v)
    return dict(res), stats

def split_scenarios(out_lines):
    """{scenario id: its trace lines} from the raw output of `impl_run engine` (enginecheck.run_hists()[3])"""
    per = {}; cur = None
    for l in out_lines:
        w = l.split()
        if w and w[0] == 'scenario': cur = per.setdefault(w[1], [])
        if cur is not None: cur.append(l)
    return per

def check_hists(hists, out_lines):
    """{sid: [mismatches]} for enginecheck.Hist objects and the raw output lines of their run"""
    per = split_scenarios(out_lines)
    res, stats = check_many([(per.get(h.sid, []), h.text()) for h in hists])
    return {hists[i].sid: v for i, v in res.items() if v}, stats

def check(trace_lines, scenario_text):
    """mismatches between the implementation's trace of one scenario and the plan model"""
    res, _ = check_many([(trace_lines, scenario_text)])
    return res.get(0, [])

# ------------------------------------------------------------------------------ self test
def impl_binary():
    if os.environ.get('PLAN_IMPL_RUN'): return os.environ['PLAN_IMPL_RUN']
    return os.path.join(vlib.build_impl('plain'), 'impl_run')

def gen_scenarios(rnd, n, tokens_p=0.25, interrupt_p=0.1):
    import enginecheck
    hs = []
    for i in range(n):
        feat = dict(dyndep=0.0, generator=0.0,
                    pools=rnd.choice([0.3, 0.8, 1.0]), phony=rnd.choice([0.15, 0.3, 0.45]),
                    restat=rnd.choice([0.2, 0.5, 0.8]), validations=rnd.choice([0.15, 0.4]),
                    multiout=rnd.choice([0.25, 0.5]))
        h = enginecheck.gen_history(rnd, 'g%d' % i, rnd.randrange(2, 13), rnd.randrange(1, 5), feat=feat,
                                    faults=rnd.choice([0.0, 0.4, 0.8]))
        for st in h.steps:   # add jobserver tokens / interrupts to some builds
            if st.kind == 'build':
                if rnd.random() < tokens_p: st.line += ' tokens=%d' % rnd.randrange(0, 4)
                if rnd.random() < interrupt_p: st.line += ' interrupt=%d' % rnd.randrange(0, 6)
        hs.append(h)
    return hs

def selftest(n=300, seed=1, verbose=True):
    rnd = random.Random(seed)
    hs = gen_scenarios(rnd, n)
    text = ''.join(h.text() for h in hs)
    rc, out, err = vlib.run_lines(impl_binary(), 'engine', text.split('\n'), timeout=3000)
    if rc != 0: raise RuntimeError('impl_run failed rc=%s %s' % (rc, err[-2000:]))
    per = {}; cur = None
    for l in out:
        w = l.split()
        if w and w[0] == 'scenario': cur = per.setdefault(w[1], [])
        if cur is not None: cur.append(l)
    pairs = [(per.get(h.sid, []), h.text()) for h in hs]
    res, stats = check_many(pairs)
    if verbose:
        for k, v in sorted(stats.items()): print('%-40s %d' % (k, v))
        for pi, bad in sorted(res.items())[:10]:
            print('--- scenario', hs[pi].sid)
            for b in bad[:6]: print('   ', b[:400])
    return res, stats, hs

def campaign(seeds, n=500, outdir=None):
    """several self tests; aggregated statistics"""
    total = collections.Counter(); bad = 0
    for seed in seeds:
        res, stats, hs = selftest(n, seed, verbose=False)
        total.update(stats)
        for pi, b in sorted(res.items()):
            bad += 1
            print('seed %d scenario %s: %s' % (seed, hs[pi].sid, b[:3]))
            if outdir: open(os.path.join(outdir, 'bad_%d_%s.txt' % (seed, hs[pi].sid)), 'w').write(hs[pi].text())
    for k, v in sorted(total.items()): print('%-40s %d' % (k, v))
    return bad

if __name__ == '__main__':
    if len(sys.argv) > 1 and sys.argv[1] == 'campaign':
        a, b = int(sys.argv[2]), int(sys.argv[3])
        sys.exit(1 if campaign(range(a, b), int(sys.argv[4]) if len(sys.argv) > 4 else 500,
                               sys.argv[5] if len(sys.argv) > 5 else None) else 0)
    if len(sys.argv) > 1 and sys.argv[1] == 'selftest':
        n = int(sys.argv[2]) if len(sys.argv) > 2 else 300
        seed = int(sys.argv[3]) if len(sys.argv) > 3 else 1
        res, stats, hs = selftest(n, seed)
        if len(sys.argv) > 4:
            for pi in sorted(res): open(os.path.join(sys.argv[4], 'bad_%s.txt' % hs[pi].sid), 'w').write(hs[pi].text())
        sys.exit(1 if res else 0)
    print(__doc__)
