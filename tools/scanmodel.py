"""Correspondence between the extracted Gallina scan model (coq/Engine/ScanDefs.v, `model_run scan`)
and the real DependencyScan/Plan as driven by harness/run_engine.cc.

For every build of a scenario the model input is computed from the generator's GROUND TRUTH
(enginecheck.Hist steps: st.g, st.targets) and from the state the trace reports BEFORE that build
(previous build's `state file/log/deps/now`, replayed through the steps in between); the model's
answer is compared with the implementation's `snap` lines (or its scan error).

  check(h, builds[, raw]) -> list of mismatch strings    (raw = raw output lines of impl_run; when
                                                          omitted the scenario is run again)
  check_all(hists)      -> (mismatches, stats)

Model binary: $SCANMODEL_BIN if set, else vlib.build_model() (needs `scan` in Extract.v and the
`scan` case in extract/model_run.ml, see coq/Engine/README_scan.md)."""
import os, re, sys, collections
sys.path.insert(0, os.path.dirname(os.path.abspath(__file__)))
import vlib, engine, enginecheck
from engine import uh

# ------------------------------------------------------------------ model binary
def model_binary():
    b = os.environ.get('SCANMODEL_BIN')
    if b: return b
    return vlib.build_model()

def run_model(lines):
    rc, out, err = vlib.run_lines(model_binary(), 'scan', lines, timeout=900)
    if rc != 0 or len(out) != len(lines):
        raise RuntimeError('model_run scan failed rc=%s got %d/%d lines: %s' % (rc, len(out), len(lines), err[-500:]))
    return out

# ------------------------------------------------------------------ implementation side
class Snap:
    def __init__(s):
        s.edges = collections.OrderedDict()   # out0 -> dict
        s.nodes = {}                          # path -> (dirty, mtime, exists)
        s.plan = None
        s.exit = None                         # (code, message) of the LAST `ev exit`
        s.first_exit = None
        s.has_snap = False
        s.parse_error = False
        s.manifest_rebuilt = False
        s.kind = 'build'

def parse_snaps(raw):
    """raw output lines of impl_run engine -> {sid: [Snap per build/clean step]}"""
    res = {}; cur = None; b = None
    for l in raw:
        w = l.split()
        if not w: continue
        if w[0] == 'scenario': cur = res.setdefault(w[1], []); b = None
        elif w[0] in ('build', 'clean') and len(w) == 2 and cur is not None:
            b = Snap(); b.kind = w[0]; cur.append(b)
        elif w[0] == 'end': b = None
        elif b is None: continue
        elif w[0] == 'snap':
            b.has_snap = True
            if w[1] == 'edge':
                kv = dict(x.split('=', 1) for x in w[3:])
                sp = lambda v: [] if v == '-' else [uh(x) for x in v.split(',')]
                b.edges[uh(w[2])] = dict(outs=sp(kv['outs']), ins=sp(kv['ins']), imp=int(kv['imp']), oo=int(kv['oo']),
                                         vals=sp(kv['vals']), phony=kv['phony'] == '1', ready=kv['ready'] == '1',
                                         want=kv['want'], mark=int(kv['mark']), depsmissing=kv['depsmissing'] == '1',
                                         depsloaded=kv['depsloaded'] == '1', hash=kv.get('hash'),
                                         restat=kv.get('restat') == '1', generator=kv.get('generator') == '1',
                                         deps=uh(kv['deps']) if 'deps' in kv else None,
                                         depfile=uh(kv['depfile']) if 'depfile' in kv else None)
            elif w[1] == 'node':
                kv = dict(x.split('=', 1) for x in w[3:])
                b.nodes[uh(w[2])] = (kv['dirty'] == '1', int(kv['mtime']), kv['exists'] == '1')
            elif w[1] == 'plan':
                kv = dict(x.split('=', 1) for x in w[2:])
                b.plan = (int(kv['wanted']), int(kv['commands']))
        elif w[0] == 'ev':
            if w[1] == 'exit':
                b.exit = (int(w[2]), uh(w[3]) if len(w) > 3 else '')
                if b.first_exit is None: b.first_exit = b.exit
            elif w[1] == 'parse-error': b.parse_error = True
            elif w[1] == 'manifest-rebuilt': b.manifest_rebuilt = True
    return res

# ------------------------------------------------------------------ virtual disk replay
class Disk:
    """mirror of VDisk in run_engine.cc: every mutation takes a fresh tick"""
    def __init__(s): s.files = {}; s.now = 1
    def put(s, p, c): s.now += 1; s.files[p] = (s.now, c)
    def apply(s, line):
        w = line.split()
        if w[0] == 'file': s.put(uh(w[1]), uh(w[2]))
        elif w[0] == 'step':
            op = w[1]
            if op == 'edit': s.put(uh(w[2]), uh(w[3]))
            elif op == 'rm': s.files.pop(uh(w[2]), None)
            elif op == 'touch':
                p = uh(w[2])
                if p in s.files: s.now += 1; s.files[p] = (s.now, s.files[p][1])
            elif op == 'settime':
                p = uh(w[2])
                if p in s.files: s.files[p] = (int(w[3]), s.files[p][1])

DEPFILE_RE = re.compile(r'^(\S+(?: \S+)*):((?: \S+)*) *\n?$')
def parse_depfile(content):
    """the subset of the Makefile syntax the harness and the hand-made scenarios write:
    `out [out..]: in in ..\\n`; anything else is reported as unparsable ('u')"""
    if content == '': return ('e',)
    m = DEPFILE_RE.match(content)
    if not m or any(c in content for c in '\\$#%*'): return ('u',)
    dedup = lambda l: [x for i, x in enumerate(l) if x not in l[:i]]     # DepfileParser keeps first occurrences
    def canon(p):
        # the loader canonicalises every name it reads from a depfile (the harness writes "./x" and "zz/../x" spellings)
        out = []
        for c in p.split('/'):
            if c in ('', '.'): continue
            if c == '..' and out and out[-1] != '..': out.pop()
            else: out.append(c)
        return ('/' if p.startswith('/') else '') + '/'.join(out) or '.'
    return ('p', dedup([canon(x) for x in dedup(m.group(1).split())]), [canon(x) for x in dedup(m.group(2).split())])

# ------------------------------------------------------------------ model input
def edge_ins(e):
    """Edge::inputs_ / counters as ManifestParser leaves them (incl. the phony self-reference
    filter, which does NOT adjust the counters)"""
    ins = e.exp + e.imp + e.oo
    if e.phony and len(e.outs) == 1 and e.n_imp_out == 0 and len(e.imp) == 0:
        ins = [i for i in ins if i != e.out0]
    return ins, len(e.imp), len(e.oo)

FALLBACK = {}
def fallback_hash(text):
    return '%016x' % (engine.fnv(text.encode('latin1')) ^ 0x5bd1e9955bd1e995)

class Ctx: pass

def model_input(g, targets, files, log, deps, hashes):
    """-> (line, ctx).  files: path->(mtime, content); log: out->(hash16, mtime); deps: out->(mtime,[ins]);
    hashes: out0 -> 16 hex digits (current command hash)"""
    c = Ctx(); c.g = g
    paths = set(targets)
    manifest_paths = set()
    for e in g.edges:
        manifest_paths |= set(e.exp + e.imp + e.oo + e.outs + e.vals)
    paths |= manifest_paths
    for o, (m, ins) in deps.items(): paths.add(o); paths |= set(ins)
    dfs = {}
    for e in g.edges:
        if e.depfile and not e.deps and not e.phony:
            if e.depfile in files:
                d = parse_depfile(files[e.depfile][1])
                dfs[e.idx] = d
                if d[0] == 'p': paths |= set(d[1]) | set(d[2])
    c.names = sorted(paths); c.id = {p: i for i, p in enumerate(c.names)}
    ID = c.id
    j = lambda l: '+'.join(str(ID[x]) for x in l) if l else '-'
    E = []
    c.eidx = {}
    for k, e in enumerate(g.edges):
        c.eidx[e.out0] = k
        ins, nimp, noo = edge_ins(e)
        kind = 0 if e.phony else (2 if e.deps else (1 if e.depfile else 0))
        h = '0' * 16 if e.phony else hashes.get(e.out0) or fallback_hash(e.eval_command())
        E.append('/'.join([j(ins), str(nimp), str(noo), j(e.outs), j(e.vals),
                           '%d%d%d' % (e.phony, (not e.phony) and e.restat, (not e.phony) and e.generator), str(kind), h]))
    M = ','.join('%d:%d' % (ID[p], files[p][0]) for p in c.names if p in files) or '-'
    B = ','.join('%d:%s:%d' % (ID[o], h, m) for o, (h, m) in sorted(log.items()) if o in ID) or '-'
    D = ','.join('%d:%d:%s' % (ID[o], m, j(ins)) for o, (m, ins) in sorted(deps.items())) or '-'
    F = []
    for k, e in enumerate(g.edges):
        d = dfs.get(e.idx)
        if d is None: continue
        if d[0] == 'p': F.append('%d:p:%s:%s' % (k, j(d[1]), j(d[2])))
        else: F.append('%d:%s' % (k, d[0]))
    L = ','.join(str(ID[p]) for p in c.names if p not in manifest_paths) or '-'
    line = 'N=%d T=%s E=%s M=%s B=%s D=%s F=%s L=%s' % (len(c.names), ','.join(str(ID[t]) for t in targets) or '-',
                                                       ';'.join(E) or '-', M, B, D, ','.join(F) or '-', L)
    return line, c

def parse_model(out, c):
    """model output line -> dict"""
    w = out.split()
    r = dict(kind=w[0])
    if w[0] == 'cycle': r['path'] = [c.names[int(x)] for x in w[1].split(',')]
    elif w[0] == 'missing': r['node'] = c.names[int(w[1])]; r['dep'] = None if w[2] == '-' else c.names[int(w[2])]
    elif w[0] == 'loaderr': r['edge'] = int(w[1])
    elif w[0] == 'ok':
        kv = dict(x.split('=', 1) for x in w[1:])
        r['nodes'] = {}
        for it in ([] if kv['nodes'] == '-' else kv['nodes'].split(',')):
            n, d, m, ex = it.split(':')
            r['nodes'][c.names[int(n)]] = (d == '1', int(m), int(ex))
        r['edges'] = {}
        for it in ([] if kv['edges'] == '-' else kv['edges'].split(',')):
            e, mark, ready, loaded, missing, nimp, ins, want = it.split(':')
            r['edges'][int(e)] = dict(mark=int(mark), ready=ready == '1', depsloaded=loaded == '1', depsmissing=missing == '1',
                                      imp=int(nimp), ins=[] if ins == '-' else [c.names[int(x)] for x in ins.split('+')], want=want)
        r['plan'] = (int(kv['wanted']), int(kv['commands']))
    return r

# ------------------------------------------------------------------ comparison
CYCLE_RE = re.compile(r'^dependency cycle: (.*?)( \[-w phonycycle=err\])?$')
MISSING_RE = re.compile(r"^'(.*?)'(?:, needed by '(.*?)',)? missing and no known rule to make it$")

def compare(r, sn, c):
    """model result r vs implementation Snap sn -> list of mismatch strings"""
    bad = []
    g = c.g
    if sn.has_snap:
        if r['kind'] != 'ok': return ['impl scan ok, model says %s' % r]
        for k, e in enumerate(g.edges):
            ie = sn.edges.get(e.out0); me = r['edges'][k]
            if ie is None: bad.append('edge %s not in snapshot' % e.out0); continue
            for f in ('ready', 'want', 'mark', 'depsmissing', 'depsloaded', 'ins', 'imp'):
                if ie[f] != me[f]: bad.append('edge %s %s: impl %s model %s' % (e.out0, f, ie[f], me[f]))
            if ie['oo'] != len(e.oo): bad.append('edge %s oo: impl %s ground truth %s' % (e.out0, ie['oo'], len(e.oo)))
            if ie['restat'] != ((not e.phony) and e.restat): bad.append('edge %s restat flag differs from ground truth' % e.out0)
            if ie['generator'] != ((not e.phony) and e.generator): bad.append('edge %s generator flag differs from ground truth' % e.out0)
        if len(sn.edges) != len(g.edges): bad.append('impl has %d edges, ground truth %d' % (len(sn.edges), len(g.edges)))
        seen = set()
        for p, (d, m, ex) in r['nodes'].items():
            if ex == 0 and not d: continue
            seen.add(p)
            i = sn.nodes.get(p)
            if i is None: bad.append('node %s visited by the model only (dirty=%s mtime=%s)' % (p, d, m)); continue
            if i != (d, m, ex == 2): bad.append('node %s: impl dirty/mtime/exists %s model %s' % (p, i, (d, m, ex == 2)))
        for p in sn.nodes:
            if p not in seen: bad.append('node %s visited by the implementation only %s' % (p, sn.nodes[p]))
        if sn.plan != r['plan']: bad.append('plan counters: impl %s model %s' % (sn.plan, r['plan']))
        return bad
    code, msg = sn.first_exit if sn.first_exit else (None, '')
    m = CYCLE_RE.match(msg)
    if m:
        path = m.group(1).split(' -> ')
        if r['kind'] != 'cycle': return ['impl reports cycle %s, model says %s' % (path, r['kind'])]
        if path != r['path']: bad.append('cycle path: impl %s model %s' % (path, r['path']))
        return bad
    m = MISSING_RE.match(msg)
    if m:
        if r['kind'] != 'missing': return ['impl reports %r, model says %s' % (msg, r['kind'])]
        if (m.group(1), m.group(2)) != (r['node'], r['dep']): bad.append('missing: impl %s model %s' % (m.groups(), (r['node'], r['dep'])))
        return bad
    if r['kind'] == 'loaderr':
        e = g.edges[r['edge']]
        if not msg.startswith(e.depfile + ': '): bad.append('load error: impl %r model edge %s' % (msg, e.out0))
        return bad
    return ['unclassified implementation result %r vs model %s' % (sn.first_exit, r['kind'])]

# ------------------------------------------------------------------ driver
def prepare(h, builds, snaps):
    """-> list of (step, Build, Snap, model line, ctx) for the comparable build steps"""
    disk = Disk()
    for l in h.header[1:]:
        if l.split()[0] == 'file': disk.apply(l)
    log = {}; deps = {}; i = 0; jobs = []
    known = {}     # command text -> hash (learnt from snapshots of this scenario)
    for st in h.steps:
        if st.kind == 'droplog': log = {}
        elif st.kind == 'dropdeps': deps = {}
        elif st.kind in ('build', 'clean'):
            if i >= len(builds) or i >= len(snaps): break
            b = builds[i]; sn = snaps[i]; i += 1
            if st.kind == 'build':
                g = st.g
                for e in g.edges:
                    ie = sn.edges.get(e.out0)
                    if ie and ie.get('hash') and not e.phony: known[e.eval_command()] = ie['hash']
                skip = sn.parse_error or sn.manifest_rebuilt or any('build.ninja' in e.outs for e in g.edges) \
                       or st.opts.get('crash') is not None \
                       or (st.opts.get('pce') and any(e.selfref for e in g.edges))      # -w phonycycle=err keeps the legacy self-reference: the scan model's input convention has it filtered
                targets = st.targets or enginecheck.default_targets(g)
                if not st.targets and sn.first_exit and 'could not determine root nodes' in sn.first_exit[1]: skip = True
                if sn.first_exit and sn.first_exit[1].startswith('unknown target'): skip = True
                if not sn.has_snap and not sn.first_exit: skip = True
                if not skip:
                    hashes = {e.out0: known.get(e.eval_command()) for e in g.edges if not e.phony}
                    line, c = model_input(g, targets, disk.files, log, deps, hashes)
                    jobs.append((st, b, sn, line, c))
            disk.files = dict(b.files); disk.now = b.now
            log, deps = b.log, b.deps
        else:
            for l_ in st.line.split('\n'): disk.apply(l_)      # (a manifest rewrite of a split graph is two edits)
    return jobs

def check(h, builds, raw=None):
    """mismatches of one scenario.  builds: the parsed Build list of this scenario (engine.parse_trace);
    raw: raw output lines of impl_run (any superset containing the scenario) or a list of Snap.
    engine.parse_trace drops the `snap` lines, so without `raw` the scenario is run again
    (the harness is deterministic)."""
    if raw is None:
        rc, parsed, err, raw = enginecheck.run_hists([h])
        builds = parsed.get(h.sid, [])
    snaps = raw
    if raw and isinstance(raw[0], str): snaps = parse_snaps(raw).get(h.sid, [])
    jobs = prepare(h, builds, snaps)
    if not jobs: return []
    outs = run_model([j[3] for j in jobs])
    res = []
    for k, ((st, b, sn, line, c), out) in enumerate(zip(jobs, outs)):
        for m in compare(parse_model(out, c), sn, c): res.append('%s build#%d: %s' % (h.sid, k, m))
    return res

def check_all(hists, stats=None):
    """run the scenarios through the implementation and the model; -> (mismatches, stats)"""
    stats = stats if stats is not None else collections.Counter()
    rc, parsed, err, raw = enginecheck.run_hists(hists)
    if rc != 0: raise RuntimeError('impl_run engine rc=%s: %s' % (rc, err[-800:]))
    snaps = parse_snaps(raw)
    alljobs = []
    for h in hists:
        for j in prepare(h, parsed.get(h.sid, []), snaps.get(h.sid, [])): alljobs.append((h,) + j)
    outs = run_model([j[4] for j in alljobs]) if alljobs else []
    bad = []
    for (h, st, b, sn, line, c), out in zip(alljobs, outs):
        r = parse_model(out, c)
        stats['builds'] += 1; stats['result:' + r['kind']] += 1
        if r['kind'] == 'ok':
            for k, me in r['edges'].items():
                e = c.g.edges[k]
                if me['mark'] == 2:
                    stats['edges visited'] += 1
                    if me['depsmissing']: stats['edge deps_missing'] += 1
                    if len(me['ins']) > len(edge_ins(e)[0]): stats['edge deps spliced'] += 1
                    if e.restat and not e.phony: stats['edge restat visited'] += 1
                    if e.generator and not e.phony: stats['edge generator visited'] += 1
                    if e.phony and not me['ins']: stats['edge phony input-less'] += 1
                    if e.vals: stats['edge with validations'] += 1
                    if me['want'] == 's': stats['edge wanted'] += 1
                    if me['want'] == 'n': stats['edge want=nothing'] += 1
                    if me['ready']: stats['edge ready'] += 1
            stats['nodes dirty'] += sum(1 for v in r['nodes'].values() if v[0])
            stats['nodes phony-mtime'] += sum(1 for v in r['nodes'].values() if v[2] == 1 and v[1] > 0)
        ms = compare(r, sn, c)
        if ms:
            stats['mismatching builds'] += 1
            for m in ms: bad.append('%s: %s   [model line: %s]' % (h.sid, m, line))
    return bad, stats

# ------------------------------------------------------------------ scenarios beyond gen_history
def _mk_hist(sid, edges, sources, files=None):
    """edges: list of dict(outs, exp, imp, oo, vals, phony, restat, generator, deps, depfile, hidden, n_imp_out)"""
    g = engine.Graph()
    for i, d in enumerate(edges):
        e = engine.Edge(i)
        for k, v in d.items(): setattr(e, k, v)
        g.edges.append(e)
    for s in sources: g.sources[s] = 'src-' + s
    h = enginecheck.Hist(sid, g)
    for p, c in (files or {}).items(): h.header.append('file %s %s' % (engine.hx(p), engine.hx(c)))
    return h

def _step(h, kind, *args, **kw):
    h.add(enginecheck.Step(kind, 'step ' + kind + ''.join(' ' + (a if isinstance(a, str) and a.isdigit() else engine.hx(a)) for a in args), **kw))

def handmade_histories():
    """cycles through every input kind, multi-output statements, cycles in edges but not in nodes
    (src/graph_test.cc), cycles closed only by depfile / deps-log records (visible only while the
    consumer is clean), validations that depend on their requester (NOT a cycle), missing sources,
    depfile oddities, phony self references with a stale order-only counter, generator rules"""
    H = []
    R = None
    def hist(name, edges, sources, targets_list, files=None):
        h = _mk_hist('hand_' + name, edges, sources, files)
        for t in targets_list: h.build(R, t, j=1, k=1)
        H.append(h); return h
    E = lambda outs, exp=(), imp=(), oo=(), **kw: dict(outs=list(outs), exp=list(exp), imp=list(imp), oo=list(oo), **kw)
    # manifest cycles, one per input kind, each started from every node
    for kind in ('exp', 'imp', 'oo'):
        for tg in (['a'], ['b'], ['c'], None):
            hist('cyc3_%s_%s' % (kind, tg), [E(['a'], **{kind: ['b']}), E(['b'], ['s'], **({kind: ['c']} if kind != 'exp' else {})) if kind != 'exp' else E(['b'], ['c']),
                                            E(['c'], **{kind: ['a']}), E(['top'], ['a'])], ['s'], [tg or ['top']])
    hist('self', [E(['a'], ['a'])], [], [['a']])
    hist('self_oo', [E(['a'], ['s'], oo=['a'])], ['s'], [['a']])
    # graph_test.cc CycleInEdgesButNotInNodes1..4
    hist('cien1', [E(['a', 'b'], ['a'])], [], [['b'], ['a']])
    hist('cien2', [E(['b', 'c'], ['a']), E(['a'], ['c'])], [], [['b'], ['c'], ['a']])
    hist('cien3', [E(['b'], ['a']), E(['a', 'e'], ['d']), E(['c', 'd'], ['c'])], [], [['b'], ['e'], ['d'], ['c']])
    hist('cien4', [E(['d'], ['c']), E(['c'], ['b']), E(['b'], ['a']), E(['a', 'e'], ['d']), E(['f'], ['e'])], [], [['f'], ['e'], ['a'], ['d', 'f']])
    hist('cyc_implicit_out', [E(['a', 'ia'], ['s'], n_imp_out=1), E(['b'], ['ia']), E(['s2'], ['b'])], ['s'], [['s2']])
    hist('cyc_implicit_out2', [E(['a', 'ia'], ['b'], n_imp_out=1), E(['b'], ['ia'])], [], [['a'], ['ia'], ['b']])
    hist('cyc_phony', [E(['p'], ['q'], phony=True), E(['q'], ['r'], phony=True), E(['r'], oo=['p'])], [], [['p'], ['q'], ['r']])
    hist('phony_selfref', [E(['p'], ['c', 'p'], phony=True), E(['x'], ['p'])], ['c'], [['x'], ['p']])
    hist('phony_selfref_oo', [E(['p'], ['c'], oo=['p'], phony=True), E(['x'], ['p'])], ['c'], [['x'], ['x']])
    # (`build p: phony || p` leaves inputs_ empty with order_only_deps_ = 1: the harness' own
    #  manifest_reads loop runs out of bounds on it, so it is not part of the run)
    hist('cyc_outside_closure', [E(['a'], ['b']), E(['b'], ['a']), E(['ok'], ['s'])], ['s'], [['ok'], ['ok', 'a']])
    # validations depending on the statement that requests them: accepted
    hist('val_requester', [E(['a'], ['s'], vals=['v']), E(['v'], ['a'])], ['s'], [['a'], ['a'], ['v']])
    hist('val_self', [E(['a'], ['s'], vals=['a'])], ['s'], [['a'], ['a']])
    hist('val_chain', [E(['a'], ['s'], vals=['v']), E(['v'], ['a'], vals=['w']), E(['w'], ['v', 'a'], vals=['a', 'v'])], ['s'], [['a'], ['a']])
    # ... but a real cycle inside the validation's own closure is diagnosed
    hist('val_cycle', [E(['a'], ['s'], vals=['v']), E(['v'], ['w']), E(['w'], ['v'])], ['s'], [['a']])
    hist('val_leaf_missing', [E(['a'], ['s'], vals=['nosuch'])], ['s'], [['a'], ['a']])
    # missing sources
    hist('missing_exp', [E(['a'], ['nx'])], [], [['a']])
    hist('missing_oo', [E(['a'], ['s'], oo=['nx'])], ['s'], [['a']])
    hist('missing_target', [E(['a'], ['s'], oo=['nx'])], ['s'], [['nx'], ['s'], ['s', 'a']])
    hist('missing_deep', [E(['a'], ['b', 's']), E(['b'], ['s'], imp=['nx']), E(['c'], ['s'])], ['s'], [['c', 'a'], ['a', 'c']])
    # cycle closed only by the deps log: o (deps=gcc) reads x, x is built from o
    for kind in ('gcc', 'msvc'):
        h = hist('depslog_cycle_' + kind, [E(['o'], ['s'], deps=kind, depfile='o.d' if kind == 'gcc' else '', hidden=['x']), E(['x'], ['o'])], ['s'], [['x']])
        h.build(R, ['x'], j=1, k=1)                 # o clean -> deps loaded -> cycle o -> x -> o
        h.edit('s', 's.new'); h.build(R, ['x'], j=1, k=1)   # o dirty -> deps only probed -> NO cycle reported
        h.build(R, ['o'], j=1, k=1)
    # cycle closed only by a depfile
    h = hist('depfile_cycle', [E(['a', 'b'], ['s'], depfile='dep.d'), E(['c'], ['b']), E(['d'], ['a'])], ['s'], [['d', 'c']])
    _step(h, 'edit', 'dep.d', 'a: c\n'); h.build(R, ['d'], j=1, k=1); h.build(R, ['c'], j=1, k=1)
    h.edit('s', 's.1'); h.build(R, ['d'], j=1, k=1)
    h = hist('depfile_cycle0', [E(['a', 'b'], ['s'], depfile='dep.d')], ['s'], [['a']])
    _step(h, 'edit', 'dep.d', 'a: b\n'); h.build(R, ['a'], j=1, k=1)
    _step(h, 'edit', 'dep.d', 'a: a\n'); h.build(R, ['b'], j=1, k=1)
    # depfile oddities on a clean and on a dirty statement
    for name, content in (('empty', ''), ('garbage', 'garbage\n'), ('wrongfirst', 'b a: s2\n'), ('other', 'zz: s2\n'),
                          ('undeclared', 'a zz: s2\n'), ('both', 'a b: s2 s3\n'), ('noins', 'a:\n'), ('unknownin', 'a: never_seen\n')):
        h = hist('depfile_' + name, [E(['a', 'b'], ['s'], depfile='dep.d'), E(['top'], ['a'])], ['s', 's2', 's3'], [['top']])
        _step(h, 'edit', 'dep.d', content); h.build(R, ['top'], j=1, k=1); h.build(R, ['top'], j=1, k=1)
        _step(h, 'edit', 'dep.d', content); h.edit('s', 's.2'); h.build(R, ['top'], j=1, k=1)
        _step(h, 'edit', 'dep.d', content); _step(h, 'rm', 'a'); h.build(R, ['top'], j=1, k=1)
    # a recorded header that no longer exists: rebuild, not an error (generated_by_dep_loader)
    h = hist('gone_header', [E(['o'], ['s'], deps='gcc', depfile='o.d', hidden=['hdr'])], ['s', 'hdr'], [['o']])
    _step(h, 'rm', 'hdr'); h.build(R, ['o'], j=1, k=1); h.build(R, ['o'], j=1, k=1); h.build(R, ['hdr'], j=1, k=1)
    # generator rule: command line change alone does not dirty
    h = hist('generator', [E(['gen'], ['s'], generator=True), E(['use'], ['gen'])], ['s'], [['use']])
    h.g.edges[0].ver += 1; h.rewrite_manifest(); h.build(R, ['use'], j=1, k=1)
    h.g.edges[1].ver += 1; h.rewrite_manifest(); h.build(R, ['use'], j=1, k=1)
    _step(h, 'droplog'); h.build(R, ['use'], j=1, k=1); h.build(R, ['use'], j=1, k=1)
    # C10 witness: consumer dirty for its own reason + generated recorded header dirty
    h = hist('c10', [E(['hdr'], ['hs']), E(['obj'], ['src'], deps='gcc', depfile='obj.d', hidden=['hdr'])], ['hs', 'src'], [['hdr', 'obj']])
    h.edit('hs', 'hs.1'); h.edit('src', 'src.1'); h.build(R, ['obj'], j=1, k=1); h.build(R, ['obj'], j=1, k=1)
    return H

def gen_wild_history(rnd, sid):
    """small graphs with inputs / hidden reads / validations drawn from ALL nodes (cycles of every
    kind, also closed only by recorded deps), sources that never exist, generator rules, depfile
    edits, mtime ties (settime), arbitrary targets"""
    g = engine.Graph()
    nsrc = rnd.randrange(1, 5); ne = rnd.randrange(1, 6)
    srcs = ['s%d' % i for i in range(nsrc)]
    for s in srcs: g.sources[s] = s + '.0'
    acyclic_manifest = rnd.random() < 0.5
    edges = []
    for idx in range(ne):
        e = engine.Edge(idx); e.outs = ['o%d' % idx]
        if rnd.random() < 0.3: e.outs.append('o%db' % idx)
        if rnd.random() < 0.15: e.outs.append('io%d' % idx); e.n_imp_out = 1
        edges.append(e)
    allouts = [o for e in edges for o in e.outs]
    ghost = ['nx'] if rnd.random() < 0.15 else []
    for e in edges:
        pool = srcs + ghost + ([o for p in edges[:e.idx] for o in p.outs] if acyclic_manifest else allouts)
        everything = srcs + ghost + allouts
        pick = lambda l, k: [rnd.choice(l) for _ in range(k)] if l else []
        e.phony = rnd.random() < 0.2
        e.exp = pick(pool, rnd.choice([0, 1, 1, 2, 3]))
        if rnd.random() < 0.4: e.imp = pick(pool, rnd.randrange(1, 3))
        if rnd.random() < 0.4: e.oo = pick(pool, rnd.randrange(1, 3))
        if rnd.random() < 0.3: e.vals = pick(everything, rnd.randrange(1, 3))
        if not e.phony:
            e.restat = rnd.random() < 0.25; e.generator = rnd.random() < 0.15
            if rnd.random() < 0.5:
                kind = rnd.choice(['gcc', 'msvc', 'depfile'])
                if kind != 'depfile': e.deps = kind
                if kind != 'msvc': e.depfile = 'o%d.d' % e.idx
                e.hidden = pick(everything if rnd.random() < 0.5 else srcs, rnd.randrange(0, 3))
        if e.phony and len(edge_ins(e)[0]) < len(e.oo):
            # the self-reference filter would leave inputs_.size() < order_only_deps_ (stale counter):
            # the harness' own manifest_reads loop runs out of bounds on that, keep clear of it
            e.oo = [x for x in e.oo if x != e.out0]
        g.edges.append(e)
    if rnd.random() < 0.3: g.defaults = rnd.sample(allouts, rnd.randrange(1, min(3, len(allouts)) + 1))
    h = enginecheck.Hist(sid, g)
    everything = srcs + ghost + allouts
    def build():
        targets = None
        if rnd.random() < 0.6: targets = [rnd.choice(everything) for _ in range(rnd.randrange(1, 4))]
        if targets and ghost and all(t in ghost for t in targets) and rnd.random() < 0.5: targets = None
        ne_ = [e for e in g.edges if not e.phony]
        fl = {}
        if ne_ and rnd.random() < 0.2:
            e = rnd.choice(ne_); fl[e.out0] = (1, rnd.random() < 0.5)
        h.build(rnd, targets, j=rnd.choice([1, 2, 4]), k=rnd.choice([1, 0]), sched=enginecheck.rand_sched(rnd, 2 * ne + 2), faults=fl or None)
    build()
    for _ in range(rnd.randrange(2, 9)):
        r = rnd.random(); ne_ = [e for e in g.edges if not e.phony]
        if r < 0.2:
            s = rnd.choice(srcs); h.edit(s, '%s.%d' % (s, rnd.randrange(10 ** 6)))
        elif r < 0.3: _step(h, 'touch', rnd.choice(everything))
        elif r < 0.4: _step(h, 'rm', rnd.choice(everything))
        elif r < 0.55: _step(h, 'settime', rnd.choice(everything), str(rnd.randrange(1, 40)))
        elif r < 0.65 and ne_:
            rnd.choice(ne_).ver += 1; h.rewrite_manifest()
        elif r < 0.75:
            es = [e for e in ne_ if e.deps or e.depfile]
            if es:
                e = rnd.choice(es); e.hidden = [rnd.choice(everything) for _ in range(rnd.randrange(0, 3))]
                h.add(enginecheck.Step('sethidden', 'step sethidden %s %s' % (engine.hx(e.out0), ' '.join(engine.hx(x) for x in e.hidden)), edge=e.idx))
        elif r < 0.85:
            es = [e for e in ne_ if e.depfile and not e.deps]
            if es:
                e = rnd.choice(es)
                c = rnd.choice(['', 'junk\n', '%s: %s\n' % (rnd.choice(e.outs + ['zz']), ' '.join(rnd.choice(everything) for _ in range(rnd.randrange(0, 3)))),
                                '%s %s: %s\n' % (e.out0, rnd.choice(e.outs + ['zz']), rnd.choice(everything))])
                _step(h, 'edit', e.depfile, c)
        elif r < 0.9: _step(h, 'droplog')
        elif r < 0.95: _step(h, 'dropdeps')
        else:
            es = [e for e in ne_ if e.depfile]
            if es: _step(h, 'rm', rnd.choice(es).depfile)
        if rnd.random() < 0.75:
            build()
            if rnd.random() < 0.3: build()
    build()
    return h

def selftest(seed=1, nrandom=300, nwild=600, verbose=True):
    """the correspondence run: gen_history scenarios with varied features, wild scenarios and the
    hand-made ones.  -> (mismatches, stats)"""
    import random
    rnd = random.Random(seed)
    FE = [dict(), dict(deps=0.7), dict(deps=0.9, restat=0.5), dict(phony=0.5, validations=0.4),
          dict(validations=0.6, multiout=0.6, impout=0.4), dict(restat=0.7, orderonly=0.7),
          dict(implicit=0.8, orderonly=0.8, phony=0.3, deps=0.5),
          dict(deps=0.8, phony=0.3, validations=0.3, restat=0.4, multiout=0.4)]
    stats = collections.Counter(); bad = []
    groups = [('hand', handmade_histories())]
    hs = [enginecheck.gen_history(rnd, 'r%d_%d' % (seed, i), rnd.randrange(1, 10), rnd.randrange(2, 9), feat=rnd.choice(FE),
                                  faults=rnd.choice([0.0, 0.3, 0.6]), wf_reads=rnd.random() < 0.6) for i in range(nrandom)]
    groups += [('random', hs[i:i + 50]) for i in range(0, len(hs), 50)]
    ws = [gen_wild_history(rnd, 'w%d_%d' % (seed, i)) for i in range(nwild)]
    groups += [('wild', ws[i:i + 50]) for i in range(0, len(ws), 50)]
    for name, hl in groups:
        st = collections.Counter()
        b, st = check_all(hl, st)
        bad += b
        for k, v in st.items(): stats[k] += v; stats[name + ' ' + k] += v if k in ('builds',) else 0
    if verbose:
        print('scanmodel selftest seed=%d: %d mismatches' % (seed, len(bad)))
        for k, v in sorted(stats.items()):
            if v: print('  %-32s %d' % (k, v))
        for m in bad[:20]: print(m[:900])
    return bad, stats

if __name__ == '__main__':
    a = [int(x) for x in sys.argv[1:]] + [1, 300, 600][len(sys.argv) - 1:]
    bad, stats = selftest(a[0], a[1], a[2])
    sys.exit(1 if bad else 0)
