"""Shared driver for the engine properties: generate (graph, history, schedules, faults), run the real
engine through impl_run, parse the trace, apply the property oracles (ground truth from the generator,
never ninja's own data structures)."""
import copy, os, random, collections
import vlib, engine
from engine import hx

class Step:
    def __init__(s, kind, line, **kw):
        s.kind = kind; s.line = line; s.__dict__.update(kw)

def manifest_lines(g):
    """the step line(s) that (re)write the manifest: build.ninja and, for a split graph, part.ninja"""
    l = 'step edit %s %s' % (hx('build.ninja'), hx(g.manifest()))
    if g.is_split(): l = 'step edit %s %s\n' % (hx('part.ninja'), hx(g.manifest(part=True))) + l
    return l

class Hist:
    """one scenario: graph + history; records ground truth at each build step"""
    def __init__(s, sid, g):
        s.sid = sid; s.g = g; s.sources = dict(g.sources); s.steps = []; s.header = engine.scenario_header(sid, g)
        s.g0 = copy.deepcopy(g)
        s.tags = set()
    def text(s):
        return '\n'.join(s.header + [st.line for st in s.steps] + ['end']) + '\n'
    def add(s, st): s.steps.append(st)
    def edit(s, path, content):
        s.sources[path] = content
        s.add(Step('edit', 'step edit %s %s' % (hx(path), hx(content)), path=path))
    def rewrite_manifest(s):
        s.add(Step('manifest', manifest_lines(s.g), g_after=copy.deepcopy(s.g)))
    def transformed(s, sid, f, manifest_on_sethidden=False):
        """the same history on the graph f(g) (f applied to every snapshot)"""
        h2 = Hist(sid, f(s.g0))
        for st in s.steps:
            if st.kind == 'manifest':
                h2.add(Step('manifest', manifest_lines(f(st.g_after)), g_after=f(st.g_after)))
            elif st.kind == 'sethidden':
                g2 = f(st.g_after); e2 = [e for e in g2.edges if e.idx == st.edge][0]
                h2.add(Step('sethidden', 'step sethidden %s %s' % (hx(e2.out0), ' '.join(hx(x) for x in e2.hidden)), edge=st.edge, g_after=g2))
                if manifest_on_sethidden: h2.add(Step('manifest', manifest_lines(g2), g_after=g2))
            elif st.kind == 'build':
                d = dict(st.__dict__); d['g'] = f(st.g); d.pop('kind'); d.pop('line')
                h2.add(Step('build', st.line, **d))
            else:
                h2.add(st)
        return h2
    def build(s, rnd, targets=None, **kw):
        g = s.g
        line = engine.build_step(targets=targets or (), **kw)
        snap = copy.deepcopy(g)
        st = Step('build', line, g=snap, sources=dict(s.sources), targets=list(targets or []), opts=kw)
        s.add(st); return st

def replay_text(h):
    """scenario text + the generator's ground truth (pickled Hist) so that a replay re-applies the same oracles"""
    import pickle, base64
    return h.text() + '# hist-pickle ' + base64.b64encode(pickle.dumps(h)).decode() + '\n'

def load_replay(path):
    import pickle, base64
    hs = []
    for l in open(path, errors='replace'):
        if l.startswith('# hist-pickle '): hs.append(pickle.loads(base64.b64decode(l.split()[2])))
    return hs

def default_targets(g):
    if g.defaults: return list(g.defaults)
    used = set()
    for e in g.edges: used |= set(e.manifest_ins())
    return [o for e in g.edges for o in e.outs if o not in used]

def rand_sched(rnd, n): return [rnd.randrange(0, 8) for _ in range(n)]

def gen_history(rnd, sid, nedges, nsteps, feat=None, faults=0.0, wf_reads=True, repeat_builds=True, partial_targets=0.3,
                mutate=True, tokens=0.25, graph_hook=None, no_dd_mutation=False, drop_wf_after_first=False):
    g = engine.gen_graph(rnd, nedges, feat, wf_reads)
    if graph_hook: g = graph_hook(g)
    h = Hist(sid, g)
    def do_build(fp):
        ne = [e for e in g.edges if not e.phony]
        targets = None
        if rnd.random() < partial_targets:
            outs = [e.out0 for e in g.edges]
            targets = rnd.sample(outs, rnd.randrange(1, min(3, len(outs)) + 1))
        j = rnd.choice([1, 1, 2, 3, 4, 8]); k = rnd.choice([1, 1, 1, 2, 3, 0])
        fl = {}
        if fp and rnd.random() < fp and ne:
            for e in rnd.sample(ne, rnd.randrange(1, min(3, len(ne)) + 1)):
                fl[e.out0] = (rnd.choice([1, 1, 2, 3, 127, 255]), rnd.random() < 0.4)
        tok = rnd.choice([0, 1, 2, 3]) if rnd.random() < tokens else None
        return h.build(rnd, targets, j=j, k=k, sched=rand_sched(rnd, 2 * len(g.edges) + 2), faults=fl or None, tokens=tok)
    if drop_wf_after_first:
        # everything is built once with the manifest path in place, so that every dependency is on record from an ordered run
        h.build(rnd, [e.out0 for e in g.edges], j=rnd.choice([1, 3]), k=1, sched=rand_sched(rnd, 2 * len(g.edges) + 2))
    else:
        do_build(faults * 0.5)
    if drop_wf_after_first:
        # from now on the generators of discovered dependencies are reachable ONLY through the recorded deps
        prod0 = g.producer()
        for e in g.edges:
            if e.hidden and (e.deps or e.depfile): e.oo = [x for x in e.oo if not (x in e.hidden and x in prod0)]
        h.rewrite_manifest(); wf_reads = False
    for _ in range(nsteps):
        if not mutate: break
        r = rnd.random()
        ne = [e for e in g.edges if not e.phony]
        if r < 0.35:
            sname = rnd.choice(sorted(x for x in h.sources if not x.startswith('dd')))
            h.edit(sname, 'common' if rnd.random() < 0.15 else '%s.%d' % (sname, rnd.randrange(1000000)))
        elif r < 0.43:
            sname = rnd.choice(sorted(h.sources)); h.add(Step('touch', 'step touch %s' % hx(sname), path=sname))
        elif r < 0.45 and ne:
            # the manifest gains an output for an existing statement while a file of that name already lies around (written by
            # hand, or by a statement that has been removed): no log entry for it, so the statement has to run again
            es = [e for e in ne if not e.deps and not e.depfile and e.idx < 900 and not e.generator]      # (a generator statement needs no log entry)
            if es:
                e = rnd.choice(es); name = 'xo%d_%d' % (e.idx, len(e.outs))
                h.add(Step('edit', 'step edit %s %s' % (hx(name), hx('lying-around')), path=name))
                if rnd.random() < 0.5: e.outs.append(name); e.n_imp_out += 1
                else: e.outs.insert(len(e.outs) - e.n_imp_out, name)
                h.rewrite_manifest(); h.tags.add('add-output')
        elif r < 0.6 and ne:
            e = rnd.choice(ne); o = rnd.choice(e.outs); h.add(Step('rm', 'step rm %s' % hx(o), path=o)); h.tags.add('rm-output')
        elif r < 0.75 and ne:
            e = rnd.choice(ne); e.ver += 1; h.rewrite_manifest()
        elif r < 0.8:
            es = [e for e in ne if e.rsp and not e.rsp_empty]
            if es: e = rnd.choice(es); e.rspver += 1; h.rewrite_manifest()
        elif r < 0.9:
            es = [e for e in ne if (e.deps or e.depfile) and any(x in h.sources for x in e.exp)]
            if es:
                e = rnd.choice(es)
                cand = [a for a in h.sources if a not in e.exp + e.imp]
                prod = g.producer()
                if e.hidden and cand and rnd.random() < 0.6:
                    # swap one recorded dependency, same count (the deps-log "unchanged?" shortcut must see it)
                    k2 = rnd.randrange(len(e.hidden)); e.hidden = e.hidden[:k2] + [rnd.choice(cand)] + e.hidden[k2 + 1:]
                    e.hidden = [x for i, x in enumerate(e.hidden) if x not in e.hidden[:i]]
                else:
                    e.hidden = rnd.sample(cand, min(len(cand), rnd.randrange(0, 3)))
                if e.dyndep and e.dyndep in g.dd_info and e.out0 in g.dd_info[e.dyndep]:
                    e.hidden = e.hidden + [x for x in g.dd_info[e.dyndep][e.out0][1] if x not in e.hidden]   # dyndep-discovered inputs stay read
                for hh in e.hidden:
                    if hh in prod and hh not in e.oo and wf_reads: e.oo.append(hh)
                src = rnd.choice([x for x in e.exp if x in h.sources])
                h.add(Step('sethidden', 'step sethidden %s %s' % (hx(e.out0), ' '.join(hx(x) for x in e.hidden)), edge=e.idx, g_after=copy.deepcopy(g)))
                h.edit(src, '%s.%d' % (src, rnd.randrange(1000000)))
        elif r < 0.91 and g.dd_info and not no_dd_mutation:
            # change what a dyndep file says (valid for the graph): add/remove a discovered input, flip restat
            dd = rnd.choice(sorted(g.dd_info)); info = g.dd_info[dd]
            cands = [o for o in sorted(info) if any(x in h.sources and not x.startswith('dd') for x in [y for ed in g.edges if ed.out0 == o for y in ed.exp])]
            if not cands: continue
            out0 = rnd.choice(cands); io, ii, rs = info[out0]
            e = [x for x in g.edges if x.out0 == out0][0]
            # what a command reads only changes because one of its own sources changed
            h.edit(rnd.choice([x for x in e.exp if x in h.sources and not x.startswith('dd')]), 'ddedit.%d' % rnd.randrange(1000000))
            pos = g.edges.index(e)
            earlier = [x for x in list(g.sources) + [o for pe in g.edges[:pos] for o in pe.outs] if x not in e.manifest_ins() and x != dd and not x.startswith('dd')]
            if ii and rnd.random() < 0.4: ii = ii[:-1]
            elif earlier: ii = ii + [x for x in [rnd.choice(earlier)] if x not in ii]
            if rnd.random() < 0.2: rs = not rs
            e.hidden = [x for x in e.hidden if x not in info[out0][1]] + ii
            info[out0] = (io, ii, rs)
            text = engine.dd_text(info)
            h.add(Step('sethidden', 'step sethidden %s %s' % (hx(e.out0), ' '.join(hx(x) for x in e.hidden)), edge=e.idx, g_after=copy.deepcopy(g)))
            if dd in g.ddtext:
                g.ddtext[dd] = text
                h.add(Step('setdd', 'step setdd %s %s' % (hx(dd), hx(text))))
                pe = [x for x in g.edges if dd in x.outs][0]
                srcs = [x for x in pe.exp if x in h.sources]
                if srcs: h.edit(rnd.choice(srcs), 'ddsrc.%d' % rnd.randrange(1000000))
                else: h.add(Step('rm', 'step rm %s' % hx(dd), path=dd))
            else:
                h.edit(dd, text)
        elif r < 0.93:
            h.add(Step('droplog', 'step droplog')); h.tags.add('droplog')
        elif r < 0.96:
            h.add(Step('dropdeps', 'step dropdeps')); h.tags.add('dropdeps')
        else:
            es = [e for e in ne if e.depfile and not e.deps]
            if es: e = rnd.choice(es); h.add(Step('rm', 'step rm %s' % hx(e.depfile), path=e.depfile)); h.tags.add('rm-depfile')
        if rnd.random() < 0.7:
            st = do_build(faults)
            if repeat_builds and rnd.random() < 0.5:
                h.add(Step('build', st.line, g=st.g, sources=st.sources, targets=st.targets, opts=st.opts, repeat=True))
    st = do_build(0.0)
    if repeat_builds:
        h.add(Step('build', st.line, g=st.g, sources=st.sources, targets=st.targets, opts=st.opts, repeat=True))
    return h

def run_hists(hists, flavor='plain', timeout=900, chunk=None):
    """run scenarios through the real engine; returns {sid: [Build]}; raises on harness crash"""
    impl = os.path.join(vlib.build_impl(flavor), 'impl_run')
    import concurrent.futures
    chunk = chunk or 250
    groups = [hists[i:i + chunk] for i in range(0, len(hists), chunk)]
    def work(group):
        outs = []; crashes = []
        todo = list(group)
        while todo:
            text = ''.join(h.text() for h in todo)
            rc, out, err = vlib.run_lines(impl, 'engine', text.split('\n'), timeout=timeout)
            outs += out
            if rc == 0: break
            # the engine died inside a scenario: that is an observation; continue after the offender
            sids = [l.split()[1] for l in out if l.startswith('scenario ')]
            sid = sids[-1] if sids else todo[0].sid
            k = [i for i, h in enumerate(todo) if h.sid == sid]
            k = k[0] if k else 0
            crashes.append((todo[k], rc, err[-600:]))
            outs.append('end ' + sid)
            todo = todo[k + 1:]
        return outs, crashes
    allout = []; crashes = []
    with concurrent.futures.ThreadPoolExecutor(max_workers=8) as ex:
        for o, c in ex.map(work, groups): allout += o; crashes += c
    run_hists.crashes = crashes
    return 0, engine.parse_trace(allout), '', allout

def pair(h, builds):
    """[(Step, Build, pre)] for the build steps of a history; pre = (log, deps) meaning right before
    the build (the previous build's final state adjusted by droplog/dropdeps steps)"""
    res = []; i = 0; log = {}; deps = {}
    for st in h.steps:
        if st.kind == 'droplog': log = {}
        elif st.kind == 'dropdeps': deps = {}
        elif st.kind == 'build':
            if i >= len(builds): break
            b = builds[i]; i += 1
            b.pre_log, b.pre_deps = log, deps
            res.append((st, b))
            log, deps = b.log, b.deps
    return res

def always_dirty_phony(g):
    """the documented always-dirty case: a phony statement without inputs (its file never exists here)"""
    return any(e.phony and not e.manifest_ins() for e in g.edges)

# ------------------------------------------------------------------ oracles
def oracle_c01(h, st, b):
    """content of everything in the closure equals the from-scratch build"""
    if b.exit != 0 or st.opts.get('midedits'): return None
    g = st.g
    try: exp = g.clean_contents(st.sources)
    except RecursionError: return None
    prod = g.producer()
    targets = st.targets or default_targets(g)
    bad = []
    for n in sorted(g.closure(targets)):
        e = prod.get(n)
        if e is None or e.phony: continue
        got = b.files.get(n)
        if got is None: bad.append(('missing', n, '%s missing after successful build' % n))
        elif got[1] != exp[n]: bad.append(('stale', n, '%s has stale content %s' % (n, got[1][:12])))
    return bad or None

def oracle_c02(h, st, b, prev_st, prev_b):
    """a repeated build right after a successful one does nothing"""
    if not getattr(st, 'repeat', False) or prev_b is None or prev_b.exit != 0: return None
    if always_dirty_phony(st.g): return None
    if b.started or not b.uptodate:
        return ['second run after a successful build started %s (uptodate=%s)' % (b.started, b.uptodate)]
    return None

def oracle_c04(h, st, b):
    g = st.g; prod = g.producer(); bad = []
    fin_ok = set(); started_at = {}
    for i, ev in enumerate(b.events):
        if ev[0] == 'start': started_at.setdefault(ev[1], i)
    for i, ev in enumerate(b.events):
        if ev[0] == 'finish' and ev[2] == 0: fin_ok.add(ev[1])
        if ev[0] != 'start': continue
        out0, info = ev[1], ev[2]
        e = prod.get(out0)
        if e is None: continue
        known = set(info['ins']) | set(g.all_ins(e, with_hidden=False))
        for n in sorted(known):
            p = prod.get(n)
            if p is None or p.phony or p is e: continue
            if p.out0 in started_at and p.out0 not in fin_ok:
                bad.append('%s started before producer %s of its input %s finished successfully' % (out0, p.out0, n))
        if info['dirs'] != '1': bad.append('%s started while an output/depfile directory does not exist' % out0)
        if info['rsp'] == '0': bad.append('%s started without its response file holding rspfile_content' % out0)
    return bad or None

def oracle_c05(h, st, b, prev_b):
    g = st.g; bad = []; failed = []; k = st.opts.get('k', 1)
    prod = g.producer(); nfail = 0; blocked = set()
    for ev in b.events:
        if ev[0] == 'finish' and ev[2] != 0:
            failed.append((ev[1], ev[2])); nfail += 1
            e = prod.get(ev[1])
            if e: blocked |= g.dependents_of(e)
        if ev[0] == 'start':
            e = prod.get(ev[1])
            if e and e.idx in blocked: bad.append('%s started although it depends on a failed command' % ev[1])
            if k and nfail >= k: bad.append('%s started after the failure budget -k %d was used up' % (ev[1], k))
    if failed:
        if b.exit in (0, None): bad.append('exit status %s after failed commands %s' % (b.exit, failed))
        elif b.exit != 130 and b.exit not in [c for _, c in failed]: bad.append('exit status %d is not the status of a failed command %s' % (b.exit, failed))
        if prev_b is not None:
            for o0, c in failed:
                e = prod.get(o0)
                ok_again = any(ev[0] == 'finish' and ev[1] == o0 and ev[2] == 0 for ev in b.events)
                for o in (g.eff_outs(e) if e else []):
                    if not ok_again and b.log.get(o) != b.pre_log.get(o): bad.append('build log entry of %s changed by a FAILED command' % o)
                    if not ok_again and b.deps.get(o) != b.pre_deps.get(o): bad.append('deps log entry of %s changed by a FAILED command' % o)
    # keep going: with budget left, everything wanted that does not depend on a failed command was started
    if failed and b.exit != 130 and (k == 0 or nfail < k):
        for o0, kv in b.snap.items():
            e = prod.get(o0)
            if e is None or e.phony or kv.get('want') not in ('s', 'f'): continue
            if o0 in b.started or e.idx in blocked: continue
            if any(ev[0] == 'st' and ev[1] == 'removed' and engine.uh(ev[2]) == o0 for ev in b.events): continue
            bad.append('%s is wanted, independent of the failed commands and the failure budget (-k %d, %d failed) was not used up, but it was never started' % (o0, k, nfail))
    # every started command is reaped
    st_set = collections.Counter(b.started); fin_set = collections.Counter(o for o, c in b.finished)
    if b.exit != 130 and st_set != fin_set: bad.append('started %s but finished %s' % (dict(st_set), dict(fin_set)))
    return bad or None

def oracle_c06(h, st, b):
    g = st.g; bad = []
    j = st.opts.get('j', 1)
    for ev in b.events:
        if ev[0] == 'limits':
            kv = dict(x.split('=') for x in ev[1:])
            if int(kv['maxrun']) > j: bad.append('%s commands ran at once with -j%d' % (kv['maxrun'], j))
            for kk, v in kv.items():
                if kk.startswith('pool:'):
                    name = engine.uh(kk[5:])
                    depth = 1 if name == 'console' else g.pools.get(name, 0)
                    if depth and int(v) > depth: bad.append('pool %s (depth %d) ran %s commands at once' % (name, depth, v))
        if ev[0] == 'double-start': bad.append('command %s started twice in one invocation' % engine.uh(ev[1]))
        if ev[0] == 'tokens-at-exit':
            kv = dict(x.split('=') for x in ev[1:])
            if int(kv['held']) != 0: bad.append('%s jobserver tokens still held at exit' % kv['held'])
            if int(kv['max']) > st.opts.get('tokens', 0) + 1: bad.append('held %s tokens, pool has %s+1' % (kv['max'], st.opts.get('tokens')))
    if 'stuck' in (b.err or ''): bad.append('build ended with "stuck"')
    return bad or None

# ------------------------------------------------------------------ directed scenario families
def motif_deps_swap(rnd, sid):
    """a deps statement whose output does not change when one recorded dependency is swapped for another
    with identical text (already known to the deps log), then the new dependency is edited"""
    g = engine.Graph()
    for n in ('a.h', 'b.h', 'c.h'): g.sources[n] = 'same-text'
    g.sources['m.c'] = 'main.0'; g.sources['o.c'] = 'other.0'
    kind = rnd.choice(['gcc', 'msvc', 'gcc'])
    e1 = engine.Edge(0); e1.outs = ['main.o']; e1.exp = ['m.c']; e1.deps = kind; e1.restat = rnd.random() < 0.8
    e2 = engine.Edge(1); e2.outs = ['other.o']; e2.exp = ['o.c']; e2.deps = rnd.choice(['gcc', 'msvc'])
    for e in (e1, e2):
        if e.deps == 'gcc': e.depfile = e.out0 + '.d'
    extra = [x for x in ('c.h',) if rnd.random() < 0.5]
    e1.hidden = extra + ['a.h']; e2.hidden = ['b.h'] + extra
    if rnd.random() < 0.5: e1.hidden.reverse()
    g.edges = [e1, e2]
    if rnd.random() < 0.5:
        e3 = engine.Edge(2); e3.outs = ['prog']; e3.exp = ['main.o', 'other.o']; g.edges.append(e3)
    h = Hist(sid, g)
    h.build(rnd, None, j=rnd.choice([1, 2]), k=1, sched=rand_sched(rnd, 8))
    e1.hidden = [('b.h' if x == 'a.h' else x) for x in e1.hidden]
    h.add(Step('sethidden', 'step sethidden %s %s' % (hx(e1.out0), ' '.join(hx(x) for x in e1.hidden)), edge=0, g_after=copy.deepcopy(g)))
    if rnd.random() < 0.7: h.add(Step('touch', 'step touch %s' % hx('m.c'), path='m.c'))
    else: h.edit('m.c', 'main.1')
    h.build(rnd, None, j=1, k=1, sched=rand_sched(rnd, 8))
    h.edit('b.h', 'new-text-%d' % rnd.randrange(1000))
    st = h.build(rnd, None, j=1, k=1, sched=rand_sched(rnd, 8))
    h.add(Step('build', st.line, g=st.g, sources=st.sources, targets=st.targets, opts=st.opts, repeat=True))
    return h

def motif_dyndep_rescan_deps_missing(rnd, sid):
    """a statement that is dirty only because its deps-log record is missing (the scan's first visit), re-scanned after a
    mid-build dyndep load (the second visit does not reload deps and finds it clean by itself): it must stay "not ready"
    until it has run -- its dependent, which has a second dirty input, must not start while it is still running"""
    g = engine.Graph(); g.sources = {'ddin': 'd.0', 'xin': 'x.0', 'gin': 'g.0', 'hdr': 'h.0'}
    de = engine.Edge(900); de.outs = ['dd']; de.exp = ['ddin']
    xe = engine.Edge(1); xe.outs = ['x']; xe.exp = ['xin']; xe.dyndep = 'dd'
    if rnd.random() < 0.5: xe.oo = ['dd']
    else: xe.imp = ['dd']
    ee = engine.Edge(2); ee.outs = ['e.o']; ee.exp = ['x']; ee.deps = rnd.choice(['gcc', 'msvc']); ee.hidden = ['hdr'] if rnd.random() < 0.6 else []
    if ee.deps == 'gcc': ee.depfile = 'e.o.d'
    ge = engine.Edge(3); ge.outs = ['g']; ge.exp = ['gin']
    fe = engine.Edge(4); fe.outs = ['f']; fe.exp = ['e.o', 'g']
    g.edges = [de, xe, ee, ge, fe]
    g.dd_info['dd'] = {'x': ([], [], False)}
    g.ddtext['dd'] = engine.dd_text(g.dd_info['dd'])
    h = Hist(sid, g)
    h.build(rnd, ['f'], j=rnd.choice([1, 3]), k=1, sched=rand_sched(rnd, 12))
    h.add(Step('dropdeps', 'step dropdeps')); h.tags.add('dropdeps')
    h.edit('ddin', 'd.%d' % rnd.randrange(1, 1000)); h.edit('gin', 'g.%d' % rnd.randrange(1, 1000))
    st = h.build(rnd, ['f'], j=rnd.choice([2, 3, 4]), k=1, sched=rand_sched(rnd, 12))
    h.add(Step('build', st.line, g=st.g, sources=st.sources, targets=st.targets, opts=st.opts, repeat=True))
    return h

def motif_deps_record_cycle(rnd, sid):
    """a cycle closed ONLY by a deps-log record: statement A (deps = gcc, clean, record valid) reported that it reads C's output;
    then the manifest makes C depend on A's output.  A is clean, so its record is loaded and the scan must find the cycle
    (with any number of order-only inputs on A and the closing name anywhere in the record)"""
    g = engine.Graph(); g.sources = {'s1': 'a', 's2': 'b', 'h1': 'h', 'h2': 'hh', 'q1': 'q', 'q2': 'qq'}
    ce = engine.Edge(0); ce.outs = ['co']; ce.exp = ['s1']
    ae = engine.Edge(1); ae.outs = ['ao']; ae.exp = ['s2']; ae.deps = 'gcc'; ae.depfile = 'ao.d'
    ae.oo = rnd.sample(['q1', 'q2'], rnd.randrange(0, 3))
    extra = rnd.sample(['h1', 'h2'], rnd.randrange(0, 3)); pos = rnd.randrange(len(extra) + 1)
    ae.hidden = extra[:pos] + ['co'] + extra[pos:]
    g.edges = [ce, ae]
    if rnd.random() < 0.5:
        te = engine.Edge(2); te.outs = ['top']; te.exp = ['ao']; g.edges.append(te)
    h = Hist(sid, g); h.cycle_kind = 'deps-record'
    h.build(rnd, ['co'], j=1, k=1, sched=rand_sched(rnd, 6))
    h.build(rnd, [g.edges[-1].out0], j=1, k=1, sched=rand_sched(rnd, 6))
    ce.exp = ce.exp + ['ao']; h.rewrite_manifest()
    st = h.build(rnd, [rnd.choice([g.edges[-1].out0, 'ao'])], j=rnd.choice([1, 2]), k=1, sched=rand_sched(rnd, 6))
    st.expect_cycle = ('ao', 'co')
    return h

def motif_restat_prune_failed_oo(rnd, sid):
    """a statement M that restat pruning removes from the plan (its restat input came out unchanged) has an ORDER-ONLY input whose
    producer FAILS in this invocation; a dependent E of M has a second dirty input that finishes later, and failure budget is left:
    E must not start -- being pruned does not make M's outputs ready"""
    g = engine.Graph(); g.sources = {'rs': 'r.0', 'fs': 'f.0', 'xs': 'x.0'}
    re_ = engine.Edge(0); re_.outs = ['g.h']; re_.exp = ['rs']; re_.restat = True
    fe = engine.Edge(1); fe.outs = ['fo']; fe.exp = ['fs']
    me = engine.Edge(2); me.outs = ['m']; me.exp = ['g.h']; me.oo = ['fo']
    xe = engine.Edge(3); xe.outs = ['xo']; xe.exp = ['xs']
    ee = engine.Edge(4); ee.outs = ['e']; ee.exp = ['m', 'xo']
    g.edges = [re_, fe, me, xe, ee]
    if rnd.random() < 0.5:
        pe = engine.Edge(5); pe.phony = True; pe.outs = ['mp']; pe.exp = ['m']; ee.exp = ['mp', 'xo']; g.edges.insert(4, pe)
    h = Hist(sid, g)
    h.build(rnd, ['e'], j=rnd.choice([1, 3]), k=1, sched=rand_sched(rnd, 12))
    h.add(Step('touch', 'step touch %s' % hx('rs'), path='rs'))
    h.edit('fs', 'f.%d' % rnd.randrange(1, 1000)); h.edit('xs', 'x.%d' % rnd.randrange(1, 1000))
    h.build(rnd, ['e'], j=rnd.choice([2, 3, 4]), k=rnd.choice([0, 2, 3]), sched=rand_sched(rnd, 12), faults={'fo': (rnd.choice([1, 2, 7]), False)})
    st = h.build(rnd, ['e'], j=2, k=1, sched=rand_sched(rnd, 12))
    h.add(Step('build', st.line, g=st.g, sources=st.sources, targets=st.targets, opts=st.opts, repeat=True))
    return h

def motif_restat_phony_fan(rnd, sid):
    """a restat statement that leaves its output alone, a fan / chain of phony statements behind that output (at least as many
    as there are commands in the plan), and independent commands that still have to run in the same invocation: the
    termination counters must not be eaten by the pruned phony statements"""
    g = engine.Graph()
    g.sources['gs'] = 'gen.0'; g.sources['cs'] = 'c.0'
    e0 = engine.Edge(0); e0.outs = ['gen.h']; e0.exp = ['gs']; e0.restat = True
    g.edges = [e0]
    k = rnd.randrange(3, 8); prev = 'gen.h'; names = []
    for i in range(k):
        pe = engine.Edge(1 + i); pe.phony = True; pe.outs = ['ph%d' % i]
        pe.exp = [prev if rnd.random() < 0.5 else 'gen.h']; prev = pe.out0; names.append(pe.out0); g.edges.append(pe)
    nc = rnd.randrange(1, 4); outs = []
    for i in range(nc):
        ce = engine.Edge(20 + i); ce.outs = ['c%d' % i]; ce.exp = ['cs'] + ([outs[-1]] if outs and rnd.random() < 0.5 else []); outs.append(ce.out0); g.edges.append(ce)
    top = engine.Edge(40); top.phony = True; top.outs = ['all']; top.exp = names + outs; g.edges.append(top)
    g.defaults = ['all']
    h = Hist(sid, g)
    h.build(rnd, None, j=rnd.choice([1, 2, 4]), k=1, sched=rand_sched(rnd, 12))
    h.add(Step('touch', 'step touch %s' % hx('gs'), path='gs'))        # the restat command re-runs and writes the same content
    h.edit('cs', 'c.%d' % rnd.randrange(1, 1000))
    st = h.build(rnd, None, j=rnd.choice([1, 2, 4]), k=1, sched=rand_sched(rnd, 12))
    h.add(Step('build', st.line, g=st.g, sources=st.sources, targets=st.targets, opts=st.opts, repeat=True))
    return h

# ------------------------------------------------------------------ C17: cycles
def find_cycle(g, targets):
    """ground truth: is there a dependency cycle among the statements needed for `targets`
    (every input kind, dyndep information included; validation targets are additional roots)?  Returns a node list or None"""
    prod = g.producer()
    roots = list(targets); seenroots = set()
    color = {}
    def visit(e, path):
        color[e.idx] = 1
        for v in e.vals:
            if v not in seenroots: roots.append(v)
        for i in g.all_ins(e, with_hidden=False):
            p = prod.get(i)
            if p is None: continue
            c = color.get(p.idx, 0)
            if c == 1: return path + [i]
            if c == 0:
                r = visit(p, path + [i])
                if r: return r
        color[e.idx] = 2
        return None
    k = 0
    while k < len(roots):
        t = roots[k]; k += 1
        if t in seenroots: continue
        seenroots.add(t)
        p = prod.get(t)
        if p is None or color.get(p.idx, 0) == 2: continue
        r = visit(p, [t])
        if r: return r
    return None

def gen_cycle_history(rnd, sid):
    feat = dict(deps=0.0, rsp=0.0, validations=0.3, generator=0.0, pools=0.2)
    g = engine.gen_graph(rnd, rnd.randrange(2, 8), feat)
    kind = rnd.choice(['none', 'manifest', 'manifest', 'dyndep-source', 'dyndep-built', 'validation-back', 'self', 'self', 'dyndep-output', 'dyndep-output'])
    real = [e for e in g.edges]
    prod = g.producer()
    def pick_pair():
        # A and B such that B depends on A
        cands = [(a, b) for a in real for b in real if a is not b and b.idx in g.dependents_of(a)]
        return rnd.choice(cands) if cands else None
    pr = pick_pair()
    if kind == 'dyndep-output' and not (pr and not pr[1].phony and [x for x in pr[0].exp + pr[0].imp if x in g.sources]): kind = 'none'
    if kind == 'self':
        # a statement that lists its own output as an input.  Tolerated (that input is dropped with a warning) only in the legacy
        # form: phony, exactly ONE output, no implicit output, no implicit input; a cycle of length one in every other form
        ph = [e for e in real if e.phony]
        a = rnd.choice(ph) if ph and rnd.random() < 0.75 else rnd.choice(real)
        r = rnd.random()
        if a.phony and r < 0.3: a.outs.append('sio%d' % a.idx); a.n_imp_out = 1            # one explicit + one implicit output
        elif a.phony and r < 0.45: a.outs.append('so%db' % a.idx)                           # two explicit outputs
        elif a.phony and r < 0.6 and sorted(g.sources): a.imp.append(rnd.choice(sorted(g.sources)))   # an implicit input
        exempt = a.phony and len(a.outs) == 1 and a.n_imp_out == 0 and not a.imp
        if exempt: a.selfref = rnd.choice(['exp', 'oo']); kind = 'self-legacy-form'
        else:
            where = rnd.choice(['exp', 'oo']) if a.phony else rnd.choice(['exp', 'imp', 'oo'])
            getattr(a, where).append(rnd.choice(a.outs) if rnd.random() < 0.3 else a.out0); kind = 'self-cycle'
    elif kind == 'validation-back' or (kind != 'none' and pr is None):
        # a validation target that depends on the statement requesting it is NOT a cycle
        if pr: a, b = pr; a.vals.append(rnd.choice(b.outs))
        kind = 'validation-back'
    elif kind == 'manifest':
        a, b = pr; o = rnd.choice(b.outs)
        where = rnd.choice(['exp', 'imp', 'oo']) if not a.phony else 'exp'
        getattr(a, where).append(o)
    elif kind == 'dyndep-output' and pr and not pr[1].phony and [x for x in pr[0].exp + pr[0].imp if x in g.sources]:
        # the cycle is closed by a dyndep-discovered implicit OUTPUT: statement b (which depends on a) turns out, through its
        # dyndep file, to produce a file that a reads and that looked like a plain source until the file was loaded
        a, b = pr
        s_ = rnd.choice([x for x in a.exp + a.imp if x in g.sources])
        dd = 'ddc'; b.dyndep = dd; b.oo.append(dd)
        g.dd_info[dd] = {b.out0: ([s_], [], False)}
        text = engine.dd_text(g.dd_info[dd])
        if rnd.random() < 0.6: g.sources[dd] = text; kind = 'dyndep-output-source'
        else:
            pe = engine.Edge(950); pe.outs = [dd]; pe.exp = [rnd.choice(sorted(x for x in g.sources if x != s_) or [s_])]
            g.edges[0:0] = [pe]; g.ddtext[dd] = text; kind = 'dyndep-output-built'
    elif kind.startswith('dyndep') and kind != 'dyndep-output':
        a, b = pr
        if a.phony:
            kind = 'manifest'; a.exp.append(rnd.choice(b.outs))
        else:
            dd = 'ddc'; a.dyndep = dd; a.oo.append(dd)
            g.dd_info[dd] = {a.out0: ([], [rnd.choice(b.outs)], False)}
            text = engine.dd_text(g.dd_info[dd])
            if kind == 'dyndep-source': g.sources[dd] = text
            else:
                pe = engine.Edge(950); pe.outs = [dd]; pe.exp = [rnd.choice(sorted(g.sources))]
                ins0 = [pe]
                if rnd.random() < 0.5:
                    # the dyndep file's statement waits (order-only) behind a phony alias of an unrelated statement:
                    # later the load is triggered by that phony statement completing
                    g.sources['xsrc'] = 'x.0'
                    xe = engine.Edge(951); xe.outs = ['xout']; xe.exp = ['xsrc']
                    se = engine.Edge(952); se.phony = True; se.outs = ['stamp']; se.exp = ['xout']
                    pe.oo = ['stamp']; ins0 = [xe, se, pe]; kind = 'dyndep-built-behind-phony'
                g.edges[0:0] = ins0; g.ddtext[dd] = text
    # a self-reference written in the legacy position is tolerated only while the statement keeps the legacy form
    for e in g.edges:
        if e.selfref and not (e.phony and len(e.outs) == 1 and e.n_imp_out == 0 and not e.imp):
            getattr(e, e.selfref).append(e.out0); e.selfref = None
            if kind in ('none', 'validation-back', 'self-legacy-form'): kind = 'self-cycle'
    g.defaults = []
    pce = kind.startswith('self') and rnd.random() < 0.4        # ninja -w phonycycle=err: the legacy self-reference is a cycle too
    h = Hist(sid, g); h.cycle_kind = kind
    outs = [o for e in g.edges for o in e.outs]
    for i in range(rnd.randrange(1, 4)):
        t = rnd.sample(outs, rnd.randrange(1, min(3, len(outs)) + 1))
        if kind.startswith('dyndep-output'): t = list(set(t + [b.out0]))      # ninja learns about the produced file only by visiting the bound statement
        elif kind.startswith('dyndep') and rnd.random() < 0.7: t = list(set(t + [a.out0]))
        if i and 'xsrc' in g.sources and rnd.random() < 0.8: h.edit('xsrc', 'x.%d' % rnd.randrange(100000))
        elif i and rnd.random() < 0.3:
            sname = rnd.choice(sorted(x for x in h.sources if not x.startswith('dd'))); h.edit(sname, 'e.%d' % rnd.randrange(100000))
        h.build(rnd, t, j=rnd.choice([1, 2, 4]), k=rnd.choice([1, 0]), sched=rand_sched(rnd, 2 * len(g.edges) + 2), pce=(1 if pce else None))
    return h

def oracle_c17(h, st, b, prev=None):
    g = st.g; prod = g.producer(); bad = []
    if getattr(st, 'expect_cycle', None):
        # directed scenario: the cycle is closed by a recorded dependency that ninja must have loaded (the statement is clean)
        a_, c_ = st.expect_cycle
        if 'dependency cycle' not in (b.err or '') or b.exit in (0, None):
            return ['a cycle closed by the deps-log record of the clean statement %s (it reads %s, whose statement now depends on %s) is not diagnosed: exit=%s "%s", started %s' % (a_, c_, a_, b.exit, (b.err or '')[:60], b.started)]
        return None
    cyc = find_cycle(g, st.targets or default_targets(g))
    if not cyc and st.opts.get('pce'):
        # -w phonycycle=err: a statement written in the legacy self-referencing form is not filtered, it is a cycle of length one
        for n in sorted(g.closure(st.targets or default_targets(g))):
            e = prod.get(n)
            if e is not None and e.selfref: cyc = [e.out0, e.out0]; break
    said = 'dependency cycle' in (b.err or '')
    if cyc and not said and getattr(h, 'cycle_kind', '').startswith('dyndep-output'):
        # listed finding (classified by the caller): a cycle closed by a dyndep-discovered implicit OUTPUT is not diagnosed when the
        # consumer of that file was scanned (or has even run) before the dyndep file was loaded.  Faces: "stuck [this is a bug]"
        # (non-zero exit since the fix), or a build that simply finishes when the consumer was already clean / phony / done
        face = 'stops with "%s" (exit %s)' % ((b.err or '')[:40], b.exit) if b.exit not in (0, None) else 'finishes with exit 0 after starting %s' % b.started
        return [('KNOWN:dyndep-output-cycle-not-named', 'the requested targets need a dependency cycle (%s) closed by a dyndep-discovered output; ninja %s instead of naming the cycle' % (' -> '.join(cyc), face))]
    if cyc and not said:
        bad.append('the requested targets need a dependency cycle (%s) but ninja ended with exit=%s "%s" after starting %s' % (' -> '.join(cyc), b.exit, (b.err or '')[:80], b.started))
    if said:
        if b.exit in (0, None): bad.append('"dependency cycle" reported but exit status %s' % b.exit)
        m = b.err.split('dependency cycle: ', 1)[1].split('\n')[0] if 'dependency cycle: ' in b.err else ''
        if m.endswith(' [-w phonycycle=err]'): m = m[:-len(' [-w phonycycle=err]')]
        hops = m.split(' -> ')
        if not cyc: bad.append('acyclic graph rejected as cyclic: %s' % m)
        else:
            if len(hops) < 2 or hops[0] != hops[-1]: bad.append('reported path is not closed: %s' % m)
            for x, y in zip(hops, hops[1:]):
                e = prod.get(x)
                if e is None or (y not in g.all_ins(e, with_hidden=False) and not (x == y and e.selfref)): bad.append('reported hop %s -> %s is not a dependency' % (x, y))
            cyc_edges = {prod[x].out0 for x in hops if x in prod}
            for o in b.started:
                # (a cycle that only a dyndep file produced DURING this build reveals, through an implicit output: its consumer may
                # legitimately have run before the file existed)
                if o in cyc_edges and getattr(h, 'cycle_kind', '') != 'dyndep-output-built': bad.append('command %s of the reported cycle was run' % o)
    return bad or None

# ------------------------------------------------------------------ C11: dyndep pairs and invalid files
def gen_dyndep_pair(rnd, sid):
    """the same history on a graph with dyndep files and on the graph with that information inlined"""
    feat = dict(dyndep=1.0, deps=0.15, generator=0.0)
    a = gen_history(rnd, sid + '_dd', rnd.randrange(2, 8), rnd.randrange(1, 5), feat=feat, faults=0.0, tokens=0.0, no_dd_mutation=True)
    b = a.transformed(sid + '_inl', engine.inline_dyndep)
    return a, b

def dd_validate(text, bound, other_outputs):
    """independent reading of a dyndep file: returns None if valid for the statements bound to it, else a reason"""
    lines = text.split('\n')
    if text and not text.endswith('\n'): return 'no final newline'
    lines = [l for l in lines[:-1]]
    i = 0
    while i < len(lines) and (not lines[i].strip() or lines[i].lstrip().startswith('#')): i += 1
    if i >= len(lines) or lines[i].replace(' ', '') not in ('ninja_dyndep_version=1', 'ninja_dyndep_version=1.0'): return 'version'
    i += 1; seen = set(); claimed = set()
    while i < len(lines):
        l = lines[i]; i += 1
        if not l.strip() or l.lstrip().startswith('#'): continue
        if l.startswith(' '): return 'unexpected indent'
        if not l.startswith('build '): return 'not a build statement'
        if ':' not in l: return 'no colon'
        left, right = l[6:].split(':', 1)
        lo = left.split('|')
        outs = lo[0].split()
        if len(outs) != 1 or len(lo) > 2: return 'explicit outputs'
        imp_outs = lo[1].split() if len(lo) == 2 else []
        if len(lo) == 2 and not imp_outs: return 'empty implicit outputs'
        r = right.split('||')[0] if '||' in right else right
        if '||' in right: return 'order-only'
        rp = r.split('|')
        if rp[0].split() != ['dyndep'] or len(rp) > 2: return 'rule/explicit inputs'
        if len(rp) == 2 and not rp[1].split(): return 'empty implicit inputs'
        if outs[0] not in bound: return 'statement for an output not bound to this file'
        if outs[0] in seen: return 'duplicate statement'
        seen.add(outs[0])
        cn = lambda o: o[2:] if o.startswith('./') else o
        for o in imp_outs:
            if cn(o) in other_outputs: return 'claims an output another statement produces'
        if len({cn(o) for o in imp_outs}) != len(imp_outs) or any(cn(o) in claimed for o in imp_outs): return 'names an output twice'
        claimed |= {cn(o) for o in imp_outs}
        while i < len(lines) and lines[i].startswith(' ') and lines[i].strip():
            b = lines[i].strip(); i += 1
            if not b.replace(' ', '').startswith('restat='): return 'binding other than restat'
    if seen != set(bound): return 'missing statement'
    return None

def gen_dyndep_invalid(rnd, sid):
    """a graph whose dyndep file (a source) is damaged in a way the reference validator rejects"""
    g = engine.gen_graph(rnd, rnd.randrange(2, 7), dict(deps=0.0, generator=0.0, validations=0.0))
    engine.add_dyndep(rnd, g, produced=False)
    if not g.dd_info: return None
    dd = sorted(g.dd_info)[0]; text = g.sources[dd]
    bound = sorted(g.dd_info[dd]); others = [o for e in g.edges for o in e.outs]
    second = None
    if rnd.random() < 0.4:
        n0 = len(g.dd_info); engine.add_dyndep(rnd, g, produced=False)
        if len(g.dd_info) > n0:
            second = sorted(g.dd_info)[-1]
            # keep the two files' statements disjoint: a statement already bound to the first file stays there
            for o0 in list(g.dd_info[second]):
                if o0 in g.dd_info[dd]: del g.dd_info[second][o0]
            for e in g.edges:
                if e.dyndep == second and e.out0 not in g.dd_info[second]:
                    e.dyndep = dd if e.out0 in g.dd_info[dd] else None
            if not g.dd_info[second]:
                del g.dd_info[second]; g.sources.pop(second, None)
                for e in g.edges:
                    e.oo = [x for x in e.oo if x != second]; e.imp = [x for x in e.imp if x != second]
                second = None
            else:
                g.sources[second] = engine.dd_text(g.dd_info[second])
    kind = rnd.choice(['truncate', 'truncate', 'delete-line', 'dup-line', 'extra-stmt', 'claim-output', 'dup-output', 'dup-output', 'garbage', 'missing', 'no-version', 'valid'] + (['other-file-stmt'] * 3 if second else []))
    new = text
    if kind == 'truncate': new = text[:rnd.randrange(0, len(text))]
    elif kind == 'delete-line':
        ls = text.split('\n'); k = rnd.randrange(len(ls) - 1); new = '\n'.join(ls[:k] + ls[k + 1:])
    elif kind == 'dup-line':
        ls = text.split('\n'); k = rnd.randrange(1, len(ls) - 1) if len(ls) > 2 else 0; new = '\n'.join(ls[:k + 1] + ls[k:])
    elif kind == 'extra-stmt':
        unbound = [e.out0 for e in g.edges if e.out0 not in bound and not e.phony]
        new = text + 'build %s: dyndep\n' % (rnd.choice(unbound) if unbound and rnd.random() < 0.7 else 'nosuchoutput')
    elif kind == 'other-file-stmt':
        new = text + 'build %s: dyndep\n' % rnd.choice(sorted(g.dd_info[second]))     # a statement that belongs to the OTHER dyndep file
    elif kind == 'claim-output':
        ls = text.split('\n'); victim = rnd.choice([o for o in others if o not in bound] or ['zz'])
        ls[1] = ls[1].replace(': dyndep', ' | %s: dyndep' % victim, 1) if ' | ' not in ls[1].split(':')[0] else ls[1].replace(':', ' %s:' % victim, 1)
        new = '\n'.join(ls)
    elif kind == 'dup-output':
        # ONE statement names the same implicit output twice (possibly under two spellings)
        ls = text.split('\n'); ks = [k for k, l in enumerate(ls) if l.startswith('build ')]; k = rnd.choice(ks)
        left, right = ls[k].split(':', 1)
        if ' | ' in left:
            o = left.split(' | ')[1].split()[-1]; left += ' ' + (o if rnd.random() < 0.7 else './' + o)
        else: left += ' | ddup%d %sddup%d' % (k, '' if rnd.random() < 0.7 else './', k)
        ls[k] = left + ':' + right; new = '\n'.join(ls)
    elif kind == 'garbage': new = text.replace('dyndep', rnd.choice(['dyndp', 'phony', '']), 1)
    elif kind == 'no-version': new = '\n'.join(text.split('\n')[1:])
    h = Hist(sid, g); h.dd_kind = kind
    if kind == 'missing':
        del g.sources[dd]; h = Hist(sid, g); h.dd_kind = kind; h.dd_reason = 'missing file'
    else:
        g.sources[dd] = new; h = Hist(sid, g); h.dd_kind = kind
        h.dd_reason = dd_validate(new, bound, set(others))
    # request a statement bound to the file so that it has to be loaded
    h.dd_bound = bound
    h.build(rnd, [rnd.choice(bound)], j=rnd.choice([1, 3]), k=1, sched=rand_sched(rnd, 2 * len(g.edges) + 2))
    return h

# ------------------------------------------------------------------ C07: crashes and interrupts
def gen_crash_base(rnd, sid):
    """(history prefix, the build step to be crashed) : first build ok, a change, then the build that will die"""
    feat = dict(deps=0.5, restat=0.3, rsp=0.3, phony=0.1, validations=0.1, pools=0.1, generator=0.05, multiout=0.4)
    g = engine.gen_graph(rnd, rnd.randrange(1, 5), feat)
    h = Hist(sid, g)
    if rnd.random() < 0.8:
        h.build(rnd, None, j=rnd.choice([1, 2]), k=1, sched=rand_sched(rnd, 12))
        ne = [e for e in g.edges if not e.phony]
        r = rnd.random()
        if any((e.deps or e.depfile) and any(x in h.sources for x in e.exp) for e in ne) and rnd.random() < 0.4: r = 0.9
        if r < 0.5 or not ne:
            sname = rnd.choice(sorted(h.sources)); h.edit(sname, 'crash.%d' % rnd.randrange(100000))
        elif r < 0.7:
            e = rnd.choice(ne); e.ver += 1; h.rewrite_manifest()
        elif r < 0.85:
            e = rnd.choice(ne); o = rnd.choice(e.outs); h.add(Step('rm', 'step rm %s' % hx(o), path=o))
        else:
            # the include set of a deps statement changes while its output stays the same (restat): the new
            # dependency exists only in the deps record written at the very end of FinishCommand
            es = [e for e in ne if (e.deps or e.depfile) and any(x in h.sources for x in e.exp)]
            if es:
                e = rnd.choice(es); e.restat = True; h.rewrite_manifest()
                h.build(rnd, None, j=1, k=1, sched=rand_sched(rnd, 12))
                new = 'nh%d' % rnd.randrange(1000); h.edit(new, 'same-text'); old = [x for x in e.hidden]
                if old and old[0] in h.sources: h.edit(old[0], 'same-text')
                e.hidden = ([new] + old[1:]) if old else [new]
                h.add(Step('sethidden', 'step sethidden %s %s' % (hx(e.out0), ' '.join(hx(x) for x in e.hidden)), edge=e.idx, g_after=copy.deepcopy(g)))
                src = rnd.choice([x for x in e.exp if x in h.sources]); h.add(Step('touch', 'step touch %s' % hx(src), path=src))
                h.late_edit = new
    return h

def crash_variants(rnd, base, npoints, tears=True):
    """one scenario per crash point (plus torn-write variants), each followed by a recovery build and a repeat"""
    res = []
    j = rnd.choice([1, 2, 3]); sched = rand_sched(rnd, 12)
    ks = [(k, 0) for k in range(npoints)]
    if tears: ks += [(k, t) for k in range(npoints) for t in (1, 7)] 
    for k, t in ks:
        h = Hist('%s_k%d_t%d' % (base.sid, k, t), copy.deepcopy(base.g0))
        h.g = copy.deepcopy(base.g); h.sources = dict(base.sources); h.steps = list(base.steps)
        h.header = base.header[:]; h.header[0] = 'scenario %s' % h.sid
        h.crash_step = len(h.steps)
        h.build(rnd, None, j=j, k=1, sched=sched, crash=k, tear=(t or None))
        st = h.build(rnd, None, j=1, k=1, sched=sched)
        h.add(Step('build', st.line, g=st.g, sources=st.sources, targets=st.targets, opts=st.opts, repeat=True))
        # whatever the interrupted run had learned must not be lost: a later edit of a (new) dependency is still noticed
        late = getattr(base, 'late_edit', None)
        if late:
            h.edit(late, 'edited-after-recovery'); h.build(rnd, None, j=1, k=1, sched=sched)
        res.append(h)
    return res

def count_crash_points(bases, rnd):
    """run each base with an unreachable crash point to learn how many persistence points its build has"""
    probes = []
    for b in bases:
        h = Hist(b.sid + '_probe', copy.deepcopy(b.g0))
        h.g = copy.deepcopy(b.g); h.sources = dict(b.sources); h.steps = list(b.steps); h.header = b.header[:]; h.header[0] = 'scenario %s' % h.sid
        h.build(rnd, None, j=1, k=1, sched=[0] * 12, crash=10000000)
        probes.append(h)
    rc, tr, err, out = run_hists(probes)
    n = {}
    cur = None
    for l in out:
        w = l.split()
        if w and w[0] == 'scenario': cur = w[1]
        if l.startswith('ev crash-not-reached points='): n[cur] = int(l.split('=')[1])
    return [n.get(p.sid, 0) for p in probes]

def gen_interrupt_history(rnd, sid):
    feat = dict(deps=0.5, restat=0.3, rsp=0.2, phony=0.1, pools=0.2, multiout=0.4, generator=0.0)
    g = engine.gen_graph(rnd, rnd.randrange(2, 7), feat)
    h = Hist(sid, g)
    if rnd.random() < 0.7:
        h.build(rnd, None, j=rnd.choice([1, 3]), k=1, sched=rand_sched(rnd, 16))
        sname = rnd.choice(sorted(h.sources)); h.edit(sname, 'int.%d' % rnd.randrange(100000))
        if rnd.random() < 0.3:
            ne = [e for e in g.edges if not e.phony]
            if ne: e = rnd.choice(ne); e.ver += 1; h.rewrite_manifest()
    ne = [e.out0 for e in g.edges if not e.phony]
    part = rnd.sample(ne, rnd.randrange(0, len(ne) + 1)) if ne else []
    st = h.build(rnd, None, j=rnd.choice([1, 2, 4]), k=1, sched=rand_sched(rnd, 16), interrupt=rnd.randrange(0, 5), partial=part or None)
    st.interrupted = True; st.partial = part
    st2 = h.build(rnd, None, j=1, k=1, sched=rand_sched(rnd, 16))
    h.add(Step('build', st2.line, g=st2.g, sources=st2.sources, targets=st2.targets, opts=st2.opts, repeat=True))
    return h

def oracle_interrupt(h, st, b, prev_b):
    """after an interrupt: status 130, lock gone, modified outputs (always: outputs of depfile commands) of the commands that were running are gone"""
    if not any(ev[0] == 'interrupt' for ev in b.events): return None
    g = st.g; prod = g.producer(); bad = []
    if b.exit != 130: bad.append('exit status %s after an interrupt (expected 130)' % b.exit)
    if '.ninja_lock' in b.files: bad.append('.ninja_lock still exists after the interrupt')
    running = []
    for ev in b.events:
        if ev[0] == 'ps':
            kv = dict(x.split('=', 1) for x in ev[1:]); running = [] if kv['running'] == '-' else [engine.uh(x) for x in kv['running'].split(',')]
        if ev[0] == 'start': running = running + [ev[1]]
        if ev[0] == 'finish': running = [r for r in running if r != ev[1]]
        if ev[0] == 'interrupt': break
    for o0 in running:
        e = prod.get(o0)
        if e is None: continue
        for o in g.eff_outs(e):
            if e.depfile and o in b.files: bad.append('output %s of the interrupted depfile command %s was not removed' % (o, o0))
            elif o0 in getattr(st, 'partial', []) and o in b.files and b.files[o][1] == 'PARTIAL':
                bad.append('output %s, modified by the interrupted command %s, was not removed' % (o, o0))
        if e.depfile and e.depfile in b.files: bad.append('depfile %s of the interrupted command was not removed' % e.depfile)
    return bad or None

# ------------------------------------------------------------------ C03: reference make semantics
def gen_minimality_history(rnd, sid, feat=None):
    """converged state -> exactly one change -> build everything; repeated.  Ground truth of the change is kept."""
    f = dict(generator=0.15, restat=0.4, phony=0.25, alias=0.6, deps=0.35, orderonly=0.5, dyndep=0.0); f.update(feat or {})
    g = engine.gen_graph(rnd, rnd.randrange(2, 9), f)
    g.defaults = []
    h = Hist(sid, g)
    def full(change=None):
        st = h.build(rnd, None, j=rnd.choice([1, 2, 4]), k=1, sched=rand_sched(rnd, 2 * len(g.edges) + 2))
        st.change = change
        r = Step('build', st.line, g=st.g, sources=st.sources, targets=st.targets, opts=st.opts, repeat=True); r.change = ('none',)
        h.add(r)
    full(('initial',))
    for _ in range(rnd.randrange(1, 5)):
        ne = [e for e in g.edges if not e.phony]
        r = rnd.random()
        if r < 0.3:
            sname = rnd.choice(sorted(h.sources)); h.add(Step('touch', 'step touch %s' % hx(sname), path=sname)); ch = ('source', sname)
        elif r < 0.6:
            sname = rnd.choice(sorted(h.sources)); h.edit(sname, 'common' if rnd.random() < 0.1 else 'm.%d' % rnd.randrange(1000000)); ch = ('source', sname)
        elif r < 0.72 and ne:
            e = rnd.choice(ne); o = rnd.choice(e.outs); h.add(Step('rm', 'step rm %s' % hx(o), path=o)); ch = ('edge', e.idx, o)
        elif r < 0.75 and ne:
            # the statement gains an output whose file already lies around: there is no log record for it, so exactly this
            # statement (and what its rewritten outputs feed) has to run
            es = [e for e in ne if not e.deps and not e.depfile and not e.generator and e.idx < 900]
            if not es: continue
            e = rnd.choice(es); name = 'xo%d_%d' % (e.idx, len(e.outs))
            h.add(Step('edit', 'step edit %s %s' % (hx(name), hx('lying-around')), path=name))
            if rnd.random() < 0.5: e.outs.append(name); e.n_imp_out += 1
            else: e.outs.insert(len(e.outs) - e.n_imp_out, name)
            h.rewrite_manifest(); ch = ('edge', e.idx, name)
        elif r < 0.9 and ne:
            e = rnd.choice(ne); e.ver += 1; h.rewrite_manifest(); ch = ('cmd', e.idx)
        else:
            es = [e for e in ne if e.rsp and not e.rsp_empty]
            if not es: continue
            e = rnd.choice(es); e.rspver += 1; h.rewrite_manifest(); ch = ('cmd', e.idx)
        full(ch)
    return h

def expected_after_change(st, prev_st):
    """the exact set of commands a build of everything must run after ONE change to a converged tree"""
    g = st.g; prod = g.producer(); ch = st.change
    old = prev_st.g.clean_contents(prev_st.sources); new = g.clean_contents(st.sources)
    seeds = set()
    if ch[0] == 'source':
        for e in g.edges:
            if not e.phony and ch[1] in e.exp + g.eff_imp(e) + e.hidden: seeds.add(e.idx)
    elif ch[0] == 'edge': seeds.add(ch[1])
    elif ch[0] == 'cmd':
        e = [x for x in g.edges if x.idx == ch[1]][0]
        if not e.generator: seeds.add(e.idx)
    ran = {}; rew = {}   # rew: node -> it was (re)written by this build
    def through(i, depth=0):
        """the file nodes whose rewriting a reader of node i notices (phony names that are no files are looked through)"""
        p = prod.get(i)
        if p is None: return []
        if p.phony and depth < 50: return [x for j in p.exp + p.imp for x in through(j, depth + 1)]
        return [i]
    order = []; seen = set()
    def topo(e):
        if e.idx in seen: return
        seen.add(e.idx)
        for i in g.all_ins(e):
            if i in prod and prod[i] is not e: topo(prod[i])
        order.append(e)
    for e in g.edges: topo(e)
    res = set()
    # a phony alias of a source also hands on the source's time
    def reads_changed_source(e, depth=0):
        if ch[0] != 'source': return False
        def thr(i, d=0):
            if i == ch[1]: return True
            p = prod.get(i)
            return p is not None and p.phony and d < 50 and any(thr(j, d + 1) for j in p.exp + p.imp)
        return any(thr(i) for i in e.exp + g.eff_imp(e) + e.hidden)
    for e in order:
        if e.phony: continue
        r = e.idx in seeds or reads_changed_source(e) or any(rew.get(n, False) for i in e.exp + g.eff_imp(e) + e.hidden for n in through(i) if prod.get(n) is not e)
        ran[e.idx] = r
        if r:
            res.add(e.out0)
            for o in g.eff_outs(e):
                rew[o] = (not g.eff_restat(e)) or old.get(o) != new.get(o) or (ch[0] == 'edge' and ch[2] == o)
    return res

def oracle_c03(h, st, b, prev):
    ch = getattr(st, 'change', None)
    pst, pb = prev
    if ch is None or ch[0] == 'initial' or pst is None or pb is None or pb.exit != 0 or b.exit != 0: return None
    if always_dirty_phony(st.g): return None
    if ch[0] == 'none':
        return None   # convergence itself is C02's business
    # the tree before the change was converged: the previous step is the verified repeat of a successful build
    if not getattr(pst, 'repeat', False) or pb.started: return None
    exp = expected_after_change(st, pst); got = set(b.started)
    bad = []
    if got - exp: bad.append('after the single change %s ninja ran %s which that change does not affect (affected: %s)' % (ch, sorted(got - exp), sorted(exp)))
    if exp - got: bad.append('after the single change %s ninja did not run %s (ran %s)' % (ch, sorted(exp - got), sorted(got)))
    return bad or None

# ------------------------------------------------------------------ C10: discovered vs declared
def gen_deps_pair(rnd, sid, wf_reads):
    feat = dict(deps=0.8, dyndep=0.0, generator=0.0, restat=0.25, phony=0.1, validations=0.05)
    a = gen_history(rnd, sid + '_disc', rnd.randrange(2, 8), rnd.randrange(1, 6), feat=feat, faults=0.0, tokens=0.0, wf_reads=True, repeat_builds=False,
                    drop_wf_after_first=not wf_reads, partial_targets=0.5)
    b = a.transformed(sid + '_decl', engine.inline_deps, manifest_on_sethidden=True)
    return a, b

# ------------------------------------------------------------------ C20: progress counters from the Status calls
def oracle_counters(h, st, b, prev=None):
    """finished <= started <= total at every call, every started command reported finished, finished = total on success"""
    total = started = finished = 0; bad = []
    for ev in b.events:
        if ev[0] != 'st': continue
        k = ev[1]
        if k == 'added': total += 1
        elif k == 'removed': total -= 1
        elif k == 'started': started += 1
        elif k == 'finished': finished += 1
        if not (0 <= finished <= started <= total) and k in ('started', 'finished', 'removed'):
            bad.append('after Status call %s %s: finished=%d started=%d total=%d' % (k, engine.uh(ev[2]) if len(ev) > 2 else '', finished, started, total)); break
    if b.exit == 0 and not b.uptodate and finished != total: bad.append('successful build ended with finished=%d total=%d' % (finished, total))
    if b.exit not in (130, None) and started != finished: bad.append('started %d commands but reported %d finished' % (started, finished))
    return bad or None

def motif_restat_deps_crash(rnd, sid):
    """a restat deps statement whose include set changes while its output stays the same: what the run learned
    exists only in the deps record written at the very end of FinishCommand"""
    g = engine.Graph(); g.sources = {'src': 'S', 'h1': 'same', 'h2': 'same'}
    kind = rnd.choice(['gcc', 'msvc'])
    e = engine.Edge(0); e.outs = ['o'] + (['o_b'] if rnd.random() < 0.3 and kind != 'gcc' and False else []); e.exp = ['src']; e.deps = kind
    if kind == 'gcc': e.depfile = 'o.d'
    e.restat = True; e.hidden = ['h1']; g.edges = [e]
    if rnd.random() < 0.5:
        e2 = engine.Edge(1); e2.outs = ['p']; e2.exp = ['o']; g.edges.append(e2)
    base = Hist(sid, g)
    base.build(rnd, None, j=1, k=1, sched=[0, 0])
    e.hidden = ['h2']
    base.add(Step('sethidden', 'step sethidden %s %s' % (hx('o'), hx('h2')), edge=0, g_after=copy.deepcopy(g)))
    base.add(Step('touch', 'step touch %s' % hx('src'), path='src'))
    base.late_edit = 'h2'
    return base

def motif_dyndep_not_ready(rnd, sid):
    """a dyndep file rebuilt mid-build whose bound statement is CLEAN and whose discovered input is clean but not
    ready (an order-only input of ITS statement is missing): the discovered part must still be added to the plan"""
    g = engine.Graph(); g.sources = {'in': 'i', 'ddin': 'd', 'pin': 'p', 'win': 'w'}
    de = engine.Edge(900); de.outs = ['dd']; de.exp = ['ddin']; de.restat = rnd.random() < 0.3
    we = engine.Edge(1); we.outs = ['w']; we.exp = ['win']
    pe = engine.Edge(2); pe.outs = ['p']; pe.exp = ['pin']; pe.oo = ['w']
    oe = engine.Edge(3); oe.outs = ['out']; oe.exp = ['in']; oe.dyndep = 'dd'
    if rnd.random() < 0.5: oe.oo = ['dd']
    else: oe.imp = ['dd']
    oe.hidden = ['p']
    g.edges = [de, we, pe, oe]
    if rnd.random() < 0.4:
        fe = engine.Edge(4); fe.outs = ['final']; fe.exp = ['out']; g.edges.append(fe)
    g.dd_info['dd'] = {'out': ([], ['p'], rnd.random() < 0.3)}
    g.ddtext['dd'] = engine.dd_text(g.dd_info['dd'])
    h = Hist(sid, g)
    tg = [g.edges[-1].out0]
    h.build(rnd, tg, j=rnd.choice([1, 2]), k=1, sched=rand_sched(rnd, 12))
    h.add(Step('rm', 'step rm %s' % hx('w'), path='w'))
    if rnd.random() < 0.8: h.add(Step('touch', 'step touch %s' % hx('ddin'), path='ddin'))
    else: h.edit('ddin', 'd2')
    st = h.build(rnd, tg, j=rnd.choice([1, 2]), k=1, sched=rand_sched(rnd, 12))
    h.add(Step('build', st.line, g=st.g, sources=st.sources, targets=st.targets, opts=st.opts, repeat=True))
    return h
