"""Real-binary scenarios (the real ninja built from /repo's working tree, real processes, signals, FIFOs).
Deterministic ordering through marker files / FIFOs; timeouts are watchdogs only."""
import os, shutil, signal, subprocess, tempfile, time

def mk(prefix):
    return tempfile.mkdtemp(prefix='verif-%s-' % prefix, dir='/dev/shm')

def wait_for(path, timeout=20.0):
    t0 = time.time()
    while not os.path.exists(path):
        if time.time() - t0 > timeout: return False
        time.sleep(0.005)
    return True

def load_limit(ninja, libfake):
    """-l N with the load far above the limit: ninja must still make progress (one job) and finish, never 'stuck'"""
    bad = []
    for load, l in (('100', '2'), ('3.5', '2'), ('2.0', '2'), ('0', '1')):
        d = mk('c06l')
        try:
            open(d + '/build.ninja', 'w').write('rule t\n  command = touch $out\n' + ''.join('build o%d: t\n' % i for i in range(6)) + 'build all: phony ' + ' '.join('o%d' % i for i in range(6)) + '\n')
            env = dict(os.environ, LD_PRELOAD=libfake, VERIF_FAKE_LOAD=load)
            p = subprocess.run([ninja, '-C', d, '-j4', '-l', l, 'all'], stdout=subprocess.PIPE, stderr=subprocess.STDOUT, env=env, timeout=60)
            out = p.stdout.decode(errors='replace')
            missing = [i for i in range(6) if not os.path.exists(d + '/o%d' % i)]
            if p.returncode != 0 or missing or 'stuck' in out:
                bad.append('load %s with -l %s: exit %d, outputs missing %s, output %r' % (load, l, p.returncode, missing, out[-200:]))
        finally: shutil.rmtree(d, ignore_errors=True)
    return bad

def jobserver_tokens(ninja):
    """a FIFO jobserver with 3 tokens: all tokens are back in the FIFO when ninja exits (success, failure, -k, StartEdge failure)"""
    bad = []
    for name, manifest, args, expect_rc in (
        ('success', 'rule t\n  command = touch $out\nbuild a: t\nbuild b: t\nbuild c: t\nbuild d: t\n', [], 0),
        ('failure', 'rule t\n  command = touch $out\nrule f\n  command = false\nbuild a: t\nbuild b: f\nbuild c: t\nbuild d: f\n', ['-k', '0'], 1),
        ('mkdir-failure', 'rule t\n  command = sleep 0.2; touch $out\nbuild a: t\nbuild c: t\nbuild blocker/sub/x: t\n', ['-k', '0'], 1)):
        d = mk('c06j')
        try:
            open(d + '/build.ninja', 'w').write(manifest); open(d + '/blocker', 'w').write('file')
            fifo = d + '/fifo'; os.mkfifo(fifo)
            fd = os.open(fifo, os.O_RDWR | os.O_NONBLOCK); os.write(fd, b'+++')
            env = dict(os.environ, MAKEFLAGS='-j4 --jobserver-auth=fifo:' + fifo)
            p = subprocess.run([ninja, '-C', d] + args, stdout=subprocess.PIPE, stderr=subprocess.STDOUT, env=env, timeout=60)
            try: left = len(os.read(fd, 100))
            except BlockingIOError: left = 0
            os.close(fd)
            if left != 3: bad.append(('token-leak-' + name, 'jobserver FIFO held 3 tokens before and %d after a run ending with exit %d (%s)' % (left, p.returncode, name)))
            if (p.returncode == 0) != (expect_rc == 0): bad.append(('exit-' + name, 'exit %d, expected %s' % (p.returncode, 'success' if expect_rc == 0 else 'failure')))
        finally: shutil.rmtree(d, ignore_errors=True)
    return bad

def signals(ninja):
    """SIGINT/SIGTERM/SIGHUP while a command runs: exit 130, lock removed, modified outputs removed, the command is gone
    when ninja exits; then the recovery build; kill -9 of the process group followed by a recovery build"""
    bad = []; n = 0
    for sig in (signal.SIGINT, signal.SIGTERM, signal.SIGHUP):
        for variant in ('plain', 'depfile', 'handler'):
            d = mk('c07s'); n += 1
            try:
                cmd = {'plain': 'echo $$$$ > pid; echo partial > $out; touch started; sleep 30; echo complete > $out',
                       'depfile': 'echo $$$$ > pid; echo "$out: in" > $out.d; touch started; sleep 30; echo complete > $out',
                       'handler': "echo $$$$ > pid; trap 'sleep 0.4; echo late-garbage > $out; exit 1' INT TERM HUP; echo partial > $out; touch started; sleep 30 & wait; echo complete > $out"}[variant]
                open(d + '/build.ninja', 'w').write('rule r\n  command = %s\n%sbuild out: r in\nrule g\n  command = cp $in $out\nbuild final: g out\n' % (cmd, '  depfile = $out.d\n' if variant == 'depfile' else ''))
                open(d + '/in', 'w').write('1')
                if variant == 'depfile': open(d + '/out', 'w').write('old content from an earlier build')
                p = subprocess.Popen([ninja, '-C', d, 'final'], stdout=subprocess.PIPE, stderr=subprocess.STDOUT, start_new_session=True)
                if not wait_for(d + '/started'): bad.append(('signal-setup', 'command never started')); p.kill(); continue
                os.killpg(p.pid, sig)
                try: out, _ = p.communicate(timeout=30)
                except subprocess.TimeoutExpired: p.kill(); bad.append(('signal-hang', 'ninja did not exit within 30 s after %s' % sig.name)); continue
                pid = int(open(d + '/pid').read().split()[0])
                alive = True
                try: os.kill(pid, 0)
                except ProcessLookupError: alive = False
                if alive: bad.append(('signal-child-alive', '%s/%s: ninja exited while its command (pid %d) is still running' % (sig.name, variant, pid)))
                if p.returncode != 130: bad.append(('signal-exit', '%s/%s: exit status %s, expected 130' % (sig.name, variant, p.returncode)))
                if os.path.exists(d + '/.ninja_lock'): bad.append(('signal-lock', '%s/%s: .ninja_lock not removed' % (sig.name, variant)))
                time.sleep(0.6 if variant == 'handler' else 0.0)
                if os.path.exists(d + '/out'): bad.append(('signal-output', '%s/%s: output of the interrupted command still exists: %r' % (sig.name, variant, open(d + '/out').read()[:30])))
                if os.path.exists(d + '/out.d'): bad.append(('signal-depfile', '%s/%s: depfile of the interrupted command still exists' % (sig.name, variant)))
                # recovery
                open(d + '/build.ninja', 'w').write('rule r\n  command = echo complete > $out\nbuild out: r in\nrule g\n  command = cp $in $out\nbuild final: g out\n')
                r = subprocess.run([ninja, '-C', d, 'final'], stdout=subprocess.PIPE, stderr=subprocess.STDOUT, timeout=60)
                if r.returncode != 0 or open(d + '/final').read() != 'complete\n': bad.append(('signal-recovery', '%s/%s: recovery build exit %d, final=%r' % (sig.name, variant, r.returncode, open(d + '/final').read() if os.path.exists(d + '/final') else None)))
            finally: shutil.rmtree(d, ignore_errors=True)
    # SIGKILL of the whole tree at three moments, commands replace outputs atomically
    for moment in ('before-write', 'after-write', 'after-first-of-two'):
        d = mk('c07k'); n += 1
        try:
            cmd = 'echo v2 > $out.tmp; %s mv $out.tmp $out; %s sleep 30' % ('touch started; sleep 30;' if moment == 'before-write' else '', 'touch started;' if moment != 'before-write' else '')
            open(d + '/build.ninja', 'w').write('rule r\n  command = %s\nbuild out: r in\nrule g\n  command = cp $in $out\nbuild final: g out\n' % cmd)
            open(d + '/in', 'w').write('1')
            p = subprocess.Popen([ninja, '-C', d, 'final'], stdout=subprocess.PIPE, stderr=subprocess.STDOUT, start_new_session=True)
            if not wait_for(d + '/started'): bad.append(('kill-setup', 'command never started')); p.kill(); continue
            os.killpg(p.pid, signal.SIGKILL); p.communicate(timeout=30)
            open(d + '/build.ninja', 'w').write('rule r\n  command = echo v2 > $out.tmp; mv $out.tmp $out\nbuild out: r in\nrule g\n  command = cp $in $out\nbuild final: g out\n')
            r = subprocess.run([ninja, '-C', d, 'final'], stdout=subprocess.PIPE, stderr=subprocess.STDOUT, timeout=60)
            if r.returncode != 0 or not os.path.exists(d + '/final') or open(d + '/final').read() != 'v2\n':
                bad.append(('kill-recovery', 'kill -9 %s: recovery build exit %d, final=%r, output %r' % (moment, r.returncode, open(d + '/final').read() if os.path.exists(d + '/final') else None, r.stdout.decode()[-200:])))
            r2 = subprocess.run([ninja, '-C', d, 'final'], stdout=subprocess.PIPE, stderr=subprocess.STDOUT, timeout=60)
            if b'no work to do' not in r2.stdout: bad.append(('kill-converge', 'kill -9 %s: the run after the recovery build is not a no-op: %r' % (moment, r2.stdout.decode()[-100:])))
        finally: shutil.rmtree(d, ignore_errors=True)
    return bad, n

def start_preconditions(ninja):
    """C04 on the real binary and the real disk: at the moment the command starts, the output/depfile directories
    exist and the response file holds the declared content -- also when writing it meets an I/O error (file size
    limit: the flush at fclose() fails), in which case the command must not be started at all."""
    import resource
    bad = []
    content = ' '.join('obj/file%03d.o' % i for i in range(200))          # 2999 bytes: fits the stdio buffer
    script = ('if [ -d deep/er ] && [ -d dd ]; then echo dirs-ok > dirs; else echo DIRS-MISSING > dirs; fi; '
              'if [ "$$(cat deep/er/app.rsp)" = "%s" ]; then echo ok > seen; else echo BAD > seen; fi; : > deep/er/app; : > dd/app.d') % content
    manifest = 'rule link\n  command = %s\n  rspfile = deep/er/app.rsp\n  rspfile_content = %s\n  depfile = dd/app.d\nbuild deep/er/app: link in\n' % (script, content)
    for limit in (None, 1024, 2048, 512):
        with tempfile.TemporaryDirectory(prefix='verif-real-', dir='/dev/shm') as d:
            open(d + '/build.ninja', 'w').write(manifest); open(d + '/in', 'w').write('x')
            def pre():
                if limit is not None:
                    signal.signal(signal.SIGXFSZ, signal.SIG_IGN)
                    resource.setrlimit(resource.RLIMIT_FSIZE, (limit, limit))
            p = subprocess.run([ninja, '-C', d], stdout=subprocess.PIPE, stderr=subprocess.STDOUT, timeout=60, preexec_fn=pre)
            seen = open(d + '/seen').read().strip() if os.path.exists(d + '/seen') else None
            dirs = open(d + '/dirs').read().strip() if os.path.exists(d + '/dirs') else None
            if limit is None:
                if p.returncode != 0 or seen != 'ok' or dirs != 'dirs-ok':
                    bad.append(('start-preconditions', 'plain run: exit %d, response file seen by the command: %s, directories: %s; %s' % (p.returncode, seen, dirs, p.stdout.decode(errors='replace')[-300:])))
            else:
                if seen is not None and seen != 'ok':
                    bad.append(('rspfile-write-error-ignored', 'file size limit %d (the write of the %d-byte response file fails when the stream is flushed): the command was started '
                                'and found a response file that does not hold the declared content; ninja exit %d' % (limit, len(content), p.returncode)))
                elif seen is None and p.returncode == 0:
                    bad.append(('rspfile-write-error-ignored', 'file size limit %d: ninja reports success although the command never ran' % limit))
    return bad

def _proc_state(pid):
    try: return open('/proc/%d/stat' % pid).read().rsplit(')', 1)[1].split()[0]
    except (OSError, IndexError): return '-'

def jobserver_abort_unreaped(ninja):
    """two commands finish while ninja is stopped (both sit in the finished queue when it continues); handling the first
    completion aborts the build (its output is a malformed dyndep file).  Every token must be back in the FIFO at exit,
    including that of the finished-but-not-yet-reaped command."""
    bad = []
    for order in (('a.dd', 'b.dd'), ('b.dd', 'a.dd')):
        d = mk('c06a')
        p = None
        try:
            m = ('rule gate\n  command = echo $$$$ > $out.pid; while [ ! -e go ]; do sleep 0.01; done; echo not-a-dyndep-file > $out\n'
                 'rule touch\n  command = touch $out\n')
            for dd in order: m += 'build %s: gate\n' % dd
            m += 'build c: touch || a.dd\n  dyndep = a.dd\nbuild e: touch || b.dd\n  dyndep = b.dd\ndefault c e\n'
            open(d + '/build.ninja', 'w').write(m)
            fifo = d + '/fifo'; os.mkfifo(fifo)
            fd = os.open(fifo, os.O_RDWR | os.O_NONBLOCK); os.write(fd, b'++')
            env = dict(os.environ, MAKEFLAGS=' -j3 --jobserver-auth=fifo:' + fifo)
            p = subprocess.Popen([ninja, '-C', d], stdout=subprocess.PIPE, stderr=subprocess.STDOUT, env=env)
            if not (wait_for(d + '/a.dd.pid') and wait_for(d + '/b.dd.pid')):
                bad.append(('abort-setup', 'the two gated commands did not both start under a 2-token jobserver')); continue
            time.sleep(0.05)
            pids = [int(open(d + '/%s.pid' % x).read().strip() or 0) for x in order]
            os.kill(p.pid, signal.SIGSTOP)
            t0 = time.time()
            while _proc_state(p.pid) != 'T' and time.time() - t0 < 10: time.sleep(0.005)
            open(d + '/go', 'w').close()
            t0 = time.time()
            while not all(_proc_state(x) in ('Z', '-') for x in pids) and time.time() - t0 < 20: time.sleep(0.005)
            try: held = len(os.read(fd, 100))
            except BlockingIOError: held = 0
            os.write(fd, b'+' * held)
            os.kill(p.pid, signal.SIGCONT)
            try: out, _ = p.communicate(timeout=60)
            except subprocess.TimeoutExpired: p.kill(); bad.append(('abort-hang', 'ninja did not exit within 60 s')); continue
            try: left = len(os.read(fd, 100))
            except BlockingIOError: left = 0
            os.close(fd)
            if held != 1 or p.returncode == 0: continue       # the scenario was not reached (no explicit token taken / no abort): nothing to judge
            if left != 2:
                bad.append(('token-leak-abort-unreaped', 'jobserver FIFO held 2 tokens before and %d after a run that aborted (exit %d: %s) while a second command had finished '
                            'but was not reaped yet (order %s)' % (left, p.returncode, out.decode(errors='replace').strip().split('\n')[-1][:120], ','.join(order))))
        finally:
            if p and p.poll() is None: p.kill()
            shutil.rmtree(d, ignore_errors=True)
    return bad

def concurrency_limits(ninja):
    """real processes: at no moment more than -j commands run, more than `depth` of one pool, more than one console command;
    every command runs exactly once; observed from start/end marks the commands append (O_APPEND, one short line each)"""
    bad = []
    for j, depth in ((3, 2), (1, 1), (8, 3)):
        d = mk('c06c')
        try:
            L = ['pool p', '  depth = %d' % depth,
                 'rule r', '  command = echo S $k >> marks; sleep 0.05; echo E $k >> marks; touch $out',
                 'rule rc', '  command = echo S $k >> marks; sleep 0.03; echo E $k >> marks; touch $out', '  pool = console']
            names = []
            for k in range(14):
                pool = 'p' if k % 2 == 0 else None
                L.append('build o%d: %s%s' % (k, 'rc' if k in (5, 9) else 'r', (' o%d' % (k - 7)) if k >= 10 else ''))
                L.append('  k = %s%d' % ('P' if pool and k not in (5, 9) else 'C' if k in (5, 9) else 'N', k))
                if pool and k not in (5, 9): L.append('  pool = p')
                names.append('o%d' % k)
            L.append('build all: phony ' + ' '.join(names)); L.append('default all')
            open(d + '/build.ninja', 'w').write('\n'.join(L) + '\n')
            p = subprocess.run([ninja, '-C', d, '-j%d' % j], stdout=subprocess.PIPE, stderr=subprocess.STDOUT, timeout=120)
            if p.returncode != 0: bad.append(('real-concurrency', '-j%d: exit %d: %s' % (j, p.returncode, p.stdout.decode(errors='replace')[-200:]))); continue
            running = set(); mx = mxp = mxc = 0; started = {}
            for l in open(d + '/marks').read().split('\n'):
                w = l.split()
                if len(w) != 2: continue
                if w[0] == 'S':
                    started[w[1]] = started.get(w[1], 0) + 1; running.add(w[1])
                    mx = max(mx, len(running)); mxp = max(mxp, sum(1 for x in running if x[0] == 'P')); mxc = max(mxc, sum(1 for x in running if x[0] == 'C'))
                else: running.discard(w[1])
            if mx > j: bad.append(('real-concurrency', '-j%d: %d commands were running at the same time' % (j, mx)))
            if mxp > depth: bad.append(('real-concurrency', 'pool depth %d: %d commands of the pool were running at the same time' % (depth, mxp)))
            if mxc > 1: bad.append(('real-concurrency', '%d console-pool commands were running at the same time' % mxc))
            if len(started) != 14 or any(v != 1 for v in started.values()): bad.append(('real-once', '-j%d: commands started %r (each of 14 expected exactly once)' % (j, sorted(started.items()))))
        finally: shutil.rmtree(d, ignore_errors=True)
    return bad

def jobserver_child_interrupted(ninja):
    """a command that is itself killed by SIGINT (ninja is NOT signalled): ninja stops with status 130 'interrupted by user';
    every jobserver token must be back in the FIFO, including the one of the command that died"""
    bad = []
    # (ninja then WAITS for the other running commands instead of killing them -- it was not interrupted itself -- so they are short)
    for victim in ('b', 'c'):
        d = mk('c06i'); p = None
        try:
            open(d + '/build.ninja', 'w').write('rule g\n  command = echo $$$$ > $out.pid; exec sleep 2\nbuild a: g\nbuild b: g\nbuild c: g\ndefault a b c\n')
            fifo = d + '/fifo'; os.mkfifo(fifo)
            fd = os.open(fifo, os.O_RDWR | os.O_NONBLOCK); os.write(fd, b'++')
            env = dict(os.environ, MAKEFLAGS=' -j3 --jobserver-auth=fifo:' + fifo)
            p = subprocess.Popen([ninja, '-C', d], stdout=subprocess.PIPE, stderr=subprocess.STDOUT, env=env, start_new_session=True)
            if not all(wait_for(d + '/%s.pid' % x) for x in 'abc'):
                bad.append(('child-int-setup', 'three commands did not start under a 2-token jobserver + implicit slot')); continue
            time.sleep(0.05)
            os.kill(int(open(d + '/%s.pid' % victim).read().split()[0]), signal.SIGINT)
            try: out, _ = p.communicate(timeout=30)
            except subprocess.TimeoutExpired: bad.append(('child-int-hang', 'ninja did not exit within 30 s after one of its commands was killed by SIGINT')); continue
            try: left = len(os.read(fd, 100))
            except BlockingIOError: left = 0
            os.close(fd)
            if left != 2:
                bad.append(('token-leak-child-interrupted', 'jobserver FIFO held 2 tokens before and %d after a run in which command %s was killed by SIGINT (ninja exit %d: %s)'
                            % (left, victim, p.returncode, out.decode(errors='replace').strip().split('\n')[-1][:100])))
        finally:
            if p and p.poll() is None:
                try: os.killpg(p.pid, signal.SIGKILL)
                except OSError: pass
            shutil.rmtree(d, ignore_errors=True)
    return bad

def jobserver_limits(ninja):
    """a jobserver pool with ONE token: whatever else MAKEFLAGS carries (flag letters of make in the first word, further options
    after the jobserver one), ninja runs at most 2 commands at a time (implicit slot + the token) and gives the token back"""
    bad = []
    for flags in (' -j5 --jobserver-auth=fifo:%s', 'k -j5 --jobserver-auth=fifo:%s', 'kw -j5 --jobserver-auth=fifo:%s --no-print-directory',
                  ' --no-print-directory -j5 --jobserver-auth=fifo:%s -- VAR=nnn'):
        d = mk('c06m')
        try:
            L = ['rule r', '  command = echo S $out >> marks; sleep 0.05; echo E $out >> marks; touch $out']
            L += ['build o%d: r' % k for k in range(7)] + ['build all: phony ' + ' '.join('o%d' % k for k in range(7)), 'default all']
            open(d + '/build.ninja', 'w').write('\n'.join(L) + '\n')
            fifo = d + '/tokens.fifo'; os.mkfifo(fifo)
            fd = os.open(fifo, os.O_RDWR | os.O_NONBLOCK); os.write(fd, b'+')
            env = dict(os.environ, MAKEFLAGS=flags % fifo)
            p = subprocess.run([ninja, '-C', d], stdout=subprocess.PIPE, stderr=subprocess.STDOUT, env=env, timeout=60)
            try: left = len(os.read(fd, 100))
            except BlockingIOError: left = 0
            os.close(fd)
            running = set(); mx = 0
            for l in (open(d + '/marks').read().split('\n') if os.path.exists(d + '/marks') else []):
                w = l.split()
                if len(w) != 2: continue
                if w[0] == 'S': running.add(w[1]); mx = max(mx, len(running))
                else: running.discard(w[1])
            txt = p.stdout.decode(errors='replace')
            if p.returncode != 0: bad.append(('jobserver-limit', 'MAKEFLAGS=%r: exit %d: %s' % (flags % 'F', p.returncode, txt[-150:])))
            if mx > 2: bad.append(('jobserver-limit', 'MAKEFLAGS=%r with a one-token pool: %d commands ran at the same time (at most 2 allowed)' % (flags % 'F', mx)))
            if left != 1: bad.append(('jobserver-limit', 'MAKEFLAGS=%r: the pool holds %d tokens after the run, 1 before' % (flags % 'F', left)))
        finally: shutil.rmtree(d, ignore_errors=True)
    return bad

def recompaction_keeps_live_entries(ninja):
    """C02 on the real binary across an automatic .ninja_log recompaction (more than 100 records, more than 3x the outputs): the
    entries of outputs that exist only through a dyndep file (implicit outputs a dyndep file declares) are live; the run that
    recompacts and every later run find nothing to do"""
    bad = []
    d = mk('c02r')
    try:
        open(d + '/build.ninja', 'w').write(
            "rule mkdd\n  command = printf 'ninja_dyndep_version = 1\\nbuild out | out.extra: dyndep\\n' > $out\nbuild dd: mkdd\n"
            'rule r\n  command = touch out out.extra\nbuild out: r in || dd\n  dyndep = dd\nrule c\n  command = cat $in > $out\nbuild final: c out\ndefault final\n')
        open(d + '/in', 'w').write('x')
        def run(*a): return subprocess.run([ninja, '-C', d] + list(a), stdout=subprocess.PIPE, stderr=subprocess.STDOUT, timeout=60)
        p = run()
        if p.returncode != 0: return [('recompact-setup', 'initial build failed: ' + p.stdout.decode(errors='replace')[-200:])]
        nrec = lambda: sum(1 for l in open(d + '/.ninja_log') if not l.startswith('#'))
        for i in range(60):
            if nrec() > 100: break
            os.unlink(d + '/out'); run()
        before = nrec()
        p1 = run(); after = nrec()                # this run loads the long log: recompaction
        p2 = run('-d', 'explain')
        if after >= before: bad.append(('recompact-setup', 'the log was not recompacted (%d -> %d records)' % (before, after)))
        for name, p in (('the run that recompacted the log', p1), ('the run after the recompaction', p2)):
            if b'no work to do' not in p.stdout:
                bad.append(('recompaction-loses-live-entry', '%s (log %d -> %d records) is not a no-op after a successful build: %s' % (name, before, after, p.stdout.decode(errors='replace').strip()[-250:])))
    finally: shutil.rmtree(d, ignore_errors=True)
    return bad

def exit_codes(ninja):
    """C05 on the real binary: a command that exits with status N (any N in 1..255, including the 128+signal range the shell uses):
    ninja's exit status is non-zero and is N, the dependent is not started, nothing is recorded, the next run tries the command again,
    and an independent command that was already running is waited for and recorded"""
    bad = []
    for code in (1, 2, 3, 126, 127, 128, 129, 131, 137, 143, 255):      # (130 is ExitInterrupted by convention: ninja treats it as an interrupt)
        d = mk('c05x')
        try:
            open(d + '/build.ninja', 'w').write('rule f\n  command = echo ran >> a.count; exit %d\nrule t\n  command = touch $out\nrule slow\n  command = sleep 0.3; touch $out\n'
                                                'build a: f\nbuild b: t a\nbuild c: slow\nbuild all: phony b c\ndefault all\n' % code)
            p = subprocess.run([ninja, '-C', d, '-j2'], stdout=subprocess.PIPE, stderr=subprocess.STDOUT, timeout=60)
            txt = p.stdout.decode(errors='replace')
            if p.returncode == 0: bad.append(('exit-status', 'a command exited with status %d and ninja exited 0: %s' % (code, txt[-150:])))
            elif p.returncode != code: bad.append(('exit-status', 'a command exited with status %d, ninja exited with %d' % (code, p.returncode)))
            if os.path.exists(d + '/b'): bad.append(('exit-status', 'status %d: the dependent of the failed command was built' % code))
            if not os.path.exists(d + '/c'): bad.append(('exit-status', 'status %d: the independent command that was already running was not run to completion' % code))
            log = open(d + '/.ninja_log').read() if os.path.exists(d + '/.ninja_log') else ''
            if '\ta\t' in log: bad.append(('exit-status', 'status %d: the failed command has a build log entry' % code))
            if '\tc\t' not in log: bad.append(('exit-status', 'status %d: the independent command that completed has no build log entry' % code))
            p2 = subprocess.run([ninja, '-C', d, '-j2'], stdout=subprocess.PIPE, stderr=subprocess.STDOUT, timeout=60)
            n = len(open(d + '/a.count').read().split()) if os.path.exists(d + '/a.count') else 0
            if n != 2 or p2.returncode == 0: bad.append(('exit-status', 'status %d: the next run did not try the failed command again (ran %d times, second exit %d)' % (code, n, p2.returncode)))
        finally: shutil.rmtree(d, ignore_errors=True)
    return bad
