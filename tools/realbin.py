"""Real-binary scenarios (the real ninja built from /repo's working tree, real processes, signals, FIFOs).
Deterministic ordering through marker files / FIFOs; timeouts are watchdogs only."""
import os, shutil, signal, subprocess, tempfile, time

def mk(prefix):
    return tempfile.mkdtemp(prefix='verif-%s-' % prefix, dir='/dev/shm')

def wait_for(path, timeout=20.0):
    t0 = time.time()
    while not os.path.exists(path):
        if time.time() - t0 > timeout: return False
        time.sleep(0.005)
    return True

def load_limit(ninja, libfake):
    """-l N with the load far above the limit: ninja must still make progress (one job) and finish, never 'stuck'"""
    bad = []
    for load, l in (('100', '2'), ('3.5', '2'), ('2.0', '2'), ('0', '1')):
        d = mk('c06l')
        try:
            open(d + '/build.ninja', 'w').write('rule t\n  command = touch $out\n' + ''.join('build o%d: t\n' % i for i in range(6)) + 'build all: phony ' + ' '.join('o%d' % i for i in range(6)) + '\n')
            env = dict(os.environ, LD_PRELOAD=libfake, VERIF_FAKE_LOAD=load)
            p = subprocess.run([ninja, '-C', d, '-j4', '-l', l, 'all'], stdout=subprocess.PIPE, stderr=subprocess.STDOUT, env=env, timeout=60)
            out = p.stdout.decode(errors='replace')
            missing = [i for i in range(6) if not os.path.exists(d + '/o%d' % i)]
            if p.returncode != 0 or missing or 'stuck' in out:
                bad.append('load %s with -l %s: exit %d, outputs missing %s, output %r' % (load, l, p.returncode, missing, out[-200:]))
        finally: shutil.rmtree(d, ignore_errors=True)
    return bad

def jobserver_tokens(ninja):
    """a FIFO jobserver with 3 tokens: all tokens are back in the FIFO when ninja exits (success, failure, -k, StartEdge failure)"""
    bad = []
    for name, manifest, args, expect_rc in (
        ('success', 'rule t\n  command = touch $out\nbuild a: t\nbuild b: t\nbuild c: t\nbuild d: t\n', [], 0),
        ('failure', 'rule t\n  command = touch $out\nrule f\n  command = false\nbuild a: t\nbuild b: f\nbuild c: t\nbuild d: f\n', ['-k', '0'], 1),
        ('mkdir-failure', 'rule t\n  command = sleep 0.2; touch $out\nbuild a: t\nbuild c: t\nbuild blocker/sub/x: t\n', ['-k', '0'], 1)):
        d = mk('c06j')
        try:
            open(d + '/build.ninja', 'w').write(manifest); open(d + '/blocker', 'w').write('file')
            fifo = d + '/fifo'; os.mkfifo(fifo)
            fd = os.open(fifo, os.O_RDWR | os.O_NONBLOCK); os.write(fd, b'+++')
            env = dict(os.environ, MAKEFLAGS='-j4 --jobserver-auth=fifo:' + fifo)
            p = subprocess.run([ninja, '-C', d] + args, stdout=subprocess.PIPE, stderr=subprocess.STDOUT, env=env, timeout=60)
            try: left = len(os.read(fd, 100))
            except BlockingIOError: left = 0
            os.close(fd)
            if left != 3: bad.append(('token-leak-' + name, 'jobserver FIFO held 3 tokens before and %d after a run ending with exit %d (%s)' % (left, p.returncode, name)))
            if (p.returncode == 0) != (expect_rc == 0): bad.append(('exit-' + name, 'exit %d, expected %s' % (p.returncode, 'success' if expect_rc == 0 else 'failure')))
        finally: shutil.rmtree(d, ignore_errors=True)
    return bad

def signals(ninja):
    """SIGINT/SIGTERM/SIGHUP while a command runs: exit 130, lock removed, modified outputs removed, the command is gone
    when ninja exits; then the recovery build; kill -9 of the process group followed by a recovery build"""
    bad = []; n = 0
    for sig in (signal.SIGINT, signal.SIGTERM, signal.SIGHUP):
        for variant in ('plain', 'depfile', 'handler'):
            d = mk('c07s'); n += 1
            try:
                cmd = {'plain': 'echo $$$$ > pid; echo partial > $out; touch started; sleep 30; echo complete > $out',
                       'depfile': 'echo $$$$ > pid; echo "$out: in" > $out.d; touch started; sleep 30; echo complete > $out',
                       'handler': "echo $$$$ > pid; trap 'sleep 0.4; echo late-garbage > $out; exit 1' INT TERM HUP; echo partial > $out; touch started; sleep 30 & wait; echo complete > $out"}[variant]
                open(d + '/build.ninja', 'w').write('rule r\n  command = %s\n%sbuild out: r in\nrule g\n  command = cp $in $out\nbuild final: g out\n' % (cmd, '  depfile = $out.d\n' if variant == 'depfile' else ''))
                open(d + '/in', 'w').write('1')
                if variant == 'depfile': open(d + '/out', 'w').write('old content from an earlier build')
                p = subprocess.Popen([ninja, '-C', d, 'final'], stdout=subprocess.PIPE, stderr=subprocess.STDOUT, start_new_session=True)
                if not wait_for(d + '/started'): bad.append(('signal-setup', 'command never started')); p.kill(); continue
                os.killpg(p.pid, sig)
                try: out, _ = p.communicate(timeout=30)
                except subprocess.TimeoutExpired: p.kill(); bad.append(('signal-hang', 'ninja did not exit within 30 s after %s' % sig.name)); continue
                pid = int(open(d + '/pid').read().split()[0])
                alive = True
                try: os.kill(pid, 0)
                except ProcessLookupError: alive = False
                if alive: bad.append(('signal-child-alive', '%s/%s: ninja exited while its command (pid %d) is still running' % (sig.name, variant, pid)))
                if p.returncode != 130: bad.append(('signal-exit', '%s/%s: exit status %s, expected 130' % (sig.name, variant, p.returncode)))
                if os.path.exists(d + '/.ninja_lock'): bad.append(('signal-lock', '%s/%s: .ninja_lock not removed' % (sig.name, variant)))
                time.sleep(0.6 if variant == 'handler' else 0.0)
                if os.path.exists(d + '/out'): bad.append(('signal-output', '%s/%s: output of the interrupted command still exists: %r' % (sig.name, variant, open(d + '/out').read()[:30])))
                if os.path.exists(d + '/out.d'): bad.append(('signal-depfile', '%s/%s: depfile of the interrupted command still exists' % (sig.name, variant)))
                # recovery
                open(d + '/build.ninja', 'w').write('rule r\n  command = echo complete > $out\nbuild out: r in\nrule g\n  command = cp $in $out\nbuild final: g out\n')
                r = subprocess.run([ninja, '-C', d, 'final'], stdout=subprocess.PIPE, stderr=subprocess.STDOUT, timeout=60)
                if r.returncode != 0 or open(d + '/final').read() != 'complete\n': bad.append(('signal-recovery', '%s/%s: recovery build exit %d, final=%r' % (sig.name, variant, r.returncode, open(d + '/final').read() if os.path.exists(d + '/final') else None)))
            finally: shutil.rmtree(d, ignore_errors=True)
    # SIGKILL of the whole tree at three moments, commands replace outputs atomically
    for moment in ('before-write', 'after-write', 'after-first-of-two'):
        d = mk('c07k'); n += 1
        try:
            cmd = 'echo v2 > $out.tmp; %s mv $out.tmp $out; %s sleep 30' % ('touch started; sleep 30;' if moment == 'before-write' else '', 'touch started;' if moment != 'before-write' else '')
            open(d + '/build.ninja', 'w').write('rule r\n  command = %s\nbuild out: r in\nrule g\n  command = cp $in $out\nbuild final: g out\n' % cmd)
            open(d + '/in', 'w').write('1')
            p = subprocess.Popen([ninja, '-C', d, 'final'], stdout=subprocess.PIPE, stderr=subprocess.STDOUT, start_new_session=True)
            if not wait_for(d + '/started'): bad.append(('kill-setup', 'command never started')); p.kill(); continue
            os.killpg(p.pid, signal.SIGKILL); p.communicate(timeout=30)
            open(d + '/build.ninja', 'w').write('rule r\n  command = echo v2 > $out.tmp; mv $out.tmp $out\nbuild out: r in\nrule g\n  command = cp $in $out\nbuild final: g out\n')
            r = subprocess.run([ninja, '-C', d, 'final'], stdout=subprocess.PIPE, stderr=subprocess.STDOUT, timeout=60)
            if r.returncode != 0 or not os.path.exists(d + '/final') or open(d + '/final').read() != 'v2\n':
                bad.append(('kill-recovery', 'kill -9 %s: recovery build exit %d, final=%r, output %r' % (moment, r.returncode, open(d + '/final').read() if os.path.exists(d + '/final') else None, r.stdout.decode()[-200:])))
            r2 = subprocess.run([ninja, '-C', d, 'final'], stdout=subprocess.PIPE, stderr=subprocess.STDOUT, timeout=60)
            if b'no work to do' not in r2.stdout: bad.append(('kill-converge', 'kill -9 %s: the run after the recovery build is not a no-op: %r' % (moment, r2.stdout.decode()[-100:])))
        finally: shutil.rmtree(d, ignore_errors=True)
    return bad, n
