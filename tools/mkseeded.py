#!/usr/bin/env python3
"""Collect the confirmed seeded changes into /verif/seeded/<id>-<n>/ (patch.diff, demonstration, meta.json)."""
import json, os, re, shutil, sys
V = os.path.dirname(os.path.dirname(os.path.abspath(__file__)))
def load_matrix(*paths):
    m = {}
    for path in paths:
      if os.path.exists(path):
        for l in open(path):
            w = l.split('::')[0].split()
            if len(w) >= 3 and w[0].startswith('C'): m[(w[0], w[1])] = ' '.join(w[2:]) + ((' -- first reports: ' + l.split('::', 1)[1].strip()[:300]) if '::' in l else '')
    return m
rows = []
for batch, root, mat in (('b1', '/tmp/mut/out', ('/tmp/mut/matrix.log', '/tmp/mut/matrix_rerun.log', '/tmp/mut/matrix_full.log')), ('b2', '/tmp/mut2/out', ('/tmp/mut2/matrix.log', '/tmp/mut2/matrix_rerun.log', '/tmp/mut2/matrix_full.log', '/tmp/mut2/matrix_rerun2.log')), ('b3', '/tmp/mut3/out', ('/tmp/mut3/matrix.log', '/tmp/mut3/matrix_rerun.log')), ('b4', '/tmp/mut4/out', ('/tmp/mut4/matrix.log', '/tmp/mut4/matrix_rerun.log')), ('b5', '/tmp/mut5/out', ('/tmp/mut5/matrix.log', '/tmp/mut5/matrix_rerun.log')), ('b6', '/tmp/mut6/out', ('/tmp/mut6/matrix.log', '/tmp/mut6/matrix_rerun.log')), ('b7', '/tmp/mut7/out', ('/tmp/mut7/matrix.log', '/tmp/mut7/matrix_rerun.log'))):
    matrix = load_matrix(*mat)
    if not os.path.isdir(root): continue
    for pid in sorted(os.listdir(root)):
        for m in ('m1', 'm2'):
            d = os.path.join(root, pid, m)
            if not os.path.exists(os.path.join(d, 'patch.diff')): continue
            vj = os.path.join(d, 'verify.json')
            if not os.path.exists(vj): continue
            v = json.load(open(vj))
            if not (v['applies'] and v['builds'] and v['tests_pass'] and v['demo_fails_with_change'] and v['demo_passes_pristine']): continue
            out = os.path.join(V, 'seeded', '%s-%s-%s' % (pid, batch, m)); os.makedirs(out, exist_ok=True)
            for f in os.listdir(d):
                if f in ('verify.json', 'test.log') or f.endswith('.log'): continue
                src = os.path.join(d, f)
                if os.path.isfile(src) and os.path.getsize(src) < 200000: shutil.copy(src, out)
            if os.path.exists(os.path.join(out, 'patch.rebased.diff')):
                # the fix commits made since touched the same hunk: the change re-applied by hand to the current tree is the one kept and confirmed
                os.replace(os.path.join(out, 'patch.diff'), os.path.join(out, 'patch.orig.diff'))
                os.replace(os.path.join(out, 'patch.rebased.diff'), os.path.join(out, 'patch.diff'))
            readme = open(os.path.join(d, 'README.md'), errors='replace').read() if os.path.exists(os.path.join(d, 'README.md')) else ''
            needs = ''
            mm = re.search(r'(?is)(needs|trigger|manifest)[^\n]*\n(.{0,600})', readme)
            if mm: needs = mm.group(0)[:700]
            meta = dict(property=pid, batch=batch, breaks=readme[:600], needs_to_manifest=needs,
                        confirmed=dict(worktree='scratch git worktree of /repo outside /repo and /verif', patch_applies=True, builds=True,
                                       unit_suite_passes=True, demonstration_fails_with_change=True, demonstration_passes_without=True,
                                       how='tools/verify_seeded.sh <scratch base> %s %s (git apply; cmake --build; ninja_test from an empty directory; demo.sh; revert; rebuild; demo.sh)' % (pid, m), tree=v.get('head', 'earlier HEAD')),
                        detected=matrix.get((pid, m), 'not run'),
                        check_cmd='VERIF_REPO=<tree with the patch> tools/check %s --tier quick' % pid)
            json.dump(meta, open(os.path.join(out, 'meta.json'), 'w'), indent=1)
            title = next((l.strip('# ').strip() for l in readme.split('\n') if l.startswith('#')), '')[:160]
            files = sorted(set(re.findall(r'^\+\+\+ b/(\S+)', open(os.path.join(out, 'patch.diff')).read(), flags=re.M)))
            rows.append((pid, batch, m, title, ', '.join(files), meta['detected']))
            print(out, meta['detected'][:80])
# rows of batches whose scratch directories are gone are kept as they stand in INDEX.md
old = []
ip = os.path.join(V, 'seeded', 'INDEX.md')
if os.path.exists(ip):
    have = {'%s-%s-%s' % (r[0], r[1], r[2]) for r in rows}
    for l in open(ip):
        c = [x.strip() for x in l.strip().strip('|').split(' | ')] if l.startswith('| C') else None
        if c and len(c) >= 4 and c[0] not in have: old.append(l)
with open(ip, 'w') as f:
    f.write('# Seeded changes (written by fresh sub-agents from the property text only; each confirmed by tools/verify_seeded.sh)\n\n')
    f.write('Detection = `VERIF_REPO=<scratch worktree with the patch> tools/check <id> --tier quick`: number of VIOLATION lines with a concrete failing input / number that only name a broken proof or correspondence (`nofail`), then the first reports.\n\n')
    f.write('| seeded change | files | title | detection by the property\'s own check |\n|---|---|---|---|\n')
    for l in old: f.write(l)
    for pid, batch, m, title, files, det in rows:
        f.write('| %s-%s-%s | %s | %s | %s |\n' % (pid, batch, m, files, title.replace('|', '/'), det.replace('|', ' / ')[:330]))
