"""Shared machinery of the /verif checks: building the model and the implementation harness,
running both, reporting violations and writing evidence.  python3 stdlib only."""
import hashlib, json, os, subprocess, sys, time, fcntl, shutil, glob, re

VERIF = os.path.dirname(os.path.dirname(os.path.abspath(__file__)))
REPO = os.environ.get('VERIF_REPO', '/repo')
CACHE = os.path.join(VERIF, '.cache')
COQ = os.path.join(VERIF, 'coq')
GUARD = 'NINJA_VERIF_HOOKS'
SEED = int(os.environ.get('VERIF_SEED', '1'))

LIB_SOURCES = """build_log.cc build.cc clean.cc clparser.cc dyndep.cc dyndep_parser.cc debug_flags.cc
deps_log.cc disk_interface.cc edit_distance.cc elide_middle.cc eval_env.cc explanations.cc graph.cc
graphviz.cc jobserver.cc json.cc line_printer.cc manifest_parser.cc metrics.cc missing_deps.cc
parser.cc real_command_runner.cc state.cc status_printer.cc string_piece_util.cc util.cc version.cc
jobserver-posix.cc subprocess-posix.cc lexer.cc depfile_parser.cc""".split()

def log(*a):
    print(*a, file=sys.stderr, flush=True)

def sh(cmd, **kw):
    return subprocess.run(cmd, **kw)

def _hash_files(paths, extra=b''):
    h = hashlib.sha256(extra)
    for p in sorted(paths):
        h.update(p.encode()); h.update(b'\0')
        with open(p, 'rb') as f: h.update(f.read())
        h.update(b'\0')
    return h.hexdigest()[:20]

class Lock:
    def __init__(self, name):
        os.makedirs(CACHE, exist_ok=True)
        self.path = os.path.join(CACHE, name + '.lock')
    def __enter__(self):
        self.f = open(self.path, 'w'); fcntl.flock(self.f, fcntl.LOCK_EX); return self
    def __exit__(self, *a):
        fcntl.flock(self.f, fcntl.LOCK_UN); self.f.close()

def _parallel(cmds, jobs=16):
    """run shell command lists in parallel; return list of (cmd, rc, output) for failures"""
    procs, fails, it = [], [], iter(cmds)
    def start():
        try: c = next(it)
        except StopIteration: return False
        procs.append((c, subprocess.Popen(c, stdout=subprocess.PIPE, stderr=subprocess.STDOUT)))
        return True
    for _ in range(jobs):
        if not start(): break
    while procs:
        c, p = procs.pop(0)
        out = p.communicate()[0]
        if p.returncode != 0: fails.append((c, p.returncode, out.decode(errors='replace')))
        start()
    return fails

FLAVORS = {
    # sanitized library + harness: every pure correspondence runs on this one (C13 rides along)
    'asan': ['-O1', '-g', '-fsanitize=address,undefined', '-fno-sanitize-recover=all', '-fno-omit-frame-pointer'],
    # plain build: the real ninja binary and speed-sensitive engine runs
    'plain': ['-O1', '-g', '-DNDEBUG'],   # like the repository's own RelWithDebInfo build: assert() is compiled out
}

def impl_hash(flavor):
    srcs = glob.glob(os.path.join(REPO, 'src', '*.cc')) + glob.glob(os.path.join(REPO, 'src', '*.h')) + \
           glob.glob(os.path.join(REPO, 'src', '*.c'))
    hs = [os.path.join(VERIF, 'harness', l.strip()) for l in open(os.path.join(VERIF, 'harness', 'ENABLED')) if l.strip()] + \
         glob.glob(os.path.join(VERIF, 'harness', '*.h')) + glob.glob(os.path.join(VERIF, 'harness', 'helpers', '*')) + [os.path.join(VERIF, 'harness', 'ENABLED')]
    return _hash_files([p for p in srcs + hs if os.path.isfile(p)], (flavor + ' '.join(FLAVORS[flavor])).encode())

class BuildError(Exception):
    pass

def build_impl(flavor='asan'):
    """Compile /repo's current working tree (libninja sources + ninja.cc) and the harness into
    .cache/impl-<flavor>-<hash>/ ; returns that directory.  Shared by all checks via a lock."""
    with Lock('impl-' + flavor):
        h = impl_hash(flavor)
        d = os.path.join(CACHE, 'impl-%s-%s' % (flavor, h))
        if os.path.exists(os.path.join(d, 'OK')):
            os.utime(os.path.join(d, 'OK'))
            return d
        t0 = time.time()
        shutil.rmtree(d, ignore_errors=True)
        os.makedirs(os.path.join(d, 'obj'))
        cxx = ['g++', '-std=c++17', '-DUSE_PPOLL=1', '-D' + GUARD, '-w',
               '-iquote', os.path.join(REPO, 'src')] + FLAVORS[flavor]
        cmds = []
        for s in LIB_SOURCES + ['ninja.cc']:
            cmds.append(cxx + ['-c', os.path.join(REPO, 'src', s), '-o', os.path.join(d, 'obj', s[:-3] + '.o')])
        hsrc = [os.path.join(VERIF, 'harness', l.strip()) for l in open(os.path.join(VERIF, 'harness', 'ENABLED')) if l.strip()]
        for s in hsrc:
            cmds.append(cxx + ['-I' + os.path.join(VERIF, 'harness'), '-c', s, '-o',
                               os.path.join(d, 'obj', 'h_' + os.path.basename(s)[:-3] + '.o')])
        csrc = sorted(glob.glob(os.path.join(VERIF, 'harness', 'helpers', '*.c')))
        for s in csrc:
            b = os.path.basename(s)[:-2]
            if b.startswith('lib'): cmds.append(['gcc', '-O1', '-shared', '-fPIC', '-o', os.path.join(d, b + '.so'), s])
            else: cmds.append(['gcc', '-O1', '-o', os.path.join(d, b), s])
        fails = _parallel(cmds)
        if fails:
            raise BuildError('compilation of the working tree failed:\n' + '\n'.join(
                ' '.join(c[-3:]) + '\n' + o[-3000:] for c, rc, o in fails))
        libobjs = [os.path.join(d, 'obj', s[:-3] + '.o') for s in LIB_SOURCES]
        link = ['g++'] + FLAVORS[flavor]
        fails = _parallel([
            link + ['-o', os.path.join(d, 'ninja'), os.path.join(d, 'obj', 'ninja.o')] + libobjs,
            link + ['-o', os.path.join(d, 'impl_run')] +
                [os.path.join(d, 'obj', 'h_' + os.path.basename(s)[:-3] + '.o') for s in hsrc] + libobjs + ['-lpthread', '-lutil', '-Wl,--wrap=fflush'],
        ])
        if fails:
            raise BuildError('link failed:\n' + '\n'.join(o[-3000:] for c, rc, o in fails))
        open(os.path.join(d, 'OK'), 'w').write(str(time.time() - t0))
        # prune older builds of this flavor (keep the 3 most recent)
        olds = sorted(glob.glob(os.path.join(CACHE, 'impl-%s-*' % flavor)), key=lambda p: os.path.getmtime(os.path.join(p, 'OK')) if os.path.exists(os.path.join(p, 'OK')) else 0)
        for o in olds[:-3]:
            # never a build some concurrently running check may still be using (its OK stamp is refreshed on every use)
            ok = os.path.join(o, 'OK')
            if os.path.exists(ok) and time.time() - os.path.getmtime(ok) < 2700: continue
            shutil.rmtree(o, ignore_errors=True)
        log('built impl (%s) in %.1fs' % (flavor, time.time() - t0))
        return d

def coq_sources():
    out = []
    for l in open(os.path.join(COQ, '_CoqProject')):
        l = l.strip()
        if l.endswith('.v'): out.append(l)
    return out

def build_coq(targets=None, timeout=3000):
    """make the .vo files (full compile, never -vos).  Returns (ok, output)."""
    with Lock('coq'):
        if not os.path.exists(os.path.join(COQ, 'Makefile')) or \
           os.path.getmtime(os.path.join(COQ, 'Makefile')) < os.path.getmtime(os.path.join(COQ, '_CoqProject')):
            sh(['coq_makefile', '-f', '_CoqProject', '-o', 'Makefile'], cwd=COQ, check=True,
               stdout=subprocess.DEVNULL)
        cmd = ['timeout', str(timeout), 'make', '-j16', '-k'] + (targets or [])
        p = sh(cmd, cwd=COQ, stdout=subprocess.PIPE, stderr=subprocess.STDOUT)
        return p.returncode == 0, p.stdout.decode(errors='replace')

# models added after round 1: (extraction file, OCaml module it writes, driver under extract/, binary name); built when present
OPTIONAL_MODELS = (('ExtractMisc.v', 'miscmodel', 'misc_run.ml', 'misc_run'), ('ExtractScanDyn.v', 'scandynmodel', 'scandyn_run.ml', 'scandyn_run'))
OPTIONAL_EXTRACTS = [x for x, _, _, _ in OPTIONAL_MODELS]

def build_model():
    """Extract the models and build model_run; returns the path of the binary."""
    ok, out = build_coq(['Extract.vo', 'ExtractPlan.vo', 'ExtractDyndep.vo', 'ExtractScan.vo', 'ExtractClean.vo', 'ExtractStatus.vo', 'ExtractBuildLog.vo', 'ExtractManifest.vo', 'ExtractDepsLog.vo', 'Engine/HistRun.vo', 'Engine/HistDry.vo', 'Engine/HistFailDefs.vo', 'Engine/HistDepsDefs.vo', 'Engine/HistFaithful.vo', 'Engine/HistDepsFaithful.vo', 'Engine/HistCrashDefs.vo', 'Engine/HistParDefs.vo', 'Engine/HistDepfileDefs.vo', 'Engine/HistFailFaithful.vo', 'Engine/HistDepfileFaithful.vo', 'Engine/HistFailKDefs.vo', 'Engine/HistDyndepDefs.vo', 'Engine/HistFailKFaithful.vo', 'Engine/HistDyndepFaithful.vo'] + [x[:-2] + '.vo' for x in OPTIONAL_EXTRACTS if os.path.exists(os.path.join(COQ, x))])
    if not ok:
        raise BuildError('the model definitions no longer compile:\n' + out[-3000:])
    with Lock('model'):
        srcs = [os.path.join(COQ, s) for s in coq_sources() if not s.startswith('Properties/')] + \
               [os.path.join(VERIF, 'extract', 'model_run.ml'), os.path.join(VERIF, 'extract', 'depslog_run.ml'), os.path.join(VERIF, 'extract', 'manifest_run.ml'), os.path.join(VERIF, 'extract', 'plan_run.ml'), os.path.join(VERIF, 'extract', 'dyndep_run.ml'), os.path.join(VERIF, 'extract', 'scan_run.ml'), os.path.join(VERIF, 'extract', 'buildlog_run.ml'), os.path.join(VERIF, 'extract', 'clean_run.ml'), os.path.join(VERIF, 'extract', 'status_run.ml'), os.path.join(VERIF, 'extract', 'hist_run.ml'), os.path.join(COQ, 'ExtractHist.v')] + \
               [p for x, ml, drv, exe in OPTIONAL_MODELS for p in (os.path.join(COQ, x), os.path.join(VERIF, 'extract', drv)) if os.path.exists(p)]
        h = _hash_files(srcs)
        d = os.path.join(CACHE, 'model-' + h)
        if os.path.exists(os.path.join(d, 'OK')):
            return os.path.join(d, 'model_run')
        shutil.rmtree(d, ignore_errors=True); os.makedirs(d)
        p = sh(['coqc', '-Q', COQ, 'NinjaV', os.path.join(COQ, 'Extract.v'), '-o', os.path.join(d, 'Extract.vo')],
               cwd=d, stdout=subprocess.PIPE, stderr=subprocess.STDOUT)
        if p.returncode != 0:
            raise BuildError('extraction failed:\n' + p.stdout.decode(errors='replace')[-3000:])
        shutil.copy(os.path.join(VERIF, 'extract', 'model_run.ml'), d)
        p = sh(['ocamlfind', 'ocamlopt', '-w', '-a', '-package', 'str', '-linkpkg', 'model.mli', 'model.ml', 'model_run.ml', '-o', 'model_run'],
               cwd=d, stdout=subprocess.PIPE, stderr=subprocess.STDOUT)
        if p.returncode != 0:
            raise BuildError('ocaml build of model_run failed:\n' + p.stdout.decode(errors='replace')[-3000:])
        for ext, ml, drv, exe in (('ExtractPlan.v', 'planmodel', 'plan_run.ml', 'plan_run'), ('ExtractDyndep.v', 'dyndepmodel', 'dyndep_run.ml', 'dyndep_run'), ('ExtractScan.v', 'scanmodel', 'scan_run.ml', 'scan_run'), ('ExtractClean.v', 'cleanmodel', 'clean_run.ml', 'clean_run'), ('ExtractStatus.v', 'statusmodel', 'status_run.ml', 'status_run'), ('ExtractBuildLog.v', 'buildlogmodel', 'buildlog_run.ml', 'buildlog_run'), ('ExtractManifest.v', 'manifestmodel', 'manifest_run.ml', 'manifest_run'), ('ExtractDepsLog.v', 'depslogmodel', 'depslog_run.ml', 'depslog_run'), ('ExtractHist.v', 'histmodel', 'hist_run.ml', 'hist_run')) + OPTIONAL_MODELS:
            if not os.path.exists(os.path.join(COQ, ext)): continue
            p = sh(['coqc', '-Q', COQ, 'NinjaV', os.path.join(COQ, ext), '-o', os.path.join(d, ext[:-2] + '.vo')],
                   cwd=d, stdout=subprocess.PIPE, stderr=subprocess.STDOUT)
            if p.returncode != 0:
                raise BuildError('extraction failed (%s):\n' % ext + p.stdout.decode(errors='replace')[-3000:])
            shutil.copy(os.path.join(VERIF, 'extract', drv), d)
            p = sh(['ocamlfind', 'ocamlopt', '-w', '-a', ml + '.mli', ml + '.ml', drv, '-o', exe],
                   cwd=d, stdout=subprocess.PIPE, stderr=subprocess.STDOUT)
            if p.returncode != 0:
                raise BuildError('ocaml build of %s failed:\n' % exe + p.stdout.decode(errors='replace')[-3000:])
        open(os.path.join(d, 'OK'), 'w').write('ok')
        for o in sorted(glob.glob(os.path.join(CACHE, 'model-*')), key=os.path.getmtime)[:-3]:
            shutil.rmtree(o, ignore_errors=True)
        return os.path.join(d, 'model_run')

def run_lines(binary, component, lines, timeout=600, env=None, extra_args=()):
    """Feed lines to `binary component`; returns (rc, list of output lines, stderr text)."""
    e = dict(os.environ)
    e['ASAN_OPTIONS'] = 'detect_leaks=0:abort_on_error=0:exitcode=99'
    e['UBSAN_OPTIONS'] = 'print_stacktrace=1:halt_on_error=1:exitcode=98'
    if env: e.update(env)
    data = ('\n'.join(lines) + '\n').encode() if lines else b''
    try:
        p = subprocess.run([binary, component] + list(extra_args), input=data, stdout=subprocess.PIPE,
                           stderr=subprocess.PIPE, timeout=timeout, env=e)
    except subprocess.TimeoutExpired as ex:
        return -999, (ex.stdout or b'').decode(errors='replace').split('\n')[:-1], 'TIMEOUT after %ss' % timeout
    out = p.stdout.decode(errors='replace').split('\n')
    if out and out[-1] == '': out.pop()
    return p.returncode, out, p.stderr.decode(errors='replace')

def hexs(b):
    return b.hex() if b else '-'
def unhex(s):
    return b'' if s == '-' else bytes.fromhex(s)
