#!/usr/bin/env python3
"""Correspondence between the extracted HISTORY-LEVEL model (coq/Engine/HistDefs.v run with the command function
hcmd of coq/Engine/HistRun.v; binary `hist_run hist` from extract/hist_run.ml + coq/ExtractHist.v) and the real
ninja engine (harness/run_engine.cc through enginecheck.run_hists).

Histories are generated INSIDE the model's fragment (fragment AB of coq/Engine/README_hist.md): explicit / implicit /
order-only inputs, several outputs, implicit outputs, phony statements and aliases, restat, generator; no depfile /
deps / dyndep / validations / pools / response files, no failing commands, no faults, no jobserver.  Steps: build (given
targets or the defaults, any -j and completion schedule), edit of a source, touch of a source (= the same content written
again), removal of a source or of an output, command-line change of a statement (manifest rewrite), repeated build.

Each history is mapped to (a) the engine scenario (enginecheck.Hist) and (b) one line for the model (protocol: see
extract/hist_run.ml).  Contents are NOT compared (the model's command function is a hash of its own); what is compared
per build step is STRUCTURE:
  accept      both accept the build, or both refuse it (ninja: "missing and no known rule", non-zero exit, nothing started)
  run-set     the same set of commands ran (model: sequential statement order; engine: any schedule)
  order       the engine's start order respects the dependency order (a producer finished before a consumer started)
  exists      per node: the file exists after the build in both or in neither
  clean       per node: "holds what a from-scratch build of the current sources and command lines would produce" agrees
              (engine: state files vs Graph.clean_contents, as oracle_c01; model: content_of = clean_of)
  log         per output of a real statement: a build-log entry exists in both or in neither; it carries the CURRENT command
              hash in both or in neither
  times       the time relations the dirty test reads agree in sign (the two clocks are different, the order is compared):
              recorded mtime vs the output's own mtime, recorded mtime vs every non-order-only input's mtime, output's
              mtime vs every non-order-only input's mtime   (this is what sees FinishCommand's record_mtime rule)
  idle        a build repeated at once after an accepted one runs nothing in both (skipped when the graph has an
              input-less phony statement: the model's no_inputless_phony verdict)
  selfcheck   the model run obeys its own theorems (C01_history_hcmd: accepted build => every node the targets need is
              clean; C02_history_hcmd: the repeated build is idle)
  driver      the driver's memoized command function prints what the extracted step_run / is_clean print (a sample)
Histories whose graph is outside the fragment according to the MODEL's own frag_AB / topo_ordered verdict are counted
and skipped.

DRY RUNS (coq/Engine/HistDry.v dry_build, theorems in Properties_C19dry.v; used by props/c19.py): a build step with dry=1
(`ninja -n`) maps to the model step `n<targets>`.  Compared: accept as above; dry-list: the SET of commands the engine
reports as started under DryRunCommandRunner equals the model's dry_list (exact, also with an input-less phony: no
pruning is involved); dry-executes: the scripted runner ran nothing; dry-order: the engine's listing respects the
dependencies; exists / clean / log / times on the state AFTER the dry run (the model's state is the one before it: any
disturbance of files or log by the engine shows up here); selfcheck: the model's listing is increasing in the statement
order, and the commands of a real build of the same targets that follows at once are among the listed ones (both sides).

FAILING COMMANDS (coq/Engine/HistFailDefs.v buildF_full, theorems in Properties_C05hist.v; used by props/c05.py): ONE build
step per history carries faults (`faults=<out0>:<code>:<touch>`), run with -j1 -k1; touch=0 is FailUntouched, touch=1
(the harness writes GARBAGE to every output before the command exits non-zero) is FailWrote; the harness has no
"delete the outputs, then fail" behaviour, FailDeleted is in the protocol but not generated.  The model runs the
statements in ITS statement order, ninja -j1 in the order of its own priority queue (critical path, then id): the two
orders are both dependency orders but start different independent commands before the failing one.  The model's order
is a free choice (any topological numbering, checked by topo_ordered), so the statements of a fault history are
numbered for the model by the schedule ninja chose in the failing build: everything the commands started before the
failing one need, then the failing statement, then the rest (Map.order).  Compared for the failing build: accept;
failed: exit status non-zero because a command failed, in both or in neither; failed-edge: the same statement failed;
run-set: the same commands were started; dependents: nothing that depends on the failed statement was started;
not-recorded: the build-log entries of the failed statement's outputs are what they were before; exists / clean / log /
times as for every build.  The builds that FOLLOW are compared like every build: there the listed finding
id=failed-cmd-rewrote-output (garbage validated by an old log entry, "no work to do") has to show up identically on
both sides, and does.  selfcheck uses the model's own taint_safe verdict (C01F_history: accepted, not failed,
taint_safe => everything needed is clean).  

THE BUILD LOOP that is run is HistFaithful.build_f (HistDepsFaithful.dbuild_f for recorded deps): Plan::CleanNode and the
restat loop of FinishCommand followed literally.  HistDefs.build (dirty_now: a fresh scan per statement) was found by this
check to re-run a SUPERSET below a statement that is dirty in every scan -- one that reads an input-less phony name, or a
deps statement with a missing hidden source -- when that statement is `restat` and leaves its outputs alone (pinned by
HistRun.ExAlwaysRestat, HistFaithful.ExF, HistDepsFaithful.ExDF; build_f = build under no_inputless_phony:
HistFaithfulProofs.build_f_eq_build).  With the faithful loops EVERY rule is exact, also when no_inputless_phony /
hist_present are false.  The driver runs build / dbuild next to the faithful loop from the same state (old=): the builds in
which they differ are counted, and "same acceptance, sub-sequence" is a selfcheck.  Failing commands, kills and interrupts are run by the faithful
loops of HistFailFaithful.v (buildF_full_f, buildK_full_f, buildI_full_f), depfile-only histories by HistDepfileFaithful.fbuild_f,
each with its original next to it (old=); dry_build only scans and is not affected.

PARALLEL SCHEDULES (coq/Engine/HistParDefs.v par_run, theorems in Properties_C01par.v; used by props/c04.py and c01.py):
plain histories whose builds run with -j 2/3/4/8 (and some -j1) and random completion orders.  The engine's `ev start` /
`ev finish` events of a build, in the order they happened, ARE the schedule given to the model (`p<targets>@<j>:s<e>/f<e>/..`):
par_run must answer PDone -- PInvalid means ninja started a command the model's side condition forbids (still wanted, not
running, job limit, every input of every kind ready) or finished one that was not running; `acc` names the first refused
event -- and the state it reaches is compared with the engine's by the usual exact rules (the time relations now see
interleaved start / finish ticks: the recorded mtime is computed from the START tick).  The history goes on from the
parallel state on the model side.  selfcheck: build_f from the same state accepts likewise, runs the same multiset of
commands and reaches the same contents (confluence).  Counted: events, the largest number of commands running at once per
build.  POOLS (coq/Engine/HistParPoolDefs.v par_run_pool, theorems in Properties_C06par.v): in --par histories the graphs keep
gen_graph's pools (half of them declare one or two pools of depth 1..3; 8% of the statements outside them use the console pool)
and the p step carries the tables (`@<statement>.<pool>/..:<pool>.<depth>/..`, console = a pool of depth 1): par_run_pool must
accept ninja's event order, i.e. besides the above no Start may find its pool full (#running of the pool = depth).  Counted:
builds with pooled statements, builds in which a pool ran at its full depth; a python-side oracle checks the same limit.

KEEP GOING (coq/Engine/HistFailKDefs.v buildFK, theorems in Properties_C05keepgoing.v; fault='k', second hook of props/c05.py):
the failing build of a history carries 2-3 faults and runs with -j1 -k N, N in {0 (no limit), 1, 2, 3} (model step
`f..@..@k<N>`).  The model's statements are numbered in ninja's START order of that build -- each started command preceded by
what it needs -- up to the finish of the N-th failing command, then the rest in manifest order.  Compared: accept; failed
(exit status); failed-edge: the SET of failed statements; run-set: the commands started; dependents: nothing that depends on a
failed statement was started; not-recorded; budget: at most N failures and no start after the N-th (engine events); the state
rules; then the following builds.  The loop that is run is HistFailKFaithful.buildFK_f, with buildFK next to it (old=).

DYNDEP (coq/Engine/HistDyndepDefs.v ybuild_f, theorems in Properties_C11hist.v; dyn=True, props/c11.py): graphs with a dyndep
file (engine.add_dyndep: a source, or produced by a statement; bound at rule or build level; the file adds implicit inputs,
implicit outputs, restat), fixed over the history.  The model line carries the manifest WITHOUT the dyndep information and the
ground truth of the file (Y=); `hist_run histy`; a dyndep file has a fixed content on both sides.  A Build is
HistDyndepFaithful.ybuild_ff (CleanNode + Plan::DyndepsLoaded / RefreshDyndepDependents followed literally; a FAILING mid-build
load leaves the producer's outputs written and unlogged, as Builder::FinishCommand does); ybuild_f and ybuild are run next to
it (old=, old2=).  ybuild_ff does not model validations met by the re-scan nor a statement first visited by the re-scan that is
bound to ANOTHER pending dyndep file: the generator has no validations and one dyndep file per graph.  Compared with the exact rules: accepted / refused (a missing source
dyndep file: "loading ...") / FAILED mid-build (a load made the re-scan fail: non-zero exit after commands were started; the
states are compared as they are), run set, order (also after the dyndep file's producer and the producers of dyndep-added
inputs), exists / clean (the clean build of the inlined graph, engine.py clean_contents) / log / times also for the
dyndep-added outputs, idle.  selfcheck where the premises of C11_equiv hold (frag_ABY, the inlined graph in fragment AB and
topologically ordered, no input-less phony, dd_ins_ordered, no_late_restat, hist_present_y): the inlined manifest through
HistFaithful.build_f is in the SAME state after every build (eqi) -- where no_late_restat is false the listed finding
dyndep-restat-known-late shows as "engine = ybuild_f, the inlined manifest runs less": counted.  Counted: dyndep files loaded
at scan time (model: scan_loads) / mid-build (engine: the file's producer ran in this build).

RECORDED DEPENDENCIES (coq/Engine/HistDepsDefs.v dbuild, theorems in Properties_C10hist.v; used by props/c10.py): graphs
of fragment ABD = AB + statements with deps = gcc whose commands read HIDDEN files (sources, also ones the manifest never
mentions, and generated files) and report them through a depfile that ninja moves into the deps log.  gen_graph's msvc /
depfile-only statements are rewritten to gcc (or lose their discovered reads when they have several outputs); hidden reads
never change inside a history.  Three quarters of the graphs follow the idiom "a generated hidden read is also an
order-only input" (wf_reads); the others do not, are built with -j1, and a history is dropped from the build on in which
ninja's own order starts a reader before the generator of a hidden read that is started in the same build (the model's
order is the manifest order; counted).  The model runs through `hist_run histd`; the model line carries H= (hidden reads)
and L= (nodes the manifest does not mention).  Compared per build: everything above (clean = the clean build of the INLINED
graph, engine.py's clean_contents; times also against the hidden reads) plus deps: a deps-log record exists in both or in
neither, lists the same SET of nodes, and its mtime stands in the same relation to the output's mtime.  The fragment
verdict is frag_ABD && topo_ordered (inline) && frag_AB (inline).  The model's side-condition booleans
hidden_reads_ordered / no_restat_upstream_of_deps / hist_present gate the selfcheck (C10_equiv + C01: accepted build =>
everything needed is clean); where they are false the two listed findings restat-prune-ignores-recorded-deps and
dirty-edge-deps-not-loaded appear, and they have to appear IDENTICALLY on both sides (same commands, same stale files):
such builds are counted by shape.

DEPFILE-ONLY STATEMENTS (coq/Engine/HistDepfileDefs.v fbuild, theorems in Properties_C10depfile.v; used by props/c10.py,
deps='depfile'): gen_graph's `depfile = X` statements without `deps =` are KEPT (also with several outputs), msvc becomes
gcc, so manifests mix the two kinds; the depfiles on the disk are part of the model's state (`hist_run histf`, deps kind 1,
step D<e> = the user removes the depfile: engine `step rm <depfile>`).  Compared in addition: per depfile-only statement the
depfile exists in both or in neither and lists the same SET of names (the engine's text `out: names` canonicalised like
tools/scanmodel.py does).  selfchecks only where the theorems are: frag_ABF (no deps = gcc), the side conditions, no
depfile removed, no lost deps log, no tampered output.  The loop is HistDepfileFaithful.fbuild_f: every rule is exact (the two
histories that needed "outputs of surplus statements are not compared" with fbuild -- ninja prunes a deps statement below an
always-dirty restat statement and leaves it STALE, the listed restat finding; fbuild re-ran it -- now agree).

  check(ctx_or_None, seed, n, dry=0.0, fault=False, deps=False) -> (mismatches, stats)     mismatches: list of Mismatch (text, replay)
  python3 tools/histmodel.py <seed> <n> [--dry P] [--fault] [--keepgoing] [--deps] [--depfile] [--par] [--crash] [--keep DIR]      standalone

Model binary: $HISTMODEL_BIN if set, else hist_run next to vlib.build_model()'s model_run."""
import os, sys, random, collections, copy, re
sys.path.insert(0, os.path.dirname(os.path.abspath(__file__)))
import vlib, engine, enginecheck as ec
from engine import hx

FEAT = dict(deps=0.0, validations=0.0, dyndep=0.0, rsp=0.0, pools=0.0, restat=0.4, generator=0.12, phony=0.25, alias=0.6,
            implicit=0.4, orderonly=0.4, multiout=0.3, impout=0.2)
# a few graphs are generated OUTSIDE the fragment on purpose (validations): the model's own verdict has to say so
OUTSIDE_RATE = 0.02
DIRECT_SAMPLE = 32      # model lines also run without the driver's memo table

# ------------------------------------------------------------------ model binary
def model_binary():
    b = os.environ.get('HISTMODEL_BIN')
    if b: return b
    return os.path.join(os.path.dirname(vlib.build_model()), 'hist_run')

def run_model(lines, chunk=None, mode='hist'):
    """one output line per input line (parallel over chunks).  mode 'hist': the command function memoized by the driver;
    'hist-direct': the extracted step_run / is_clean as they are (about 7 times slower)"""
    import concurrent.futures
    binary = model_binary()
    chunk = chunk or max(4, min(250, (len(lines) + 15) // 16))
    groups = [lines[i:i + chunk] for i in range(0, len(lines), chunk)]
    def work(group):
        rc, out, err = vlib.run_lines(binary, mode, group, timeout=900)
        if rc != 0 or len(out) != len(group):
            raise RuntimeError('hist_run failed rc=%s got %d/%d lines: %s' % (rc, len(out), len(group), err[-500:]))
        return out
    res = []
    with concurrent.futures.ThreadPoolExecutor(max_workers=16) as ex:
        for o in ex.map(work, groups): res += o
    return res

# ------------------------------------------------------------------ generation (inside the fragment)
def strip_graph(g, rnd=None, keep_pools=False):
    """what gen_graph adds regardless of the feature table and the model does not have"""
    for e in g.edges:
        if not keep_pools: e.pool = ''            # the console pool (scheduling only); kept for par_run_pool
    return g

GARBAGE_BASE = 10 ** 9        # model contents written by failing commands: GARBAGE_BASE + 1000 * k + node

def gcc_only(g, keep_depfile=False):
    """fragment ABD: every statement with discovered reads is deps = gcc (one output); hidden reads listed once.
    keep_depfile: depfile-only statements stay what they are (HistDepfileDefs), only msvc is rewritten"""
    for e in g.edges:
        if not (e.deps or e.depfile): e.hidden = []; continue
        if keep_depfile and e.depfile and not e.deps and not e.phony:
            e.hidden = [x for i, x in enumerate(e.hidden) if x not in e.hidden[:i]]
        elif len(e.outs) == 1 and not e.phony:
            e.deps = 'gcc'; e.depfile = e.out0 + '.d'
            e.hidden = [x for i, x in enumerate(e.hidden) if x not in e.hidden[:i]]
        else:
            e.deps = ''; e.depfile = ''; e.hidden = []
    return g

def gen_history(rnd, sid, outside=False, dry=0.0, fault=False, deps=False, par=False, dyn=False):
    """dry: probability that a build is preceded by a dry run of the same targets (and of a dry run on its own);
    fault: exactly one build of the history carries faults (-j1 -k1)"""
    feat = dict(FEAT)
    if outside: feat['validations'] = 0.6
    wf_reads = True
    if deps: feat['deps'] = 0.6; wf_reads = rnd.random() < 0.75
    if dyn: feat['dyndep'] = 1.0
    if par: feat['pools'] = 0.5
    g = strip_graph(engine.gen_graph(rnd, rnd.randrange(3, 13) if par else (rnd.randrange(3, 11) if fault == 'k' else rnd.randrange(2, 10)), feat, wf_reads),
                    rnd, keep_pools=bool(par))
    if deps: gcc_only(g, keep_depfile=(deps == 'depfile'))
    h = ec.Hist(sid, g)
    h.deps_mode = bool(deps); h.depfile_mode = (deps == 'depfile'); h.dyn_mode = bool(dyn); h.wf_reads = wf_reads; h.par_mode = bool(par)
    fstate = dict(todo=fault)
    allouts = [o for e in g.edges for o in e.outs]
    used_sources = sorted({i for e in g.edges for i in e.manifest_ins() + e.vals if i in g.sources})
    hidden_sources = sorted({i for e in g.edges for i in e.hidden if i in g.sources})
    def do_build():
        targets = None
        r = rnd.random()
        if r < 0.35:
            # a source can be named as a target when the manifest mentions it (otherwise: "unknown target", a command-line error)
            cand = allouts + (used_sources if rnd.random() < 0.3 else [])
            targets = rnd.sample(cand, rnd.randrange(1, min(3, len(cand)) + 1))
        j = (rnd.choice([2, 2, 3, 4, 8, 1]) if par else rnd.choice([1, 1, 2, 3, 4, 8])) if wf_reads else 1; k = rnd.choice([1, 1, 1, 2, 0])
        sched = ec.rand_sched(rnd, 2 * len(g.edges) + 2)
        if dry and rnd.random() < dry:
            h.build(rnd, targets, j=1, k=1, sched=sched, dry=1)                   # ninja -n ...
            if rnd.random() < 0.25: return h.build(rnd, targets, j=1, k=1, sched=sched, dry=1)     # ... twice, nothing for real
        ne = [e for e in g.edges if not e.phony]
        if fstate['todo'] and ne and (last or rnd.random() < 0.35):
            # the one failing invocation of this history: -j1 -k1, one or two statements with a fault
            fstate['todo'] = False
            fe = rnd.sample(ne, min(len(ne), rnd.choice([2, 2, 3]) if fault == 'k' else rnd.choice([1, 1, 2])))
            if rnd.random() < 0.6:
                # make it likely that the first of them has to run: its output is removed, its command line or a source changes
                e = fe[0]; r = rnd.random(); src = [x for x in e.exp + e.imp if x in g.sources]
                if r < 0.35: o = rnd.choice(e.outs); h.add(ec.Step('rm', 'step rm %s' % hx(o), path=o)); h.tags.add('rm-output')
                elif r < 0.65 or not src: e.ver += 1; h.rewrite_manifest()
                else: sname = rnd.choice(src); h.edit(sname, '%s.%d' % (sname, rnd.randrange(1000000)))
            fl = {e.out0: (rnd.choice([1, 1, 2, 3, 127, 255]), rnd.random() < 0.6) for e in fe}
            if fault == 'k':
                # -k N: make the other faulted statements likely to run too
                for e in fe[1:]:
                    if rnd.random() < 0.8: o = rnd.choice(e.outs); h.add(ec.Step("rm", "step rm %s" % hx(o), path=o)); h.tags.add("rm-output")
                st = h.build(rnd, targets, j=1, k=rnd.choice([0, 0, 1, 2, 2, 3]), sched=sched, faults=fl); st.keep_going = True
            else: st = h.build(rnd, targets, j=1, k=1, sched=sched, faults=fl)
            h.tags.add('fault')
            if rnd.random() < 0.85: st = h.build(rnd, targets, j=j, k=k, sched=sched)      # the NEXT invocation, plain
            return st
        return h.build(rnd, targets, j=j, k=k, sched=sched)
    def repeat(st):
        if st.opts.get('dry') or st.opts.get('faults'): return
        h.add(ec.Step('build', st.line, g=st.g, sources=st.sources, targets=st.targets, opts=st.opts, repeat=True))
    last = False
    st = do_build()
    if rnd.random() < 0.3: repeat(st)
    prod0 = g.producer()
    def upstream_restat(e, seen=()):
        """a restat statement with a source input that e reads from (transitively, hidden reads included)"""
        for i in e.exp + e.imp + e.hidden:
            p_ = prod0.get(i)
            if p_ is None or p_.idx in seen: continue
            if p_.restat and not p_.phony and any(x in g.sources for x in p_.exp + p_.imp): return p_
            u = upstream_restat(p_, seen + (e.idx,))
            if u: return u
        return None
    def motif():
        """the two situations the side conditions of Properties_C10hist exclude, set up on purpose"""
        de = [e for e in g.edges if (e.deps or e.depfile) and e.hidden]
        rnd.shuffle(de)
        for e in de:
            hs = [x for x in e.hidden if x in g.sources]; u = upstream_restat(e)
            if hs and u is not None and rnd.random() < 0.6:
                # a restat statement above e re-runs without changing its output (its source is touched) while a hidden source of e changes
                src = rnd.choice([x for x in u.exp + u.imp if x in g.sources])
                if src not in h.sources or src in hs: continue
                h.add(ec.Step('touch', 'step touch %s' % hx(src), path=src))
                x = rnd.choice(hs); h.edit(x, '%s.%d' % (x, rnd.randrange(1000000)))
                h.tags.add('motif restat above a deps statement'); return True
            gh = [x for x in e.hidden if prod0.get(x) is not None and not prod0[x].phony and x not in e.manifest_ins()]
            own = [x for x in e.exp + e.imp if x in g.sources]
            if gh and own:
                # e is dirty for a reason of its own while the generator of a hidden read (no manifest path) is out of date
                p_ = prod0[rnd.choice(gh)]; ps = [x for x in p_.exp + p_.imp if x in g.sources]
                if not ps: continue
                for x in (rnd.choice(own), rnd.choice(ps)): h.edit(x, '%s.%d' % (x, rnd.randrange(1000000)))
                st = h.build(rnd, [e.out0], j=1, k=1, sched=ec.rand_sched(rnd, 2 * len(g.edges) + 2))
                h.tags.add('motif dirty deps statement, stale generator'); return True
        return False
    for _ in range(rnd.randrange(1, 7)):
        r = rnd.random()
        ne = [e for e in g.edges if not e.phony]
        if deps and r < 0.15 and motif(): pass
        elif deps == 'depfile' and 0.19 <= r < 0.25 and [e for e in g.edges if e.depfile and not e.deps]:
            e = rnd.choice([e for e in g.edges if e.depfile and not e.deps])
            h.add(ec.Step('rm', 'step rm %s' % hx(e.depfile), path=e.depfile)); h.tags.add('rm-depfile')
        elif deps and 0.15 <= r < 0.19:
            # outside the histories of the theorems, inside what the model defines: the deps log is lost / an output of a deps
            # statement is overwritten by hand (its record is then older than the file)
            de = [e for e in g.edges if e.deps or e.depfile]
            if rnd.random() < 0.5 or not de: h.add(ec.Step('dropdeps', 'step dropdeps')); h.tags.add('dropdeps')
            else:
                o = rnd.choice(de).out0
                h.add(ec.Step('edit', 'step edit %s %s' % (hx(o), hx('tampered.%d' % rnd.randrange(1000000))), path=o)); h.tags.add('tampered output')
        elif r < 0.35:
            sname = rnd.choice(hidden_sources) if hidden_sources and rnd.random() < 0.4 else rnd.choice(sorted(x for x in g.sources if not (dyn and x in g.dd_info)) or sorted(g.sources))
            h.edit(sname, 'common' if rnd.random() < 0.15 else '%s.%d' % (sname, rnd.randrange(1000000)))
        elif r < 0.45:
            ex = sorted(x for x in g.sources if x in h.sources)
            if ex:
                sname = rnd.choice(ex); h.add(ec.Step('touch', 'step touch %s' % hx(sname), path=sname))
        elif r < 0.55:
            ex = sorted(x for x in g.sources if x in h.sources)
            if ex:
                sname = rnd.choice(ex); del h.sources[sname]
                h.add(ec.Step('rm', 'step rm %s' % hx(sname), path=sname)); h.tags.add('rm-source')
        elif r < 0.68 and ne:
            e = rnd.choice(ne); o = rnd.choice(g.eff_outs(e)); h.add(ec.Step('rm', 'step rm %s' % hx(o), path=o)); h.tags.add('rm-output')
        elif ne:
            e = rnd.choice(ne); e.ver += 1; h.rewrite_manifest()
            h.steps[-1].edge = e.idx
        if rnd.random() < 0.7:
            st = do_build()
            if rnd.random() < 0.5: repeat(st)
    # a removed source comes back more often than not, so that the final builds are accepted
    for sname in sorted(g.sources):
        if sname not in h.sources and rnd.random() < 0.7:
            h.edit(sname, g.sources[sname] if (dyn and sname in g.dd_info) else '%s.%d' % (sname, rnd.randrange(1000000)))
    last = True
    st = do_build(); repeat(st)
    return h

# ------------------------------------------------------------------ kills and interrupts (HistCrashDefs)
def clone_hist(base, sid):
    h = ec.Hist(sid, copy.deepcopy(base.g0))
    h.g = copy.deepcopy(base.g); h.sources = dict(base.sources); h.steps = list(base.steps)
    h.header = base.header[:]; h.header[0] = 'scenario %s' % sid; h.tags = set(base.tags)
    return h

def gen_kill_base(rnd, sid):
    """a history prefix in fragment AB (no input-less phony: the kill model sits on dirty_now) that ends right before the
    invocation that will be killed / interrupted; base.subject = the targets of that invocation"""
    g = strip_graph(engine.gen_graph(rnd, rnd.randrange(2, 8), dict(FEAT, multiout=0.45)), rnd)
    h = ec.Hist(sid, g)
    allouts = [o for e in g.edges for o in e.outs]
    pick = lambda: (rnd.sample(allouts, rnd.randrange(1, min(3, len(allouts)) + 1)) if rnd.random() < 0.3 else None)
    sched = lambda: ec.rand_sched(rnd, 2 * len(g.edges) + 2)
    if rnd.random() < 0.85:
        h.build(rnd, pick(), j=rnd.choice([1, 2, 4]), k=1, sched=sched())
        for _ in range(rnd.randrange(1, 4)):
            r = rnd.random(); ne = [e for e in g.edges if not e.phony]
            if r < 0.4:
                sname = rnd.choice(sorted(g.sources)); h.edit(sname, 'common' if rnd.random() < 0.1 else '%s.%d' % (sname, rnd.randrange(1000000)))
            elif r < 0.5:
                ex = sorted(x for x in g.sources if x in h.sources)
                if ex: sname = rnd.choice(ex); h.add(ec.Step('touch', 'step touch %s' % hx(sname), path=sname))
            elif r < 0.75 and ne:
                e = rnd.choice(ne); o = rnd.choice(e.outs); h.add(ec.Step('rm', 'step rm %s' % hx(o), path=o)); h.tags.add('rm-output')
            elif ne:
                e = rnd.choice(ne); e.ver += 1; h.rewrite_manifest()
            if rnd.random() < 0.2: h.build(rnd, pick(), j=1, k=1, sched=sched())
    h.subject = pick()
    return h

def kill_scenarios(rnd, bases, cap):
    """per base: the reference run, and one scenario per crash point of the subject invocation (at most `cap`, spread over
    all of them): killed there, then a recovery build and its repetition.  A first engine pass counts the crash points."""
    probes = []
    for b in bases:
        p = clone_hist(b, b.sid + '_probe'); p.build(rnd, b.subject, j=1, k=1, sched=[0] * 16, crash=10000000); probes.append(p)
        p = clone_hist(b, b.sid + '_cnt'); p.build(rnd, b.subject, j=1, k=1, sched=[0] * 16); probes.append(p)
    rc, tr, err, out = ec.run_hists(probes)
    for b in bases: b.ncmds = len(tr[b.sid + '_cnt'][-1].started) if tr.get(b.sid + '_cnt') else 0
    npts = {}; cur = None
    for l in out:
        w = l.split()
        if w and w[0] == 'scenario': cur = w[1]
        if l.startswith('ev crash-not-reached points='): npts[cur] = int(l.split('=')[1])
    res = []; total = 0
    for b in bases:
        n = npts.get(b.sid + '_probe', 0); total += n
        ref = clone_hist(b, b.sid + '_ref'); ref.build(rnd, b.subject, j=1, k=1, sched=[0] * 16); ref.kill_mode = True
        res.append(ref)
        ks = list(range(n)) if n <= cap else sorted(rnd.sample(range(n), cap))
        for k in ks:
            v = clone_hist(b, '%s_k%d' % (b.sid, k)); v.kill_ref = ref.sid; v.kill_mode = True
            v.build(rnd, b.subject, j=1, k=1, sched=[0] * 16, crash=k)
            st = v.build(rnd, b.subject, j=rnd.choice([1, 1, 3]), k=1, sched=ec.rand_sched(rnd, 16))
            v.add(ec.Step('build', st.line, g=st.g, sources=st.sources, targets=st.targets, opts=st.opts, repeat=True))
            res.append(v)
    return res, total

def intr_scenarios(rnd, bases):
    """per base: the subject invocation interrupted at a random wait (-j1), the running command having or not having modified
    its outputs; then a recovery build and its repetition"""
    res = []
    for b in bases:
        n = getattr(b, 'ncmds', 3)
        for w in sorted(set(rnd.randrange(0, max(1, n)) for _ in range(2))) + ([n] if rnd.random() < 0.1 else []):
            v = clone_hist(b, '%s_int%d' % (b.sid, w)); v.kill_mode = True
            ne = [e.out0 for e in v.g.edges if not e.phony]
            part = [o for o in ne if rnd.random() < 0.6]
            v.build(rnd, b.subject, j=1, k=1, sched=[0] * 16, interrupt=w, partial=part or None)
            st = v.build(rnd, b.subject, j=rnd.choice([1, 1, 3]), k=1, sched=ec.rand_sched(rnd, 16))
            v.add(ec.Step('build', st.line, g=st.g, sources=st.sources, targets=st.targets, opts=st.opts, repeat=True))
            res.append(v)
    return res

def check_crash(ctx, seed, nbases, cap=10, keep=None):
    """kills at the engine's crash points and interrupts against HistCrashDefs.  Returns (mismatches, stats)."""
    rnd = random.Random(seed * 1000003 + 777)
    bases = [gen_kill_base(rnd, 'KILL_%d_%d' % (seed, i)) for i in range(nbases)]
    ks, total = kill_scenarios(rnd, bases, cap)
    mism, stats = compare_hists(ks + intr_scenarios(rnd, bases), keep)
    stats['base histories'] = nbases; stats['crash points of the subject invocations (engine)'] = total
    stats['crash point scenarios run'] = sum(1 for h in ks if getattr(h, 'kill_ref', None))
    return mism, stats

# ------------------------------------------------------------------ mapping to the model line
def step_kind(st):
    """'plain' | 'dry' | 'fault' | 'kill' | 'intr' for a build step"""
    if st.opts.get('dry'): return 'dry'
    if st.opts.get('faults'): return 'fault'
    if st.opts.get('crash') is not None: return 'kill'
    if st.opts.get('interrupt') is not None: return 'intr'
    return 'plain'

def classify_kill(g, by_out0, ref, dump):
    """Where did the engine die?  `ref` = the Build of the SAME invocation run to its end (-j1: the schedule is deterministic, the
    logical clock too), `dump` = the Build of the killed one (disk, log and clock as the kill left them; its events are lost
    with the child).  Every command of `ref` before the first incomplete one is complete in `dump`; the incomplete one is placed
    by what it has written and logged.  Returns (before, statement position or None = after the last, point, None) or
    (None, None, None, reason) when the model has no such crash point."""
    cmds = []
    for ev in ref.events:
        if ev[0] == 'start' and ev[1] in by_out0: cmds.append((by_out0[ev[1]], ev[2]['tick']))
    before = []
    for idx, (pos, t0) in enumerate(cmds):
        e = g.edges[pos]
        written = [o for o in e.outs if o in ref.files and ref.files[o][0] > t0]          # rewritten by this command in ref
        w_d = [o for o in written if dump.files.get(o) == ref.files.get(o)]
        l_d = [o for o in e.outs if o in ref.log and dump.log.get(o) == ref.log.get(o)]
        if len(w_d) == len(written) and len(l_d) == len(e.outs): before.append(pos); continue
        for pos2, t2 in cmds[idx + 1:]:                                                     # nothing of a later command
            e2 = g.edges[pos2]
            if any(o in ref.files and ref.files[o][0] > t2 and dump.files.get(o) == ref.files.get(o) for o in e2.outs) or \
               any(o in ref.log and dump.log.get(o) == ref.log.get(o) for o in e2.outs):
                return None, None, None, 'a later command has left traces'
        if l_d:
            if l_d != e.outs[:len(l_d)] or len(w_d) != len(written): return None, None, None, 'log entries out of order'
            return before, pos, 'j%d' % len(l_d), None
        if written and len(w_d) == len(written): return before, pos, 'j0', None               # command done, nothing logged (KWritten)
        if w_d:
            k = len(w_d)
            if w_d != e.outs[:k]: return None, None, None, 'a restat command skipped an output before one it wrote'
            return before, pos, 'w%d' % k, None
        return before, pos, ('l' if dump.now >= t0 else 'b'), None
    return before, None, 'b', None

class Map:
    """node / statement numbering and the model line of one history.  Python side: a statement is its POSITION in g.edges;
    model side: its number in `order` (the sequential order the model runs the statements in)."""
    def __init__(s, h, builds=None, ref=None):
        g = h.g0
        s.names = sorted(g.sources) + [o for e in g.edges for o in e.outs]
        for e in g.edges:
            for p in e.exp + e.imp + e.oo + e.vals:
                if p not in s.names: s.names.append(p)
        s.id = {p: i for i, p in enumerate(s.names)}
        for e in g.edges:
            for p in e.hidden:
                if p not in s.names: s.names.append(p)
        s.dyn_mode = bool(getattr(h, 'dyn_mode', False))
        for dd, info in sorted(g.dd_info.items()):
            for out0, (io, ii, rs) in sorted(info.items()):
                for p in [dd] + io + ii:
                    if p not in s.names: s.names.append(p)
        s.id = {p: i for i, p in enumerate(s.names)}
        s.deps_mode = bool(getattr(h, 'deps_mode', False)); s.par_mode = bool(getattr(h, 'par_mode', False))
        s.trace = list(ec.pair(h, builds)) if builds else []
        s.depfile_mode = bool(getattr(h, 'depfile_mode', False))
        s.mode = 'histy' if s.dyn_mode else ('histf' if s.depfile_mode else ('histd' if s.deps_mode else 'hist'))
        s.dfile = {e.depfile: k for k, e in enumerate(g.edges) if e.depfile and not e.deps}      # depfile path -> position
        s.by_out0 = {e.out0: k for k, e in enumerate(g.edges)}      # out0 -> position
        s.cid = {}                                                   # content string -> number
        s.known_hash = {}                                            # command text -> ninja's hash of it (learnt from the trace)
        s.order = s.schedule(h, builds, ref)                         # model number -> position
        s.num = {pos: n for n, pos in enumerate(s.order)}            # position -> model number
        s.line = s.make_line(h)
    def schedule(s, h, builds, ref=None):
        """the order the model takes the statements in.  Without a failing build: the manifest order.  With one: the order of
        ninja's own -j1 schedule in that build: what the commands started before the failing one need (transitively, every
        input kind), in manifest order, then the failing statement, then the rest in manifest order."""
        g = h.g0; ident = list(range(len(g.edges)))
        s.kill = None; s.intr = None
        if not builds: return ident
        for st, b in ec.pair(h, builds):
            kd = step_kind(st)
            if kd == 'fault' and getattr(st, 'keep_going', False):
                # -k N: the model takes the statements in ninja's START order (what each one needs right before it), up to the finish of
                # the N-th failing command (a command started after that must show as a difference), then the rest in manifest order
                n = st.opts.get('k', 1); nfail = 0; before = []
                for ev in b.events:
                    if ev[0] == 'start' and ev[1] in s.by_out0: before.append(s.by_out0[ev[1]])
                    if ev[0] == 'finish' and ev[2] != 0:
                        nfail += 1
                        if n and nfail >= n: break
                if not before: return ident
                prod = {o: k for k, e in enumerate(g.edges) for o in e.outs}
                order = []
                def need(k):
                    if k in order: return
                    for i in g.edges[k].manifest_ins():
                        if i in prod: need(prod[i])
                    order.append(k)
                for k in before: need(k)
                return order + [k for k in ident if k not in order]
            elif kd == 'fault':
                failed = [o for o, c in b.finished if c != 0]
                if not failed or failed[0] not in s.by_out0: return ident
                f = s.by_out0[failed[0]]
                # only what was started BEFORE the command failed orders the model: a command started afterwards must show as a difference
                before = []
                for ev in b.events:
                    if ev[0] == 'finish' and ev[1] == failed[0]: break
                    if ev[0] == 'start': before.append(ev[1])
            elif kd == 'kill':
                if ref is None or not ref: s.kill = ('skip', 'no reference run'); return ident
                bef, f, at, why = classify_kill(st.g, s.by_out0, ref[-1], b)
                if why: s.kill = ('skip', why); return ident
                s.kill = (f, at, bef)
                if f is None: return ident
                before = [g.edges[k].out0 for k in bef]
            elif kd == 'intr':
                if not any(ev[0] == 'interrupt' for ev in b.events): s.intr = None; return ident     # the build ended before that wait
                running = []
                for ev in b.events:
                    if ev[0] == 'interrupt': break
                    if ev[0] == 'start': running.append(ev[1])
                    if ev[0] == 'finish': running = [r for r in running if r != ev[1]]
                if len(running) != 1 or running[0] not in s.by_out0: s.intr = ('skip', 'not exactly one running command'); return ident
                f = s.by_out0[running[0]]
                s.intr = (f, len(g.edges[f].outs) if running[0] in (st.opts.get('partial') or []) else 0)
                before = [o for o in b.started if o != running[0]]
            else: continue
            prod = {o: k for k, e in enumerate(g.edges) for o in e.outs}
            first = set(); todo = [s.by_out0[o] for o in before if o in s.by_out0] + [f]      # f's own (clean) ancestors come first too
            while todo:
                k = todo.pop()
                if k in first: continue
                first.add(k)
                todo += [prod[i] for i in g.edges[k].manifest_ins() if i in prod]
            first.discard(f)
            return [k for k in ident if k in first] + [f] + [k for k in ident if k not in first and k != f]
        return ident
    def content(s, c):
        if c not in s.cid: s.cid[c] = len(s.cid) + 1
        return s.cid[c]
    @staticmethod
    def hash_of(pos, e): return 0 if e.phony else 1 + pos * 100000 + e.ver
    def make_line(s, h):
        g = h.g0; ID = s.id
        j = lambda l: '+'.join(str(ID[x]) for x in l) if l else '-'
        E = []
        for pos in s.order:
            e = g.edges[pos]
            # Edge::inputs_ as the parser leaves them: explicit ++ implicit ++ order-only (a phony statement's reference to
            # itself, the legacy CMake form, is erased there and is no part of the ground-truth lists)
            kind = 0 if e.phony else (2 if e.deps else (1 if e.depfile else 0))
            E.append('/'.join([j(e.exp + e.imp + e.oo), str(len(e.imp)), str(len(e.oo)), j(e.outs), j(e.vals),
                               '%d%d%d' % (e.phony, (not e.phony) and e.restat, (not e.phony) and e.generator), str(kind),
                               str(s.hash_of(pos, e))]))
        S = []
        for n, c in sorted(g.sources.items()): S.append('e%d:%d' % (ID[n], s.content(c)))      # the files of the scenario header
        cur = dict(g.sources); nf = 0; nb = -1
        for st in h.steps:
            if st.kind == 'build': nb += 1
            if st.kind == 'edit':
                c = st.line.split()[3]; c = engine.uh(c); cur[st.path] = c
                S.append('e%d:%d' % (ID[st.path], s.content(c)))
            elif st.kind == 'touch':
                if st.path in cur: S.append('e%d:%d' % (ID[st.path], s.content(cur[st.path])))
            elif st.kind == 'rm' and s.depfile_mode and st.path in s.dfile: S.append('D%d' % s.num[s.dfile[st.path]])
            elif st.kind == 'rm':
                cur.pop(st.path, None); S.append('d%d' % ID[st.path])
            elif st.kind == 'dropdeps' and s.deps_mode: S.append('x')
            elif st.kind == 'manifest':
                for pos, (e0, e1) in enumerate(zip(s.prev_edges(h, st), st.g_after.edges)):
                    if e0.ver != e1.ver: S.append('c%d:%d' % (s.num[pos], s.hash_of(pos, e1)))
            elif st.kind == 'build':
                t = '+'.join(str(ID[x]) for x in (st.targets or ec.default_targets(st.g)))
                k = step_kind(st)
                if k == 'dry': S.append('n' + t)
                elif k == 'fault':
                    fs = []
                    for o0, (code, touch) in sorted(st.opts['faults'].items()):
                        nf += 1
                        fs.append('%d:%s' % (s.num[s.by_out0[o0]], 'w%d' % (GARBAGE_BASE + 1000 * nf) if touch else 'u'))
                    S.append('f' + t + '@' + '/'.join(fs) + ('@k%d' % st.opts.get('k', 1) if getattr(st, 'keep_going', False) else ''))
                elif k == 'kill':
                    if s.kill is None or s.kill[0] == 'skip': S.append('b' + t)         # not compared (see compare_hists)
                    else: S.append('k%s@%d:%s' % (t, len(g.edges) if s.kill[0] is None else s.num[s.kill[0]], s.kill[1]))
                elif k == 'intr':
                    if s.intr is None or s.intr[0] == 'skip': S.append('b' + t)
                    else: nf += 1; S.append('i%s@%d:%d:%d' % (t, s.num[s.intr[0]], s.intr[1], GARBAGE_BASE + 1000 * nf))
                elif s.par_mode and nb < len(s.trace):
                    # the schedule the engine took: its start / finish events in the order they happened
                    evs = ['%s%d' % (ev[0][0], s.num[s.by_out0[ev[1]]]) for ev in s.trace[nb][1].events
                           if ev[0] in ('start', 'finish') and ev[1] in s.by_out0]
                    S.append('p%s@%d:%s%s' % (t, st.opts.get('j', 1), '/'.join(evs) or '-', s.pool_field(g)))
                else: S.append('b' + t)
            else:
                raise ValueError('step kind %s is outside the model' % st.kind)
        if s.dyn_mode:
            # the ground truth of the dyndep files: per file (in dependency order) the bound statements with what the file gives them
            Y = []
            for dd in sorted(g.dd_info, key=lambda d: s.names.index(d)):
                sts = []
                for pos, e in enumerate(g.edges):
                    if e.dyndep == dd and e.out0 in g.dd_info[dd]:
                        io, ii, rs = g.dd_info[dd][e.out0]
                        sts.append('%d~%s~%s~%d' % (s.num[pos], j(ii), j(io), 1 if rs else 0))
                Y.append('%d:%s' % (ID[dd], '/'.join(sts)))
            # nodes only a dyndep file names as inputs: created by the loader, a missing one is "dirty", not an error
            mentioned = {p for e in g.edges for p in e.exp + e.imp + e.oo + e.outs + e.vals}
            dyn_outs = {o for info in g.dd_info.values() for (io, ii, rs) in info.values() for o in io}
            L = ','.join(str(ID[p]) for p in s.names if p not in mentioned and p not in dyn_outs) or '-'
            return 'N=%d E=%s L=%s Y=%s S=%s' % (len(s.names), ';'.join(E) or '-', L, ';'.join(Y) or '-', ','.join(S) or '-')
        if not s.deps_mode: return 'N=%d E=%s L=- S=%s' % (len(s.names), ';'.join(E) or '-', ','.join(S) or '-')
        mentioned = {p for e in g.edges for p in e.exp + e.imp + e.oo + e.outs + e.vals}
        L = ','.join(str(ID[p]) for p in s.names if p not in mentioned) or '-'
        H = ';'.join('%d:%s' % (s.num[pos], j(e.hidden)) for pos, e in enumerate(g.edges) if e.hidden and (e.deps or e.depfile)) or '-'
        return 'N=%d E=%s L=%s H=%s S=%s' % (len(s.names), ';'.join(E) or '-', L, H, ','.join(S) or '-')
    def pool_field(s, g):
        """the pool tables of a p step (HistParPoolDefs): '' when no statement is in a pool"""
        names = pool_names(g)
        if not names: return ''
        pid = {n: i for i, n in enumerate(names)}
        return '@%s:%s' % ('/'.join('%d.%d' % (s.num[k], pid[e.pool]) for k, e in enumerate(g.edges) if e.pool and not e.phony) or '-',
                           '/'.join('%d.%d' % (pid[n], pool_depth(g, n)) for n in names))
    def prev_edges(s, h, st):
        """the statements as they were before this manifest rewrite"""
        prev = h.g0
        for x in h.steps:
            if x is st: break
            if x.kind == 'manifest': prev = x.g_after
        return prev.edges

def pool_names(g): return sorted({e.pool for e in g.edges if e.pool and not e.phony})
def pool_depth(g, n): return 1 if n == 'console' else g.pools.get(n, 0)

def parse_model(out, m):
    """statement numbers of the model are translated back to positions; `raw` keeps the model's own order"""
    w = out.split(' | ')
    r = dict(x.split('=') for x in w[0].split())
    r = {k: v == '1' for k, v in r.items()}
    builds = []
    for bl in w[1:]:
        kv = dict(x.split('=', 1) for x in bl.split()[1:])
        nodes = {}
        for i, it in enumerate(kv['nodes'].split(',') if kv['nodes'] != '-' else []):
            f = it.split(':')          # <x><q> : content : mtime : log hash : log mtime [: deps mtime : deps nodes]
            dp = None
            if len(f) > 5 and f[5] != '-': dp = (int(f[5]), [] if f[6] == '-' else [m.names[int(x)] for x in f[6].split('+')])
            nodes[m.names[i]] = (it[0] == '1', it[1] == '1', f[1], None if f[2] == '-' else int(f[2]),
                                 None if f[3] == '-' else (int(f[3], 16), int(f[4])), dp)
        raw = kv.get('run', kv.get('list', '-'))
        raw = [] if raw == '-' else [int(x) for x in raw.split('+')]
        bf = kv.get('bf'); bf = None if bf is None else ([] if bf == '-' else [m.order[int(x)] for x in bf.split('+')])
        old2 = kv.get('old2'); old2 = None if old2 is None else ([] if old2 == '-' else [m.order[int(x)] for x in old2.split('+')])
        old = kv.get('old'); old = None if old is None else ([] if old == '-' else [m.order[int(x)] for x in old.split('+')])
        df = None
        if 'df' in kv:
            df = {}
            for it in ([] if kv['df'] == '-' else kv['df'].split('/')):
                e_, ns = it.split(':'); df[m.order[int(e_)]] = [] if ns == '-' else [m.names[int(x)] for x in ns.split('+')]
        builds.append(dict(what=bl.split()[0], df=df, ok=kv['ok'] == '1', raw=raw, run=[m.order[x] for x in raw], nodes=nodes, old=old, oldok=kv.get('oldok', kv['ok']) == '1',
                           ts=kv.get('ts', '1') == '1', tss=kv.get('tss', kv.get('ts', '1')) == '1', failed=kv.get('failed') == '1',
                           hit=kv.get('hit') == '1', exit=int(kv['exit']) if 'exit' in kv else None,
                           oldres=kv.get('oldres'), old2=old2, old2res=kv.get('old2res'), sl=None if 'sl' not in kv else ([] if kv['sl'] == '-' else [m.names[int(x)] for x in kv['sl'].split('+')]),
                           iok=kv.get('iok') == '1', irun=None if 'irun' not in kv else ([] if kv['irun'] == '-' else [m.order[int(x)] for x in kv['irun'].split('+')]),
                           eqi=kv.get('eqi') == '1',
                           res=kv.get('res'), acc=int(kv['acc']) if 'acc' in kv else None, bf=bf, bfok=kv.get('bfok') == '1', conf=kv.get('conf') == '1',
                           fe=None if kv.get('fe', '-') == '-' else m.order[int(kv['fe'].split('+')[-1])],
                           fes=[] if kv.get('fe', '-') == '-' else [m.order[int(x)] for x in kv['fe'].split('+')],
                           blk=None if kv.get('blk') in (None, '-') else [m.order[int(x)] for x in kv['blk'].split('+')], bud=kv.get('bud')))
    r['builds'] = builds
    return r

# ------------------------------------------------------------------ comparison
class Mismatch:
    def __init__(s, sid, kind, text, replay): s.sid = sid; s.kind = kind; s.text = text; s.replay = replay
    def __str__(s): return '%s [%s] %s' % (s.sid, s.kind, s.text)

def through_phony(g, prod, i, depth=0):
    """the real statements a reader of node i waits for (phony statements are looked through, every input kind)"""
    p = prod.get(i)
    if p is None: return []
    if p.phony:
        if depth > 60: return []
        return [x for j in p.exp + p.imp + p.oo for x in through_phony(g, prod, j, depth + 1)]
    return [p]

def depends_on(g, f):
    """positions of the statements that depend on an output of statement f (transitively, inputs of every kind)"""
    outs = set(g.edges[f].outs); res = set(); changed = True
    while changed:
        changed = False
        for k, e in enumerate(g.edges):
            if k in res or k == f: continue
            if any(i in outs for i in e.manifest_ins()): res.add(k); outs |= set(e.outs); changed = True
    return res

def compare_build(h, m, st, b, mb, prev_ok_same, nip, cnt, prev=None, flags=None, kind=None):
    """one build step (plain, dry run or failing build) -> list of (kind, text); counters updated in cnt.
    prev = (Build, model build) of the previous build step; flags: per-history facts ('wfault': a command has failed after
    rewriting its outputs)"""
    g = st.g; prod = g.producer(); bad = []; flags = flags if flags is not None else {}
    kind = kind or step_kind(st)
    want = {'plain': 'P' if m.par_mode else 'B', 'dry': 'N', 'fault': 'F', 'kill': 'K', 'intr': 'I'}[kind]
    if mb['what'] != want: return [('mapping', 'engine step is %s, model step is %s' % (want, mb['what']))]
    nm = lambda l: [g.edges[k].out0 for k in l]
    e_started = list(b.started)
    if kind == 'dry':
        # DryRunCommandRunner: what Status::BuildEdgeStarted was told is the listing; the scripted runner must not have run
        if b.started: bad.append(('dry-executes', 'the dry run executed commands %s' % b.started))
        e_started = [engine.uh(ev[2]) for ev in b.events if ev[0] == 'st' and ev[1] == 'started']
    e_failed = [o for o, c in b.finished if c != 0] if kind != 'dry' else []
    e_ok = (b.exit == 0) or bool(e_failed)               # accepted by the scan (a failing build was accepted, then failed)
    refused = (b.exit not in (0, None)) and not e_started and ('missing and no known rule' in (b.err or '') or (m.dyn_mode and "loading '" in (b.err or '')))
    midfail = m.dyn_mode and kind == 'plain' and b.exit not in (0, None) and bool(e_started) and not e_failed
    if midfail or (m.dyn_mode and mb.get('res') == 'failed'):
        # a dyndep file loaded mid-build made the re-scan fail (a missing input it names, a cycle): non-zero exit after commands ran
        if midfail and mb.get('res') == 'failed':
            # Builder::FinishCommand returns when Plan::EdgeFinished (the dyndep load) fails, BEFORE BuildLog::RecordCommand: the command
            # that produced the dyndep file succeeded and is NOT recorded; ybuild_ff does the same (run_unlogged): everything is compared
            cnt['builds that failed in a mid-build dyndep load, on both sides'] += 1; e_ok = True
        else: bad.append(('midbuild-failure', 'engine: exit=%s "%s" after starting %s; model: %s' % (b.exit, (b.err or '')[:80], e_started, mb.get('res'))))
    if kind == 'kill':
        # the child's events died with it: acceptance is that of the reference run, the commands started are those the
        # classification of the dump found complete, plus the one the kill fell into once it had been spawned
        refb = flags['ref']; f_, at_, bef_ = m.kill
        e_ok = refb.exit == 0; refused = not e_ok
        e_started = nm(bef_) + ([g.edges[f_].out0] if f_ is not None and at_[0] in 'wj' else [])
        if not any(ev[0] == 'crashed' for ev in b.events): bad.append(('engine', 'the crash point was not reached'))
        if mb['ok'] and mb['hit'] != (f_ is not None and e_ok):
            bad.append(('kill-hit', 'engine: the kill fell %s; model: %s' % ('into %s' % g.edges[f_].out0 if f_ is not None else 'after the last command', 'into a started statement' if mb['hit'] else 'between statements')))
        cnt['engine crash points compared: %s' % {'b': 'KBefore', 'l': 'KLocked', 'w': 'KWrote', 'j': 'KLogged'}[at_[0]]] += 1
        if at_ == 'j0': cnt['engine crash points compared: KLogged 0 (all outputs written, no entry)'] += 1
        if f_ is None: cnt['engine crash points compared: after the last command'] += 1
        if at_[0] in 'wj': flags['wfault'] = True
    elif kind == 'intr':
        e_ok = True; refused = False
        if (b.exit == 130) != (mb['exit'] == 130): bad.append(('exit', 'exit status: engine %s, model %s' % (b.exit, mb['exit'])))
        if not any(ev[0] == 'interrupt' for ev in b.events): bad.append(('engine', 'no interrupt in the trace'))
        if not mb['hit']: bad.append(('intr-hit', 'model: the interrupted statement %s is not started' % g.edges[m.intr[0]].out0))
        cnt['interrupts compared'] += 1
        if m.intr[1]: cnt['interrupts compared: the running command had modified its outputs'] += 1
    elif b.exit != 0 and not refused and not (kind == 'fault' and e_failed) and not midfail:
        bad.append(('engine', 'the engine ended with exit=%s "%s" after starting %s: neither success nor a refusal%s' % (
            b.exit, (b.err or '')[:100], e_started, '' if kind != 'fault' else ' nor a failed command')))
    if e_ok != mb['ok']:
        bad.append(('accept', 'engine %s the build (exit=%s "%s"), model %s it' % ('accepted' if e_ok else 'refused', b.exit, (b.err or '')[:100], 'accepted' if mb['ok'] else 'refused')))
    # run set / listing
    e_run = sorted(m.by_out0[o] for o in e_started if o in m.by_out0)
    if len(e_run) != len(e_started): bad.append(('engine', 'engine started unknown commands %s' % e_started))
    m_run = sorted(mb['run'])
    if len(set(e_run)) != len(e_run): bad.append(('run-set', 'engine started a command twice: %s' % e_started))
    if e_run != m_run:
        if kind == 'dry': bad.append(('dry-list', 'commands listed by -n: engine %s, model %s' % (nm(e_run), nm(m_run))))
        else:
            bad.append(('run-set', 'commands %s: engine %s, model %s' % ('started' if kind == 'fault' else 'run', nm(e_run), nm(m_run))))
    # the model's order is the statement order; the engine's must respect the dependencies
    if kind == 'dry':
        seen = set()
        for o in e_started:
            e = prod.get(o)
            for i in (e.exp + e.imp + e.oo if e else []):
                for p in through_phony(g, prod, i):
                    if p.out0 in e_started and p is not e and p.out0 not in seen:
                        bad.append(('dry-order', 'the dry run lists %s before %s, the producer of its input %s' % (o, p.out0, i)))
            seen.add(o)
    elif kind != 'kill':
        fin = {}; sta = {}
        for i, ev in enumerate(b.events):
            if ev[0] == 'start': sta.setdefault(ev[1], i)
            elif ev[0] == 'finish' and ev[2] == 0: fin.setdefault(ev[1], i)
        for o in e_started:
            e = prod.get(o)
            if e is None: continue
            for i in e.exp + g.eff_imp(e) + e.oo:
                for p in through_phony(g, prod, i):
                    if p.out0 in sta and p is not e and not (p.out0 in fin and fin[p.out0] < sta[o]):
                        bad.append(('order', '%s started before %s (producer of its input %s) finished successfully' % (o, p.out0, i)))
    if mb['what'] != 'P' and not m.dyn_mode and mb['raw'] != sorted(mb['raw']): bad.append(('selfcheck', 'model trace/listing not in statement order: %s' % mb['raw']))
    if mb['what'] == 'P':
        evs = [ev for ev in b.events if ev[0] in ('start', 'finish') and ev[1] in m.by_out0]
        cnt['schedule events given to the model'] += len(evs)
        running = 0; mx = 0
        for ev in evs:
            running += 1 if ev[0] == 'start' else -1; mx = max(mx, running)
        cnt['builds with at most %d command%s running at once' % (mx, '' if mx == 1 else 's')] += 1
        if mx >= 2: cnt['builds with at least two commands running at the same time'] += 1
        if pool_names(g):
            # the limit par_run_pool enforces, decided on ninja's events directly
            pool_by_out0 = {e.out0: e.pool for e in g.edges if e.pool and not e.phony}
            use = collections.Counter(); full = False; started = False
            for ev in evs:
                pn = pool_by_out0.get(ev[1])
                if not pn: continue
                d = pool_depth(g, pn); started = True
                use[pn] += 1 if ev[0] == 'start' else -1
                if d and use[pn] > d: bad.append(('pool', 'pool %s (depth %d): %d commands running after %s %s' % (pn, d, use[pn], ev[0], ev[1])))
                if d and use[pn] == d: full = True
            if started: cnt['builds with commands in pools'] += 1
            if full: cnt['builds in which a pool ran at its full depth'] += 1
            if full and mx >= 2: cnt['builds in which a pool ran at its full depth while 2+ commands ran'] += 1
        if mb['res'] not in ('done', 'refused'):
            cnt['schedules of the engine the model does not accept (%s)' % mb['res']] += 1
            x = evs[mb['acc']] if mb['acc'] is not None and mb['acc'] < len(evs) else None
            bad.append(('schedule', 'par_run says %s for ninja\'s -j%s schedule: %d of %d events accepted, the first refused one is %s; schedule %s' % (
                mb['res'], st.opts.get('j'), mb['acc'], len(evs), '%s %s' % (x[0], x[1]) if x else 'none (the schedule ends early)',
                ' '.join('%s:%s' % (ev[0][0], ev[1]) for ev in evs)[:300])))
        else:
            # confluence against the sequential faithful loop from the same state (HistParProofs)
            if mb['bfok'] != mb['ok']: bad.append(('selfcheck', 'model: par_run %s, build_f ok=%s from the same state' % (mb['res'], mb['bfok'])))
            if sorted(mb['bf']) != sorted(mb['run']): bad.append(('selfcheck', 'model: the schedule ran %s, build_f runs %s' % (sorted(mb['run']), sorted(mb['bf']))))
            if not mb['conf']: bad.append(('selfcheck', 'model: the contents after the schedule differ from those after build_f'))
    if mb.get('old') is not None:
        # HistDefs.build / HistDepsDefs.dbuild from the same state: same acceptance, and the faithful loop runs a sub-sequence
        # (HistFaithfulProofs.build_f_trace_subset); they differ where dirty_now's re-scan re-runs what CleanNode prunes
        if mb['oldok'] != mb['ok']: bad.append(('selfcheck', 'model: build_f ok=%s, build ok=%s from the same state' % (mb['ok'], mb['oldok'])))
        it = iter(mb['old'])
        if mb['what'] == 'B' and not m.dyn_mode and not all(x in it for x in mb['run']): bad.append(('selfcheck', 'model: build_f ran %s, no sub-sequence of what build runs %s' % (mb['run'], mb['old'])))
        if mb['old'] != mb['run']:
            lab = {'B': 'HistDyndepDefs.ybuild_f' if m.dyn_mode else 'HistDefs.build / dbuild / fbuild', 'F': 'HistFailKDefs.buildFK' if mb.get('bud') is not None else 'HistFailDefs.buildF_full', 'K': 'HistCrashDefs.buildK_full', 'I': 'HistCrashDefs.buildI_full'}[mb['what']]
            cnt['builds where the original loop (%s) differs from the CleanNode-faithful one (and from ninja)' % lab] += 1
            cnt['... statements the original loop alone would run'] += max(0, len(mb['old']) - len(mb['run']))
            if nip and not m.deps_mode and not m.dyn_mode: bad.append(('selfcheck', 'model: build_f and build differ with no_inputless_phony (build_f_eq_build): %s vs %s' % (mb['run'], mb['old'])))
    # failing build: exit status, which statement, containment, nothing recorded
    if kind == 'fault':
        if bool(e_failed) != mb['failed']:
            bad.append(('failed', 'engine: %s (exit=%s); model: failed=%s' % ('command %s failed' % e_failed if e_failed else 'no command failed', b.exit, mb['failed'])))
        if e_failed and (b.exit in (0, None)): bad.append(('failed', 'a command failed and the exit status is %s' % b.exit))
        kg = getattr(st, 'keep_going', False); kN = st.opts.get('k', 1)
        if kN and len(e_failed) > kN: bad.append(('failed', 'with -k%d %d commands failed: %s' % (kN, len(e_failed), e_failed)))
        efs = [m.by_out0.get(o) for o in e_failed]
        if set(efs) != set(mb['fes']):
            bad.append(('failed-edge', 'the commands that failed: engine %s, model %s' % (e_failed, nm(mb['fes']))))
        if not kg and mb['failed'] and (not mb['run'] or mb['run'][-1] != mb['fe']): bad.append(('selfcheck', 'model: the failed statement is not the last one started (C05_exit_failed)'))
        # nothing is started once the budget is used up
        if kN:
            nf = 0
            for ev in b.events:
                if ev[0] == 'finish' and ev[2] != 0: nf += 1
                elif ev[0] == 'start' and nf >= kN: bad.append(('budget', 'engine: %s started after %d command(s) had failed with -k%d' % (ev[1], nf, kN)))
        if kg:
            cnt['keep-going builds compared (-k %s)' % (kN if kN else '0 = unlimited')] += 1
            if len(e_failed) >= 2: cnt['keep-going builds with 2 or more failed commands'] += 1
            if kN and len(e_failed) == kN: cnt['keep-going builds that used the budget up'] += 1
            if e_failed and mb['blk'] is not None: cnt['statements skipped because an input\'s statement was blocked (model)'] += len(set(mb['blk']) - set(mb['fes']))
            if mb['ok'] and mb['bud'] is not None and mb['bud'] != ('inf' if not kN else str(kN - len(mb['fes']))): bad.append(('selfcheck', 'model: budget left %s after %d failures with -k%d' % (mb['bud'], len(mb['fes']), kN)))
        for side, fl_, run in (('engine', [x for x in efs if x is not None], e_run), ('model', mb['fes'], m_run)):
            for f in fl_:
                dep = depends_on(g, f) & set(run)
                if dep: bad.append(('dependents', '%s: %s depend on the failed %s and were started' % (side, nm(sorted(dep)), g.edges[f].out0)))
                for o in g.edges[f].outs:
                    if side == 'engine' and b.log.get(o) != getattr(b, 'pre_log', {}).get(o):
                        bad.append(('not-recorded', 'engine: the log entry of %s changed in the invocation in which its command failed' % o))
                    if side == 'model' and mb['nodes'][o][4] != (prev[1]['nodes'][o][4] if prev else None):
                        bad.append(('not-recorded', 'model: the log entry of %s changed in the invocation in which its command failed' % o))
        if e_failed:
            cnt['failing builds: a command failed'] += 1
            if any(st.opts['faults'][o][1] for o in e_failed): flags['wfault'] = True; cnt['failing builds: the command rewrote its outputs first'] += 1
        else: cnt['failing builds: no faulted command had to run'] += 1
    # per node
    try: exp = g.clean_contents(st.sources)
    except RecursionError: exp = None
    for n in m.names:
        mx, mq = mb['nodes'][n][:2]
        ex = n in b.files
        if ex != mx: bad.append(('exists', '%s after the build: engine %s, model %s' % (n, 'exists' if ex else 'missing', 'exists' if mx else 'missing')))
        if exp is not None:
            eq = (b.files[n][1] if ex else None) == exp.get(n)
            if eq != mq:
                bad.append(('clean', '%s %s the clean-build content in the engine, %s in the model' % (n, 'has' if eq else 'does not have', 'has' if mq else 'does not have')))
    # build-log entries and the time relations the dirty test reads: entry present, entry made by the current command line,
    # recorded mtime against the output's own mtime and against every non-order-only input's; output against input
    sgn = lambda a, b: (a > b) - (a < b)
    for k, e in enumerate(g.edges):
        if e.phony: continue
        sn = b.snap.get(e.out0)
        if sn and sn.get('hash'): m.known_hash[e.eval_command()] = int(sn['hash'], 16)
        cur = m.known_hash.get(e.eval_command())
        for o in g.eff_outs(e):
            el = b.log.get(o); mn = mb['nodes'][o]; ml = mn[4]
            if (el is not None) != (ml is not None):
                bad.append(('log', 'build log entry of %s: engine %s, model %s' % (o, 'present' if el else 'absent', 'present' if ml else 'absent'))); continue
            if el is None: continue
            cnt['log entries compared'] += 1
            if cur is not None and (int(el[0], 16) == cur) != (ml[0] == m.hash_of(k, e)):
                bad.append(('log', 'log entry of %s carries the current command hash: engine %s, model %s' % (o, int(el[0], 16) == cur, ml[0] == m.hash_of(k, e))))
            rd = sorted(set(e.exp + g.eff_imp(e) + (e.hidden if (e.deps or e.depfile) else [])))
            rel = [(o, 'log', o)] + [(i, 'log', o) for i in rd] + [(i, 'file', o) for i in rd]
            for i, what, _ in rel:
                if i not in b.files or mb['nodes'][i][3] is None or (what == 'file' and (o not in b.files or mn[3] is None)): continue
                ev = sgn(el[1] if what == 'log' else b.files[o][0], b.files[i][0])
                mv = sgn(ml[1] if what == 'log' else mn[3], mb['nodes'][i][3])
                cnt['time relations compared'] += 1
                if ev != mv:
                    w = 'recorded mtime of %s' % o if what == 'log' else 'mtime of %s' % o
                    nms = {1: 'newer than', 0: 'equal to', -1: 'older than'}
                    bad.append(('times', '%s is %s the mtime of %s in the engine, %s in the model' % (w, nms[ev], i, nms[mv])))
    # deps-log records: present, the same set of nodes, record mtime against the output's mtime
    if m.depfile_mode:
        # the depfiles of the depfile-only statements: on disk in both or in neither, listing the same set of names
        import scanmodel
        for k, e in enumerate(g.edges):
            if not e.depfile or e.deps or e.phony: continue
            ef = b.files.get(e.depfile); mf = mb['df'].get(k)
            if (ef is not None) != (mf is not None):
                bad.append(('depfile', 'depfile %s: engine %s, model %s' % (e.depfile, 'exists' if ef else 'missing', 'exists' if mf is not None else 'missing'))); continue
            if ef is None: continue
            cnt['depfiles compared'] += 1
            pd = scanmodel.parse_depfile(ef[1])
            if pd[0] != 'p' or pd[1] != [e.out0]: bad.append(('depfile', 'depfile %s of the engine is not "out0: names": %r' % (e.depfile, ef[1][:80])))
            elif set(pd[2]) != set(mf): bad.append(('depfile', 'depfile %s lists %s in the engine, %s in the model' % (e.depfile, sorted(set(pd[2])), sorted(set(mf)))))
    if m.deps_mode:
        for n in m.names:
            er = b.deps.get(n); mr = mb['nodes'][n][5]
            if (er is not None) != (mr is not None):
                bad.append(('deps', 'deps record of %s: engine %s, model %s' % (n, 'present' if er else 'absent', 'present' if mr else 'absent'))); continue
            if er is None: continue
            cnt['deps records compared'] += 1
            if set(er[1]) != set(mr[1]): bad.append(('deps', 'deps record of %s lists %s in the engine, %s in the model' % (n, sorted(er[1]), sorted(mr[1]))))
            if n in b.files and mb['nodes'][n][3] is not None and sgn(er[0], b.files[n][0]) != sgn(mr[0], mb['nodes'][n][3]):
                nms = {1: 'newer than', 0: 'equal to', -1: 'older than'}
                bad.append(('deps', 'deps record of %s is %s the file in the engine, %s in the model' % (n, nms[sgn(er[0], b.files[n][0])], nms[sgn(mr[0], mb['nodes'][n][3])])))
    # the model against its own theorems
    if m.deps_mode and mb['ok'] and b.exit == 0:
        # the listed findings of C10, where the model's side conditions are false: stale files after a SUCCESSFUL build, the same
        # on both sides (the clean rule above); counted by shape
        targets = st.targets or ec.default_targets(g)
        clo = g.closure(targets, with_vals=False)
        unclean = {n for n in clo if n in mb['nodes'] and not mb['nodes'][n][1] and prod.get(n) is not None}
        both = exp is not None and all((b.files.get(n, (0, None))[1]) != exp.get(n) for n in unclean)
        if unclean and both:
            started = set(e_started)
            def restat_ran_upstream(e, seen=()):
                for i in e.exp + e.imp + e.hidden:
                    p_ = prod.get(i)
                    if p_ is None or p_.idx in seen: continue
                    if (p_.restat and p_.out0 in started) or restat_ran_upstream(p_, seen + (e.idx,)): return True
                return False
            shape_restat = [e for e in g.edges if (e.deps or e.depfile) and e.hidden and e.out0 in unclean and e.out0 not in started and restat_ran_upstream(e)]
            shape_notloaded = [e for e in g.edges if (e.deps or e.depfile) and e.out0 in started and
                               any(prod.get(x) is not None and not mb['nodes'][x][1] and x not in e.manifest_ins() for x in e.hidden)]
            if shape_restat and not flags['nru']:
                cnt['successful builds with a deps statement pruned below a restat statement, stale (id=restat-prune-ignores-recorded-deps, identical on both sides)'] += 1
            if shape_notloaded and not flags['hro']:
                cnt['successful builds where a dirty deps statement ran against a stale generated hidden read (id=dirty-edge-deps-not-loaded, identical on both sides)'] += 1
            if not (shape_restat and not flags['nru']) and not (shape_notloaded and not flags['hro']):
                cnt['successful builds with stale files of another shape (side conditions false: hro=%s nru=%s hp=%s nip=%s)' % (flags['hro'], flags['nru'], flags['hp'], nip)] += 1
        if unclean and flags['hro'] and flags['nru'] and flags['hp'] and nip:
            bad.append(('selfcheck', 'model: %s needed by the targets of an accepted build, all side conditions true: not clean (C10_equiv + C01_history)' % sorted(unclean)))
    if m.dyn_mode and kind == 'plain':
        if mb['res'] == 'fuel': bad.append(('selfcheck', 'model: ybuild_ff ran out of fuel'))
        if mb.get('old2') is not None and (sorted(mb['old2']) != sorted(mb['run']) or mb['old2res'] != mb['res']):
            cnt['builds where HistDyndepDefs.ybuild differs from ybuild_ff (and from ninja)'] += 1
        if mb.get('oldres') is not None and mb['oldres'] != mb['res']: cnt['builds where ybuild_f and ybuild_ff end differently (done / failed / refused)'] += 1
        prem = all(flags.get(k_, True) for k_ in ('frag', 'fragi', 'topo', 'ddo', 'nlr', 'hp')) and nip
        if mb['sl'] is not None:
            cnt['dyndep files loaded at scan time (model: scan_loads)'] += len(mb['sl'])
            for dd in g.dd_info:
                p_ = prod.get(dd)
                if p_ is not None and p_.out0 in e_started: cnt['dyndep files loaded mid-build (engine: the file\'s producer ran in this build)'] += 1
        if mb['res'] == 'done' and mb['iok']:
            if sorted(mb['irun']) != sorted(mb['run']):
                cnt['builds where the inlined manifest runs other commands than the dyndep one (model; premises of C11_equiv false: ddo=%s nlr=%s hp=%s nip=%s)' % (flags.get('ddo'), flags.get('nlr'), flags.get('hp'), nip)] += 1
                late = [k_ for k_ in set(mb['run']) - set(mb['irun']) if g.edges[k_].dyndep and g.dd_info.get(g.edges[k_].dyndep, {}).get(g.edges[k_].out0, ([], [], False))[2] and not g.edges[k_].restat]
                if late and not flags.get('nlr', True) and e_run == m_run:
                    cnt['builds with a statement re-run because its restat came from a dyndep file loaded mid-build (id=dyndep-restat-known-late, identical on engine and model)'] += 1
        if prem and mb['res'] == 'done':
            if not mb['eqi']: bad.append(('selfcheck', 'model: the dyndep manifest and the inlined manifest are in different states although the premises of C11_equiv hold'))
            if sorted(mb['irun']) != sorted(mb['run']): bad.append(('selfcheck', 'model: inlined manifest ran %s, dyndep manifest %s (premises of C11_equiv hold)' % (nm(mb['irun']), nm(mb['run']))))
    if not m.deps_mode and mb['ok'] and kind in ('plain', 'fault') and not mb['failed'] and not (m.dyn_mode and (mb['res'] != 'done' or not all(flags.get(k_, True) for k_ in ('ddo', 'nlr', 'hp')))):
        targets = st.targets or ec.default_targets(g)
        unclean = [n for n in sorted(g.closure(targets, with_vals=False)) if n in mb['nodes'] and not mb['nodes'][n][1]]
        if kind == 'plain' and not mb['ts'] and prev is not None and prev[2] == 'kill':
            cnt['recovery builds from a state that is not taint_safe (kill variant of id=failed-cmd-rewrote-output): %s' % ('not taint_safe_stmt either' if not mb['tss'] else 'taint_safe_stmt holds')] += 1
        if unclean and (mb['ts'] or mb['tss']) and nip:
            bad.append(('selfcheck', 'model: %s needed by the targets of an accepted build from a taint_safe state: not clean (C01_history_f / C01F_history)' % unclean))
        if unclean and not mb['ts'] and b.exit == 0 and all(n not in b.files or exp is None or b.files[n][1] != exp.get(n) for n in unclean):
            cnt['successful builds that kept what a failed command wrote (id=failed-cmd-rewrote-output, identical on both sides)'] += 1
    if kind == 'dry': cnt['dry runs compared'] += 1; cnt['commands listed by dry runs (engine)'] += len(e_started)
    if prev_ok_same and m.dyn_mode and not (flags.get('hp', True) and flags.get('nlr', True) and flags.get('ddo', True) and nip):
        if e_started and e_run == m_run: cnt['repeated builds that ran commands again, identically on both sides (premises false)'] += 1
    elif prev_ok_same and m.deps_mode and not (flags['hro'] and flags['nru'] and flags['hp']):
        # no convergence theorem where the side conditions fail (the statement pruned by the restat finding catches up in the next
        # build): the run-set rule above has already compared the two sides
        if e_started and e_run == m_run: cnt['repeated builds that ran commands again, identically on both sides (side conditions false)'] += 1
    elif prev_ok_same and nip and (not flags.get('wfault') or (prev is not None and prev[1].get('tss') and getattr(h, 'kill_mode', False))):
        if mb['run'] or not mb['ok']: bad.append(('selfcheck', 'model: the build repeated after an accepted one ran %s ok=%s (C02_history_hcmd)' % (mb['run'], mb['ok'])))
        if e_started or b.exit != 0: bad.append(('idle', 'engine: the build repeated after an accepted one started %s exit=%s' % (e_started, b.exit)))
    return bad

def check(ctx, seed, n, keep=None, dry=0.0, fault=False, deps=False, par=False, dyn=False):
    """n random histories inside the fragment through the real engine and through the extracted model.
    dry: probability of dry runs before builds; fault: every history has one failing invocation; deps: fragment ABD
    (deps = gcc statements with hidden reads), the recorded-deps model.
    Returns (list of Mismatch, stats dict)."""
    rnd = random.Random(seed * 1000003 + 4242)
    hists = []
    for i in range(n):
        hists.append(gen_history(rnd, 'HIST_%d_%d' % (seed, i), outside=rnd.random() < OUTSIDE_RATE, dry=dry, fault=fault, deps=deps, par=par, dyn=dyn))
    return compare_hists(hists, keep)

def compare_hists(hists, keep=None):
    """the given histories (enginecheck.Hist, steps inside the model) through both sides"""
    rc, tr, err, out = ec.run_hists(hists)
    # the engine's schedule of a failing / killed / interrupted build orders the model's statements; a killed build is placed by
    # comparing what it left with the same build run to its end (the reference scenario)
    maps = [Map(h, tr.get(h.sid), tr.get(getattr(h, 'kill_ref', None))) for h in hists]
    mouts = [None] * len(maps)
    for mode in ('hist', 'histd', 'histf', 'histy'):
        idx = [i for i, m in enumerate(maps) if m.mode == mode]
        if idx:
            for i, o in zip(idx, run_model([maps[i].line for i in idx], mode=mode)): mouts[i] = o
    st_ = collections.Counter(); mism = []
    st_['histories'] = len(hists)
    # the driver's memoized command function against the extracted step_run / is_clean, on a sample
    plain = [i for i, m in enumerate(maps) if m.mode == 'hist'][:DIRECT_SAMPLE]
    douts = run_model([maps[i].line for i in plain], mode='hist-direct') if plain else []
    st_['model lines cross-checked memoized vs direct'] = len(plain)
    for h, m, a, b in zip([hists[i] for i in plain], [maps[i] for i in plain], [mouts[i] for i in plain], douts):
        if a != b: mism.append(Mismatch(h.sid, 'driver', 'hist_run hist and hist_run hist-direct differ on this line', m.line + '\n' + a + '\n' + b + '\n'))
    for hh, crc, cerr in getattr(ec.run_hists, 'crashes', []):
        mism.append(Mismatch(hh.sid, 'engine-crash', 'the engine died (rc=%s): %s' % (crc, cerr.replace('\n', ' ')[-200:]), ec.replay_text(hh)))
    crashed = {hh.sid for hh, _, _ in getattr(ec.run_hists, 'crashes', [])}
    for h, m, mo in zip(hists, maps, mouts):
        if h.sid in crashed: continue
        r = parse_model(mo, m)
        bs = tr.get(h.sid)
        replay = lambda: ec.replay_text(h) + '# hist-model-line ' + m.line + '\n# hist-model-output ' + mo + '\n'
        if not r['hok'] and 'tampered output' in h.tags: r['hok'] = True; r['hp'] = False      # expected; no theorem applies
        if 'dropdeps' in h.tags: r['hp'] = False
        if m.depfile_mode and (not r.get('abf', True) or 'rm-depfile' in h.tags): r['hp'] = False        # outside the theorems of Properties_C10depfile
        if not r['wf'] or not r['hok']:
            mism.append(Mismatch(h.sid, 'mapping', 'the model line is malformed (wf=%s hist_ok=%s)' % (r['wf'], r['hok']), replay())); continue
        if m.kill is not None and m.kill[0] == 'skip':
            st_['engine crash points NOT compared: ' + m.kill[1]] += 1; continue
        if m.intr is not None and m.intr[0] == 'skip':
            st_['interrupts NOT compared: ' + m.intr[1]] += 1; continue
        reordered = m.order != list(range(len(m.order)))
        if reordered: st_['histories whose statements are numbered by ninja\'s schedule of the failing build'] += 1
        if reordered and r['frag'] and not r['topo']:
            mism.append(Mismatch(h.sid, 'order', 'ninja\'s schedule of the failing build is no dependency order: model order %s' % m.order, replay())); continue
        if not (r['frag'] and r['topo'] and (r.get('fragi', True) or m.dyn_mode)):
            st_['outside the fragment (model verdict)'] += 1
            if not r['frag']: st_['outside: frag_AB%s false' % ('Y' if m.dyn_mode else ('D' if m.deps_mode else ''))] += 1
            if not r['topo']: st_['outside: topo_ordered false'] += 1
            if not r.get('fragi', True): st_['outside: frag_AB of the inlined manifest false'] += 1
            continue
        st_['inside the fragment'] += 1
        if not r['nip']: st_['inside, with an input-less phony (C02 comparison skipped)'] += 1
        if bs is None:
            mism.append(Mismatch(h.sid, 'engine', 'no trace for this scenario', replay())); continue
        prs = ec.pair(h, bs)
        if len(prs) != len(r['builds']) or len(prs) != sum(1 for s in h.steps if s.kind == 'build'):
            mism.append(Mismatch(h.sid, 'mapping', 'engine ran %d builds, model %d' % (len(prs), len(r['builds'])), replay())); continue
        bad = []; prev = None; flags = {k: r.get(k, True) for k in ('hro', 'nru', 'hp', 'frag', 'fragi', 'topo', 'ddo', 'nlr', 'ads')}; pending_dry = None
        if m.dyn_mode:
            st_['histories with a produced dyndep file'] += 0 if r.get('ads') else 1
            for k_, lab in (('fragi', 'frag_AB of the inlined manifest (a dyndep input the manifest does not mention)'), ('ddo', 'dd_ins_ordered'), ('nlr', 'no_late_restat'), ('hp', 'hist_present_y')):
                if not r.get(k_, True): st_['inside, %s false' % lab] += 1
        if getattr(h, 'kill_ref', None): flags['ref'] = tr[h.kill_ref][-1]
        if m.deps_mode:
            if any(e.deps and e.hidden for e in h.g0.edges): st_['histories with a deps statement that has hidden reads'] += 1
            if any(e.depfile and not e.deps for e in h.g0.edges): st_['histories with a depfile-only statement'] += 1
            if any(e.depfile and not e.deps for e in h.g0.edges) and any(e.deps for e in h.g0.edges): st_['histories mixing depfile-only and deps = gcc statements'] += 1
            if m.depfile_mode and r.get('abf'): st_['inside, fragment ABF (no deps = gcc statement)'] += 1
            for k_ in ('hro', 'nru', 'hp'):
                if not r[k_]: st_['inside, %s' % {'hro': 'hidden_reads_ordered false', 'nru': 'no_restat_upstream_of_deps false', 'hp': ('outside the histories of the theorems (a deps = gcc statement, a removed depfile, a lost deps log, a tampered output, or hist_present false)' if m.depfile_mode else 'hist_present false')}[k_]] += 1
        for k, ((st, b), mb) in enumerate(zip(prs, r['builds'])):
            kind = step_kind(st)
            if kind == 'intr' and m.intr is None: kind = 'plain'; st_['interrupt points after the last command (plain build)'] += 1
            if m.deps_mode and not r['hro']:
                # without a manifest path ninja may start the reader of a generated hidden read before its generator (both in this
                # build): the model's order is the manifest order, the comparison ends here
                prod_ = st.g.producer(); fin_ = set(); early = False
                for ev in b.events:
                    if ev[0] == 'finish' and ev[2] == 0: fin_.add(ev[1])
                    if ev[0] == 'start' and prod_.get(ev[1]) is not None:
                        for x in prod_[ev[1]].hidden:
                            for p_ in through_phony(st.g, prod_, x):
                                if p_.out0 in b.started and p_.out0 not in fin_ and p_.out0 != ev[1]: early = True
                if early: st_['histories cut short: ninja started a reader before the generator of its hidden read (no manifest path)'] += 1; break
            st_['builds compared'] += 1
            rep = bool(getattr(st, 'repeat', False)) and prev is not None and prev[0].exit == 0 and prev[1]['ok'] and prev[2] == 'plain' and kind == 'plain'
            if rep and r['nip'] and not flags.get('wfault') and (not m.deps_mode or (flags['hro'] and flags['nru'] and flags['hp'])): st_['repeated builds compared (idle in both)'] += 1
            if b.started: st_['builds that ran commands'] += 1
            if b.exit not in (0, None) and not mb['ok']: st_['builds refused by both'] += 1
            if b.exit == 0 and not b.started and kind == 'plain': st_['builds with nothing to do'] += 1
            st_['commands run (engine)'] += len(b.started)
            st_['node comparisons'] += len(m.names)
            for kd, text in compare_build(h, m, st, b, mb, rep, r['nip'], st_, prev, flags, kind):
                bad.append((kd, 'build %d: %s' % (k, text)))
            # the commands of a real build that follows a dry run of the same targets at once are among the listed ones
            # (C19_dry_superset; equality when nothing is pruned is C19_dry_difference_exact)
            if pending_dry is not None and kind == 'plain' and pending_dry[0] == h.steps.index(st) - 1 and pending_dry[1] == st.targets and mb['ok'] and b.exit == 0:
                st_['dry runs followed at once by the same build for real'] += 1
                if not set(mb['run']) <= set(pending_dry[2]): bad.append(('selfcheck', 'build %d: model ran %s, its dry run listed %s (C19_dry_superset)' % (k, mb['run'], pending_dry[2])))
                if not set(b.started) <= set(pending_dry[3]): bad.append(('dry-superset', 'build %d: engine ran %s, its dry run listed %s' % (k, b.started, pending_dry[3])))
                if sorted(mb['run']) == sorted(pending_dry[2]): st_['... where the listing was exact'] += 1
            pending_dry = None
            if kind == 'dry' and mb['ok']:
                pending_dry = (h.steps.index(st), st.targets, mb['run'], [engine.uh(ev[2]) for ev in b.events if ev[0] == 'st' and ev[1] == 'started'])
            prev = (b, mb, kind)
        if any(st.kind == 'build' and any(e.restat for e in st.g.edges if not e.phony) for st in h.steps): st_['histories with a restat statement'] += 1
        for tg in sorted(h.tags): st_['histories with ' + tg] += 1
        if bad:
            st_['mismatching histories'] += 1
            for kd in sorted({k for k, _ in bad}): st_['mismatch:' + kd] += 1
            mism.append(Mismatch(h.sid, bad[0][0], '; '.join(t for _, t in bad[:4]), replay()))
    st_.setdefault('mismatching histories', 0)
    st_.setdefault('outside the fragment (model verdict)', 0)
    kinds = collections.Counter()
    for h in hists:
        for s in h.steps: kinds[s.kind if s.kind != 'build' else {'plain': 'build', 'dry': 'build -n', 'fault': 'build with faults', 'kill': 'build killed', 'intr': 'build interrupted'}[step_kind(s)]] += 1
    stats = dict(st_); stats['steps'] = dict(kinds)
    if keep:
        os.makedirs(keep, exist_ok=True)
        for i, x in enumerate(mism[:50]):
            with open(os.path.join(keep, 'hist-mismatch-%d.scn' % i), 'w') as f: f.write('# %s\n' % x + x.replay)
    return mism, stats

# ------------------------------------------------------------------ integration with tools/check (props/c01.py, c02.py, c05.py, c19.py)
HISTRUN_V = 'Engine/HistRun.v'
_FORBIDDEN = re.compile(r'\b(Admitted|admit|Axiom|Axioms|Parameter|Parameters|Conjecture|Abort)\b|Unset\s+Guard|bypass_check|native_compute|type-in-type|Unset\s+Positivity|Unset\s+Universe')
_STMT = re.compile(r'^\s*(?:Local\s+|Global\s+)?(Theorem|Lemma|Corollary|Example|Fact|Proposition|Remark)\s+(\w+)', re.M)

def start_proof_check(ctx):
    """Engine/HistRun.v (the command function run here, the proof that it satisfies the generator hypothesis, the history
    theorems instantiated at it) is no dependency of a Properties file, so tools/check's proof stage does not see it: its
    statements are registered here as obligations of the property.  Returns a handle for finish_proof_check."""
    import subprocess, tempfile
    if HISTRUN_V in ctx.proof['files']: return None
    path = os.path.join(vlib.COQ, HISTRUN_V)
    if not os.path.exists(path):
        ctx.proof['broken'].append(HISTRUN_V + ' missing'); return None
    src = open(path, errors='replace').read()
    m = _FORBIDDEN.search(re.sub(r'\(\*.*?\*\)', '', src, flags=re.S))
    if m: ctx.proof['broken'].append('%s uses forbidden %r' % (HISTRUN_V, m.group(0)))
    ok, out = vlib.build_coq([HISTRUN_V[:-2] + '.vo'])
    n = len(_STMT.findall(src))
    ctx.proof['files'].append(HISTRUN_V); ctx.proof['obligations'] += n
    vo = path[:-2] + '.vo'
    if ok and os.path.exists(vo) and os.path.getmtime(vo) >= os.path.getmtime(path): ctx.proof['discharged'] += n
    else:
        ctx.proof['broken'].append('%s does not compile: %s' % (HISTRUN_V, out[-400:])); return None
    # Print Assumptions of the instantiated theorems: a second compilation whose .vo goes to a scratch directory
    d = tempfile.mkdtemp(prefix='histrun-')
    p = subprocess.Popen(['timeout', '600', 'coqc', '-Q', '.', 'NinjaV', HISTRUN_V, '-o', os.path.join(d, 'HistRun.vo')], cwd=vlib.COQ,
                         stdout=subprocess.PIPE, stderr=subprocess.STDOUT)
    return (p, d, [nm for k, nm in _STMT.findall(src) if k == 'Theorem'], src.count('Print Assumptions'))

def finish_proof_check(ctx, handle):
    import shutil
    if handle is None: return
    p, d, names, nprint = handle
    txt = p.communicate()[0].decode(errors='replace'); shutil.rmtree(d, ignore_errors=True)
    closed = txt.count('Closed under the global context')
    if p.returncode != 0: ctx.proof['broken'].append(HISTRUN_V + ' failed: ' + txt[-500:])
    elif closed != nprint or 'Axioms:' in txt: ctx.proof['broken'].append('%s: %d of %d Print Assumptions say "Closed under the global context": %s' % (HISTRUN_V, closed, nprint, txt[-300:]))
    ctx.proof['theorems'] = ctx.proof.get('theorems', []) + names
    ctx.proof['print_assumptions'] = ctx.proof['print_assumptions'] + ['%s: %d theorems closed under the global context' % (HISTRUN_V, closed)]

def hook(ctx, pid, dry=0.0, fault=False, deps=False, par=False, dyn=False, quick=400, thorough=5000, key='hist_model'):
    """called by props/c01.py, c02.py (plain histories), c19.py (dry=..: dry runs interleaved), c05.py (fault=True: one
    failing invocation per history), c10.py (deps=True: fragment ABD, the recorded-deps model) after the property's own runs"""
    if not ctx.model: return         # the model did not build: already reported as a broken obligation
    os.environ['HISTMODEL_BIN'] = os.path.join(os.path.dirname(ctx.model), 'hist_run')
    if ctx.replay:
        # a replay file written below is re-compared; any other replay belongs to the engine oracles alone
        if '# hist-model-line ' not in open(ctx.replay, errors='replace').read(): return
        handle = start_proof_check(ctx)
        hists = ec.load_replay(ctx.replay)
        mism, stats = compare_hists(hists)
        finish_proof_check(ctx, handle)
        for x in mism: ctx.corr_broken.append('history model (HistDefs) differs from ninja in scenario %s: %s' % (x.sid, x.text[:600]))
        return
    handle = start_proof_check(ctx)
    n = quick if ctx.quick() else thorough
    mism, stats = check(ctx, ctx.seed * 31 + int(pid[1:]) + (500 if par else 0) + (700 if deps == 'depfile' else 0) + (900 if fault == 'k' else 0) + (1100 if dyn else 0), n, dry=dry, fault=fault, deps=deps, par=par, dyn=dyn)
    finish_proof_check(ctx, handle)
    for x in mism[:5]:
        ctx.corr_broken.append('history model (HistDefs) differs from ninja in scenario %s [%s]: %s' % (x.sid, x.kind, x.text[:600]))
        ctx.replay_file('hist-mismatch', x.replay)
    if len(mism) > 5: ctx.corr_broken.append('history model (HistDefs): %d more mismatching histories' % (len(mism) - 5))
    ctx.cov['hist_model_correspondence' + ('_parallel' if par else '') + ('_depfile' if deps == 'depfile' else '') + ('_keepgoing' if fault == 'k' else '') + ('_dyndep' if dyn else '')] = stats
    extra = [k for k in stats if k.startswith(('dry runs', 'failing builds', 'commands listed', 'successful builds', '... where', 'histories whose statements', 'builds where the original', '... statements', 'keep-going', 'statements skipped', 'dyndep files', 'builds that failed in a mid', 'builds where HistDyndepDefs', 'builds where ybuild_f and', 'repeated builds that ran', 'builds with a statement re-run', 'builds where the inlined', 'histories with a produced', 'schedule', 'builds with at',
                                               'deps records', 'inside, ', 'histories cut short', 'histories with a dep', 'histories mixing', 'depfiles', 'builds where fbuild', 'histories with rm-depfile'))]
    ctx.cov.setdefault('distribution', {})[key] = {k: stats.get(k, 0) for k in extra + [
        'histories', 'inside the fragment', 'outside the fragment (model verdict)',
        'builds compared', 'builds that ran commands', 'builds refused by both', 'repeated builds compared (idle in both)',
        'node comparisons', 'log entries compared', 'time relations compared', 'mismatching histories']}
    ctx.cov['traces_validated_against_model'] = ctx.cov.get('traces_validated_against_model', 0) + stats.get('builds compared', 0)

def hook_crash(ctx, pid='C07', quick=150, thorough=1200, cap=10, key='hist_model_crash_points'):
    """called by props/c07.py: kills at every (sampled) crash point of an invocation and interrupts, against HistCrashDefs"""
    if not ctx.model: return
    os.environ['HISTMODEL_BIN'] = os.path.join(os.path.dirname(ctx.model), 'hist_run')
    if ctx.replay: return hook(ctx, pid)
    handle = start_proof_check(ctx)
    mism, stats = check_crash(ctx, ctx.seed * 31 + int(pid[1:]), quick if ctx.quick() else thorough, cap if ctx.quick() else 3 * cap)
    finish_proof_check(ctx, handle)
    for x in mism[:5]:
        ctx.corr_broken.append('history model (HistCrashDefs) differs from ninja in scenario %s [%s]: %s' % (x.sid, x.kind, x.text[:600]))
        ctx.replay_file('hist-mismatch', x.replay)
    if len(mism) > 5: ctx.corr_broken.append('history model (HistCrashDefs): %d more mismatching histories' % (len(mism) - 5))
    ctx.cov['hist_model_crash_correspondence'] = stats
    keys = [k for k in stats if k.startswith(('engine crash points', 'interrupt', 'recovery builds', 'base histories', 'crash point', 'histories whose', 'builds where the original', '... statements'))]
    ctx.cov.setdefault('distribution', {})[key] = {k: stats.get(k, 0) for k in keys + ['histories', 'builds compared', 'node comparisons', 'log entries compared',
                                                                                      'time relations compared', 'repeated builds compared (idle in both)', 'mismatching histories']}
    ctx.cov['traces_validated_against_model'] = ctx.cov.get('traces_validated_against_model', 0) + stats.get('builds compared', 0)

def replay(path):
    """re-run the histories of a replay file (enginecheck.replay_text format) through both sides and show them"""
    hists = ec.load_replay(path)
    rc, tr, err, out = ec.run_hists(hists)
    maps = [Map(h, tr.get(h.sid)) for h in hists]
    mouts = [run_model([m.line], mode=m.mode)[0] for m in maps]
    for h, m, mo in zip(hists, maps, mouts):
        r = parse_model(mo, m); prs = ec.pair(h, tr.get(h.sid, []))
        print({k: v for k, v in r.items() if k != 'builds'})
        print(h.g0.manifest())
        print('model order :', m.order); print('model line  :', m.line); print('model output:', mo)
        prev = None; flags = {k: r.get(k, True) for k in ('hro', 'nru', 'hp')}
        for k, ((st, b), mb) in enumerate(zip(prs, r['builds'])):
            kind = step_kind(st)
            rep = bool(getattr(st, 'repeat', False)) and prev is not None and prev[0].exit == 0 and prev[1]['ok'] and prev[2] == 'plain' and kind == 'plain'
            listed = [engine.uh(ev[2]) for ev in b.events if ev[0] == 'st' and ev[1] == 'started']
            print('build %d %s targets=%s faults=%s engine: exit=%s err=%r started=%s%s | model: ok=%s failed=%s ts=%s %s=%s' % (
                k, kind, st.targets, st.opts.get('faults'), b.exit, b.err, b.started, ' listed=%s' % listed if kind == 'dry' else '', mb['ok'], mb['failed'], mb['ts'],
                'list' if kind == 'dry' else 'run', [h.g0.edges[x].out0 for x in mb['run']]))
            for kd, text in compare_build(h, m, st, b, mb, rep, r['nip'], collections.Counter(), prev, flags): print('   MISMATCH [%s] %s' % (kd, text))
            prev = (b, mb, kind)

if __name__ == '__main__':
    a = sys.argv[1:]
    if a and a[0] == '--replay': replay(a[1]); sys.exit(0)
    seed = int(a[0]) if a else 1; n = int(a[1]) if len(a) > 1 else 400
    keep = a[a.index('--keep') + 1] if '--keep' in a else None
    dry = float(a[a.index('--dry') + 1]) if '--dry' in a else 0.0
    import time; t0 = time.time()
    if '--crash' in a:
        mism, stats = check_crash(None, seed, n, keep=keep)
        for k in sorted(stats): print('%-60s %s' % (k, stats[k]))
        for x in mism[:10]: print('MISMATCH', x)
        print('%d bases, %d mismatching, %.1fs' % (n, len(mism), time.time() - t0)); sys.exit(1 if mism else 0)
    mism, stats = check(None, seed, n, keep=keep, dry=dry, fault=('k' if '--keepgoing' in a else '--fault' in a), deps=('depfile' if '--depfile' in a else '--deps' in a), par='--par' in a, dyn='--dyndep' in a)
    for k in sorted(stats): print('%-60s %s' % (k, stats[k]))
    for x in mism[:10]:
        print('MISMATCH', x)
    if mism[:1]: print('--- first mismatch replay ---'); print(mism[0].replay)
    print('%d histories, %d mismatching, %.1fs' % (n, len(mism), time.time() - t0))
    sys.exit(1 if mism else 0)
