#!/usr/bin/env python3
"""Correspondence of the Gallina model of ninja's status reporting (coq/Status/StatusDefs.v) with the
real StatusPrinter / LinePrinter (harness/run_status.cc), on Status call sequences.

  Script                      one call sequence + configuration; .text() is the block both sides read
  gen_synthetic(rnd, sid)     a VALID sequence from a little scheduler (plan additions, -j, console pool
                              of depth 1, restat prunes, dyndep additions, failures, interrupt), outputs
                              from a catalogue of nasty byte strings (NUL, ANSI, no final newline, empty)
  gen_arbitrary(rnd, sid)     any calls in any order (the model is total; so is the real class)
  from_engine(hists, traces)  the `st ...` lines of real engine traces (enginecheck) as sequences
  compare(scripts)            -> (mismatch list, statistics); runs impl, feeds its time-placeholder
                              probes to the model, compares stdout bytes, stderr bytes, Fatal
  valid(script)               a sequence Builder::Build() can make;  in_theorem_domain(script): accepted by StatusProofs.parse
  python3 tools/statusmodel.py selftest [n] [seed]      generate, compare, report
  python3 tools/statusmodel.py elide|strip [n] [seed]   bulk comparison of ElideMiddleInPlace / StripAnsiEscapeCodes

Binaries: model = $STATUS_MODEL_RUN, else `status_run` next to vlib.build_model()'s model_run, else a private
build in /tmp/work_C20/model; implementation = $STATUS_IMPL_RUN, else vlib.build_impl(flavor)/impl_run when
it knows the component `status` (harness/ENABLED lists run_status.cc), else a private build in /tmp/work_C20/impl."""
import os, sys, random, subprocess, shutil, concurrent.futures, collections

HERE = os.path.dirname(os.path.abspath(__file__))
sys.path.insert(0, HERE)
import vlib
from vlib import hexs, unhex
VERIF = os.path.dirname(HERE)
WORK = '/tmp/work_C20'

# ------------------------------------------------------------------------------ binaries
_MODEL = None
def model_binary(model_run=None):
    global _MODEL
    if _MODEL: return _MODEL
    if os.environ.get('STATUS_MODEL_RUN'):
        _MODEL = os.environ['STATUS_MODEL_RUN']; return _MODEL
    if model_run:
        c = os.path.join(os.path.dirname(model_run), 'status_run')
        if os.path.exists(c): _MODEL = c; return c
    # private build, keyed by the sources
    srcs = [os.path.join(VERIF, 'coq', 'Base', 'Bytes.v'), os.path.join(VERIF, 'coq', 'Status', 'StatusDefs.v'),
            os.path.join(VERIF, 'coq', 'ExtractStatus.v'), os.path.join(VERIF, 'extract', 'status_run.ml')]
    d = os.path.join(WORK, 'model-' + vlib._hash_files(srcs))
    exe = os.path.join(d, 'status_run')
    if not os.path.exists(os.path.join(d, 'OK')):
        ok, out = vlib.build_coq(['Status/StatusDefs.vo'])
        if not ok: raise vlib.BuildError('Status/StatusDefs.v does not compile:\n' + out[-2000:])
        shutil.rmtree(d, ignore_errors=True); os.makedirs(d)
        p = subprocess.run(['coqc', '-Q', vlib.COQ, 'NinjaV', os.path.join(vlib.COQ, 'ExtractStatus.v'), '-o', os.path.join(d, 'ExtractStatus.vo')],
                           cwd=d, stdout=subprocess.PIPE, stderr=subprocess.STDOUT)
        if p.returncode != 0: raise vlib.BuildError('extraction of the status model failed:\n' + p.stdout.decode(errors='replace')[-2000:])
        shutil.copy(os.path.join(VERIF, 'extract', 'status_run.ml'), d)
        p = subprocess.run(['ocamlfind', 'ocamlopt', '-w', '-a', 'statusmodel.mli', 'statusmodel.ml', 'status_run.ml', '-o', 'status_run'],
                           cwd=d, stdout=subprocess.PIPE, stderr=subprocess.STDOUT)
        if p.returncode != 0: raise vlib.BuildError('ocaml build of status_run failed:\n' + p.stdout.decode(errors='replace')[-2000:])
        open(os.path.join(d, 'OK'), 'w').write('ok')
    _MODEL = exe
    return exe

_IMPL = {}
def impl_binary(flavor='plain'):
    if flavor in _IMPL: return _IMPL[flavor]
    if os.environ.get('STATUS_IMPL_RUN'):
        _IMPL[flavor] = os.environ['STATUS_IMPL_RUN']; return _IMPL[flavor]
    enabled = [l.strip() for l in open(os.path.join(VERIF, 'harness', 'ENABLED')) if l.strip()]
    if 'run_status.cc' in enabled:
        _IMPL[flavor] = os.path.join(vlib.build_impl(flavor), 'impl_run'); return _IMPL[flavor]
    # private build: all libninja sources of /repo's working tree + impl_run.cc + run_status.cc
    import glob
    srcs = glob.glob(os.path.join(vlib.REPO, 'src', '*.cc')) + glob.glob(os.path.join(vlib.REPO, 'src', '*.h')) + \
           [os.path.join(VERIF, 'harness', f) for f in ('run_status.cc', 'impl_run.cc', 'common.h')]
    d = os.path.join(WORK, 'impl-%s-%s' % (flavor, vlib._hash_files(srcs, flavor.encode())))
    exe = os.path.join(d, 'impl_run')
    if not os.path.exists(os.path.join(d, 'OK')):
        shutil.rmtree(d, ignore_errors=True); os.makedirs(os.path.join(d, 'obj'))
        cxx = ['g++', '-std=c++17', '-DUSE_PPOLL=1', '-D' + vlib.GUARD, '-w', '-iquote', os.path.join(vlib.REPO, 'src')] + vlib.FLAVORS[flavor]
        cmds = [cxx + ['-c', os.path.join(vlib.REPO, 'src', s), '-o', os.path.join(d, 'obj', s[:-3] + '.o')] for s in vlib.LIB_SOURCES]
        for h in ('impl_run.cc', 'run_status.cc'):
            cmds.append(cxx + ['-I' + os.path.join(VERIF, 'harness'), '-c', os.path.join(VERIF, 'harness', h), '-o', os.path.join(d, 'obj', 'h_' + h[:-3] + '.o')])
        fails = vlib._parallel(cmds)
        if fails: raise vlib.BuildError('compilation failed:\n' + '\n'.join(' '.join(c[-3:]) + '\n' + o[-3000:] for c, rc, o in fails))
        objs = [os.path.join(d, 'obj', s[:-3] + '.o') for s in vlib.LIB_SOURCES] + [os.path.join(d, 'obj', 'h_impl_run.o'), os.path.join(d, 'obj', 'h_run_status.o')]
        fails = vlib._parallel([['g++'] + vlib.FLAVORS[flavor] + ['-o', exe] + objs + ['-lpthread', '-lutil']])
        if fails: raise vlib.BuildError('link failed:\n' + fails[0][2][-3000:])
        open(os.path.join(d, 'OK'), 'w').write('ok')
    _IMPL[flavor] = exe
    return exe

# ------------------------------------------------------------------------------ scripts
TIME_LETTERS = b'oceEwWP'
TIME_VARS = [b'rate', b'current_rate', b'predicted_progress', b'elapsed', b'elapsed_seconds', b'eta', b'eta_seconds']
COUNTER_VARS = [b'started', b'total', b'running', b'remaining', b'finished', b'progress', b'description']

class SEdge:
    def __init__(s, desc, cmd, console=False, outs=()):
        s.desc, s.cmd, s.console, s.outs = desc, cmd, console, list(outs)

class Script:
    def __init__(s, sid, tty=False, verb=2, color=False, width=0, fmt=None, ev=None):
        s.sid = sid; s.tty = tty; s.verb = verb; s.color = color; s.width = width
        s.fmt = fmt            # None = NINJA_STATUS unset; bytes otherwise (no NUL: it is an environment variable)
        s.ev = ev              # None, or list of (isvar, bytes): the --status string
        s.edges = []; s.calls = []   # calls: tuples ('added', k) ... ('finished', k, code, out) ('lock', b) ('info', bytes)
        s.kind = 'synthetic'
    def time_keys(s):
        ks = []
        if s.ev is not None:
            for isvar, x in s.ev:
                if isvar and x in TIME_VARS and x not in ks: ks.append(x)
        else:
            f = s.fmt if s.fmt is not None else b'[%f/%t] '
            i = 0
            while i < len(f):
                if f[i] == 37 and i + 1 < len(f):
                    c = f[i + 1:i + 2]
                    if c in [bytes([x]) for x in TIME_LETTERS] and c not in ks: ks.append(c)
                    i += 2
                else: i += 1
        return ks
    def header(s):
        fmt = 'default' if s.fmt is None else hexs(s.fmt)
        if s.ev is None: ev = 'none'
        elif not s.ev: ev = '-'
        else: ev = ','.join(('V' if v else 'L') + x.hex() for v, x in s.ev)
        tk = s.time_keys()
        return 'script %s tty=%d verb=%d color=%d width=%d fmt=%s eval=%s times=%s' % (
            s.sid, s.tty, s.verb, s.color, s.width, fmt, ev, ','.join(k.hex() for k in tk) if tk else '-')
    def lines(s, times=()):
        L = [s.header()]
        for k, e in enumerate(s.edges):
            L.append('edge %d %d %s %s %s' % (k, e.console, hexs(e.desc), hexs(e.cmd), ','.join(o.hex() for o in e.outs) if e.outs else '-'))
        L += list(times)
        for c in s.calls:
            if c[0] == 'finished': L.append('c finished %d %d %s' % (c[1], c[2], hexs(c[3])))
            elif c[0] in ('added', 'removed', 'started'): L.append('c %s %d' % (c[0], c[1]))
            elif c[0] == 'lock': L.append('c lock %d' % c[1])
            elif c[0] in ('info', 'warning', 'error'): L.append('c %s %s' % (c[0], hexs(c[1])))
            else: L.append('c ' + c[0])
        L.append('end')
        return L
    def text(s): return '\n'.join(s.lines()) + '\n'

def valid(s):
    """a call sequence Builder::Build() can make: started edges are not running, finished edges are running, at most
    one console edge runs at a time (pool depth 1), no bare lock calls"""
    running = set()
    for c in s.calls:
        if c[0] == 'lock': return False
        if c[0] == 'started':
            if c[1] in running: return False
            if s.edges[c[1]].console and any(s.edges[r].console for r in running): return False
            running.add(c[1])
        elif c[0] == 'finished':
            if c[1] not in running: return False
            running.discard(c[1])
    return True

def in_theorem_domain(s):
    """StatusProofs.parse accepts the sequence (hypothesis of C20_console_parsed): plain* (window plain*)* with
    window = Started(console edge) ; calls of non-console edges, no BuildFinished/NewLine/lock ; Finished(console edge)"""
    inwin = False
    for c in s.calls:
        con = c[0] in ('started', 'finished') and s.edges[c[1]].console
        if c[0] == 'lock': return False
        if not inwin:
            if c[0] == 'started' and con: inwin = True
            elif c[0] == 'finished' and con: return False
        else:
            if c[0] == 'finished' and con: inwin = False
            elif con or c[0] in ('buildfinished', 'newline'): return False
    return not inwin

# ------------------------------------------------------------------------------ generators
ESC = b'\x1b'
OUTPUTS = [b'', b'', b'x\n', b'out\n', b'abc', b'no newline at end', b'\n', b'\n\n', b'a\n\nb\n', b'\r', b'line\r\n',
           b'nul\x00inside\n', b'\x00', b'\x00\n', b'tail nul\x00', b'\xff\xfe\x00u\x00t\x00f\x001\x006\x00\n',
           ESC + b'[31mred' + ESC + b'[0m\n', ESC + b'[1;31merror:' + ESC + b'[0m x', ESC, b'x' + ESC, ESC + b'[', ESC + b'[12;3',
           ESC + b'[0m', ESC + b'[K' + ESC + b'[2J', ESC + b']0;title\x07rest\n', ESC + b'Xplain\n', ESC + ESC + b'[31mz\n',
           ESC + b'[' + ESC + b'[0mq\n', b'warning: ' + ESC + b'[35mfoo' + ESC + b'[m bar', b'FAILED: [code=1] fake \n', b'[1/1] fake status\n',
           b'ninja: fake\n', b'tab\there\n', b'\x7f\x80\xc3\xa9\n']
DESCS = [b'', b'', b'CC a.o', b'LINK prog', b'D', b'desc with  spaces ', b'100% done', b'nul\x00desc', ESC + b'[32mGREEN' + ESC + b'[0m x',
         b'a rather long description that will have to be elided on narrow terminals, really', b'\x00', b'utf\xc3\xa9']
FORMATS = [None, None, None, b'[%f/%t] ', b'', b'%%', b'[%s/%t] ', b'[%s %t %r %u %f|%p] ', b'%p %f/%t: ', b'>>> ', b'[%r running, %u left] ',
           b'[%e] ', b'[%f/%t %o/s %c] ', b'[%w %E %W %P] ', b'%Z', b'abc%', b'[%f/%t] %q ', b'%', b'%%%f%%%t', ESC + b'[1m[%f/%t]' + ESC + b'[0m ']

def rand_bytes(rnd, n):
    return bytes(rnd.choice([rnd.randrange(256), 0x1b, 0x5b, 0x6d, 0x30, 0x3b, 0x0a, 0x61, 0]) for _ in range(n))

def rand_output(rnd):
    r = rnd.random()
    if r < 0.55: return rnd.choice(OUTPUTS)
    if r < 0.7: return rnd.choice(OUTPUTS) + rnd.choice(OUTPUTS)
    if r < 0.85: return rand_bytes(rnd, rnd.choice([1, 2, 3, 5, 8, 30]))
    if r < 0.95: return b''.join(b'line %d of many\n' % i for i in range(rnd.randrange(2, 40)))
    return rand_bytes(rnd, rnd.choice([200, 5000]))

def rand_eval(rnd):
    toks = []
    for _ in range(rnd.randrange(0, 6)):
        if rnd.random() < 0.5:
            x = bytes(rnd.choice(b'abcXYZ09 []/%:|.-_') for _ in range(rnd.randrange(1, 6)))
            if toks and not toks[-1][0]: toks[-1] = (False, toks[-1][1] + x)     # the lexer merges adjacent text
            else: toks.append((False, x))
        else:
            r = rnd.random()
            v = rnd.choice(COUNTER_VARS) if r < 0.75 else rnd.choice(TIME_VARS) if r < 0.95 else rnd.choice([b'bogus', b'in', b'out'])
            toks.append((True, v))
    # "$ " style corner: a leading space of the string is kept by ReadVarValue? keep literals from starting with a space at position 0
    if toks and not toks[0][0] and toks[0][1][:1] == b' ': toks[0] = (False, b'_' + toks[0][1])
    return toks

def rand_config(rnd, sid, dumb_bias=0.7):
    tty = rnd.random() > dumb_bias
    verb = rnd.choice([2, 2, 2, 2, 3, 3, 1, 0])
    s = Script(sid, tty=tty, verb=verb, color=rnd.random() < (0.5 if tty else 0.2),
               width=rnd.choice([0, 0, 1, 2, 3, 4, 5, 7, 10, 16, 25, 40, 80, 200]) if tty else 0)
    if rnd.random() < 0.12: s.ev = rand_eval(rnd)
    else: s.fmt = rnd.choice(FORMATS) if rnd.random() < 0.6 else None
    return s

def rand_edges(rnd, s, n, console_p=0.2):
    for k in range(n):
        outs = [b'out%d' % k] + ([b'dir/o%d.extra' % k] if rnd.random() < 0.2 else []) + ([b'sp ace%d' % k] if rnd.random() < 0.1 else [])
        if rnd.random() < 0.05: outs = []
        cmd = rnd.choice([b'cmd%d' % k, b'gcc -c x%d.c -o out%d' % (k, k), b'', b'printf "a\\nb" && exit 3', b'c\x00md'])
        s.edges.append(SEdge(rnd.choice(DESCS), cmd, rnd.random() < console_p, outs))

def gen_synthetic(rnd, sid, cfg=None):
    """a valid call sequence: what Builder::Build() can produce"""
    s = cfg or rand_config(rnd, sid)
    n = rnd.randrange(1, 9)
    rand_edges(rnd, s, n, console_p=rnd.choice([0.0, 0.15, 0.4]))
    j = rnd.randrange(1, 5)
    nbuilds = 1 if rnd.random() < 0.85 else 2
    pending = list(range(n)); rnd.shuffle(pending)
    late = []
    if rnd.random() < 0.2 and len(pending) > 1: late = [pending.pop()]       # added later by a dyndep load
    for b in range(nbuilds):
        todo = pending if b == nbuilds - 1 else pending[:len(pending) // 2]
        pending = [x for x in pending if x not in todo]
        for k in todo: s.calls.append(('added', k))
        if rnd.random() < 0.1: s.calls.append(('info', b'Entering directory `x\''))
        s.calls.append(('buildstarted',))
        running = []; todo = list(todo); interrupted = False
        while todo or running:
            can_start = [k for k in todo if not (s.edges[k].console and any(s.edges[r].console for r in running))]
            if can_start and len(running) < j and (not running or rnd.random() < 0.6):
                k = can_start[0]; todo.remove(k); running.append(k); s.calls.append(('started', k))
            elif running:
                k = rnd.choice(running); running.remove(k)
                fail = rnd.random() < 0.25
                code = 0 if not fail else rnd.choice([1, 1, 2, 127, 130, 255])
                out = b'' if s.edges[k].console and rnd.random() < 0.9 else rand_output(rnd)
                s.calls.append(('finished', k, code, out))
                if not fail and todo and rnd.random() < 0.15:      # restat: a dependent is pruned
                    s.calls.append(('removed', todo.pop()))
                if not fail and late and rnd.random() < 0.5:       # dyndep file loaded: more work
                    k2 = late.pop(); todo.append(k2); s.calls.append(('added', k2))
                if fail and rnd.random() < 0.4: todo = []          # -k 1: stop starting
                if rnd.random() < 0.03: interrupted = True; break
            else: break
            if rnd.random() < 0.03: s.calls.append(('warning', b'something odd'))
        s.calls.append(('buildfinished',))
        if rnd.random() < 0.3: s.calls.append(('error', b'build stopped: subcommand failed.') if rnd.random() < 0.5 else ('info', b'no work to do.'))
        if interrupted: break
    return s

def gen_arbitrary(rnd, sid):
    s = rand_config(rnd, sid)
    s.kind = 'arbitrary'
    n = rnd.randrange(1, 5)
    rand_edges(rnd, s, n, console_p=0.4)
    for _ in range(rnd.randrange(1, 25)):
        r = rnd.random(); k = rnd.randrange(n)
        if r < 0.08: s.calls.append(('added', k))
        elif r < 0.14: s.calls.append(('removed', k))
        elif r < 0.34: s.calls.append(('started', k))
        elif r < 0.64: s.calls.append(('finished', k, rnd.choice([0, 0, 0, 1, 2, -1, 300]), rand_output(rnd)))
        elif r < 0.68: s.calls.append(('buildstarted',))
        elif r < 0.73: s.calls.append(('buildfinished',))
        elif r < 0.85: s.calls.append(('lock', rnd.randrange(2)))
        elif r < 0.89: s.calls.append(('newline',))
        elif r < 0.94: s.calls.append(('info', rnd.choice([b'hello', b'', b'a\x00b', b'no work to do.'])))
        elif r < 0.97: s.calls.append(('warning', rnd.choice([b'w', b''])))
        else: s.calls.append(('error', rnd.choice([b'e', b'x\x00y'])))
    return s

def from_engine(rnd, traces, prefix='E'):
    """traces = {sid: [engine.Build]} (engine.parse_trace); one Script per build that made Status calls"""
    res = []
    for sid in sorted(traces):
        for bi, b in enumerate(traces[sid]):
            st = [e for e in b.events if e[0] == 'st']
            if not any(e[1] in ('started', 'finished', 'added') for e in st): continue
            s = rand_config(rnd, '%s_%s_%d' % (prefix, sid, bi))
            s.kind = 'engine'
            idx = {}
            mutate = rnd.random() < 0.6
            def edge(hx):
                if hx not in idx:
                    name = b'' if hx == '-' else unhex(hx)
                    kv = b.snap.get(name.decode('latin1'), {})
                    outs = [unhex(o) for o in kv.get('outs', hx).split(',')] if hx != '-' else []
                    con = kv.get('pool', '-') == b'console'.hex()
                    idx[hx] = len(s.edges)
                    s.edges.append(SEdge(rnd.choice(DESCS) if rnd.random() < 0.7 else b'BUILD ' + name, b'cmd ' + name, con, outs))
                return idx[hx]
            for e in st:
                k = e[1]
                if k in ('added', 'removed', 'started'): s.calls.append((k, edge(e[2])))
                elif k == 'finished':
                    out = unhex(e[4])
                    if mutate and rnd.random() < 0.7: out = rand_output(rnd)
                    s.calls.append(('finished', edge(e[2]), int(e[3]), out))
                elif k in ('buildstarted', 'buildfinished'): s.calls.append((k,))
                elif k in ('info', 'warning', 'error'): s.calls.append((k, unhex(e[2]).replace(b'%', b'%%') if False else unhex(e[2])))
            res.append(s)
    return res

def engine_scripts(rnd, n, seed):
    import enginecheck as ec
    hists = [ec.gen_history(rnd, 'S%d_%d' % (seed, i), rnd.randrange(2, 9), rnd.randrange(1, 4), feat=dict(dyndep=0.2), faults=0.3) for i in range(n)]
    rc, tr, err, out = ec.run_hists(hists)
    return from_engine(rnd, tr)

# ------------------------------------------------------------------------------ running both sides
def _run(binary, args, lines, timeout=600):
    rc, out, err = vlib.run_lines(binary, args[0], lines, timeout=timeout) if args else (None, None, None)
    return rc, out, err

def _run_model(binary, lines, timeout=600):
    data = ('\n'.join(lines) + '\n').encode()
    p = subprocess.run([binary], input=data, stdout=subprocess.PIPE, stderr=subprocess.PIPE, timeout=timeout)
    return p.returncode, p.stdout.decode().split('\n')[:-1], p.stderr.decode(errors='replace')

def compare(scripts, flavor='plain', model_run=None, chunk=200, workers=8):
    """returns (mismatches, stats); a mismatch is (script, text)"""
    impl = impl_binary(flavor); model = model_binary(model_run)
    groups = [scripts[i:i + chunk] for i in range(0, len(scripts), chunk)]
    def work(group):
        bad = []; res = []
        lines = []
        for s in group: lines += s.lines()
        rc, out, err = vlib.run_lines(impl, 'status', lines)
        if rc != 0:
            return [(group[0], 'impl_run status failed rc=%s: %s' % (rc, err[-400:]))], []
        times = collections.defaultdict(list); ires = {}
        cur = []
        for l in out:
            if l.startswith('time '): cur.append(l)
            elif l.startswith('result '):
                w = l.split()
                ires[w[1]] = dict(x.split('=', 1) for x in w[2:]); times[w[1]] = cur; cur = []
        mlines = []
        for s in group: mlines += s.lines(times.get(s.sid, ()))
        rc, mout, merr = _run_model(model, mlines)
        if rc != 0:
            return [(group[0], 'status_run failed rc=%s: %s' % (rc, merr[-400:]))], []
        mres = {}
        for l in mout:
            w = l.split()
            if w and w[0] == 'result': mres[w[1]] = dict(x.split('=', 1) for x in w[2:])
        for s in group:
            i, m = ires.get(s.sid), mres.get(s.sid)
            if i is None or m is None:
                bad.append((s, 'no result line (impl %s, model %s)' % (i is not None, m is not None))); continue
            irc = int(i['rc'])
            if irc not in (0, 1): bad.append((s, 'the real StatusPrinter died: rc=%d stderr=%r' % (irc, unhex(i['err'])[-300:]))); continue
            if (irc == 1) != (m['dead'] == '1'): bad.append((s, 'Fatal: impl rc=%d model dead=%s' % (irc, m['dead']))); continue
            if i['out'] != m['out']:
                a, b_ = unhex(i['out']), unhex(m['out'])
                k = next((x for x in range(min(len(a), len(b_))) if a[x] != b_[x]), min(len(a), len(b_)))
                s.impl_out = a            # the model-free block oracle still judges what the real StatusPrinter printed
                bad.append((s, 'stdout differs at byte %d: impl %r model %r' % (k, a[max(0, k - 30):k + 30], b_[max(0, k - 30):k + 30]))); continue
            if i['err'] != m['err']:
                bad.append((s, 'stderr differs: impl %r model %r' % (unhex(i['err'])[:200], unhex(m['err'])[:200]))); continue
            res.append((s, unhex(i['out']), irc))
        return bad, res
    bad = []; good = []
    with concurrent.futures.ThreadPoolExecutor(max_workers=workers) as ex:
        for b, r in ex.map(work, groups): bad += b; good += r
    st = collections.Counter()
    for s, out, irc in good:
        st['compared'] += 1
        st['kind_' + s.kind] += 1
        st['tty' if s.tty else 'dumb'] += 1
        st['verb%d' % s.verb] += 1
        if valid(s): st['valid'] += 1
        if in_theorem_domain(s) and not s.tty and s.verb != 0 and irc == 0: st['in_domain_of_C20_console_parsed'] += 1
        if irc == 1: st['fatal'] += 1
        if any(e.console for e in s.edges) and any(c[0] == 'started' and s.edges[c[1]].console for c in s.calls): st['with_console_edge'] += 1
        if any(c[0] == 'finished' and c[2] != 0 for c in s.calls): st['with_failure'] += 1
        if any(c[0] == 'finished' and b'\x00' in c[3] for c in s.calls): st['with_nul_output'] += 1
        if any(c[0] == 'finished' and b'\x1b' in c[3] for c in s.calls): st['with_esc_output'] += 1
        if any(c[0] == 'finished' and c[3] and not c[3].endswith(b'\n') for c in s.calls): st['with_unterminated_output'] += 1
        if s.time_keys(): st['with_time_placeholder'] += 1
        if s.ev is not None: st['with_status_option'] += 1
        st['calls'] += len(s.calls)
        st['stdout_bytes'] += len(out)
    return bad, dict(st), good

def compare_fn(component, model_arg, lines, flavor='plain', model_run=None):
    """bulk comparison of a pure function (elide / strip)"""
    impl = impl_binary(flavor); model = model_binary(model_run)
    rc, iout, ierr = vlib.run_lines(impl, component, lines)
    p = subprocess.run([model, model_arg], input=('\n'.join(lines) + '\n').encode(), stdout=subprocess.PIPE, stderr=subprocess.PIPE)
    mout = p.stdout.decode().split('\n')[:-1]
    bad = []
    if rc != 0 or p.returncode != 0 or len(iout) != len(lines) or len(mout) != len(lines):
        return [('%s: run failed (impl rc=%s %d lines, model rc=%s %d lines) %s' % (component, rc, len(iout), p.returncode, len(mout), ierr[-300:]))]
    for l, a, b in zip(lines, iout, mout):
        if a != b: bad.append('%s %s: impl %s model %s' % (component, l, a, b))
    return bad

def elide_cases(rnd, n):
    L = []
    alpha = [0x1b, 0x5b, 0x6d, 0x30, 0x31, 0x3b, 0x61, 0x62, 0x4b, 0x20]
    for _ in range(n):
        k = rnd.choice([0, 1, 2, 3, 4, 5, 6, 8, 12, 20, 40])
        r = rnd.random()
        if r < 0.4: s = bytes(rnd.choice(alpha) for _ in range(k))
        elif r < 0.7:
            s = b''
            while len(s) < k: s += rnd.choice([b'ab', b'c', b'\x1b[31m', b'\x1b[0m', b'\x1b[1;32m', b'\x1b[K', b'\x1b', b'\x1b[', b' '])
        else: s = bytes(rnd.choice(b'abcdefghij') for _ in range(k))
        L.append('%d %s' % (rnd.choice([0, 1, 2, 3, 4, 5, 6, 7, 9, 13, 30]), hexs(s)))
    return L

def strip_cases(rnd, n):
    L = []
    alpha = [0x1b, 0x5b, 0x6d, 0x30, 0x3b, 0x61, 0x5a, 0x7b, 0x40, 0x0a, 0]
    for _ in range(n):
        L.append(hexs(bytes(rnd.choice(alpha) for _ in range(rnd.choice([0, 1, 2, 3, 4, 6, 10, 25])))))
    return L

def main():
    a = sys.argv[1:]
    cmd = a[0] if a else 'selftest'
    n = int(a[1]) if len(a) > 1 else 6000
    seed = int(a[2]) if len(a) > 2 else 1
    rnd = random.Random(seed)
    if cmd == 'elide':
        bad = compare_fn('status_elide', 'elide', elide_cases(rnd, n)); print('\n'.join(bad[:10])); print('elide: %d cases, %d differences' % (n, len(bad))); sys.exit(1 if bad else 0)
    if cmd == 'strip':
        bad = compare_fn('status_strip', 'strip', strip_cases(rnd, n)); print('\n'.join(bad[:10])); print('strip: %d cases, %d differences' % (n, len(bad))); sys.exit(1 if bad else 0)
    import time
    t0 = time.time()
    scripts = [gen_synthetic(rnd, 'Y%d' % i) for i in range(n * 6 // 10)] + [gen_arbitrary(rnd, 'A%d' % i) for i in range(n * 2 // 10)]
    try:
        scripts += engine_scripts(rnd, max(1, n // 12), seed)
    except Exception as ex:
        print('engine traces unavailable: %r' % (ex,))
    bad, st, good = compare(scripts)
    for s, t in bad[:8]:
        print('MISMATCH %s: %s' % (s.sid, t)); print(s.text())
    print('statistics:', st)
    print('%d scripts, %d mismatches, %.1fs' % (len(scripts), len(bad), time.time() - t0))
    sys.exit(1 if bad else 0)

if __name__ == '__main__':
    main()
