#!/usr/bin/env python3
"""Regenerates MANIFEST.json from the table below (kept in one place so it is always valid)."""
import json, os
V = os.path.dirname(os.path.dirname(os.path.abspath(__file__)))
TB = 'Trusted: Coq 8.16.1 kernel; extraction (ExtrOcamlBasic only) + OCaml driver; the C++ correspondence harness and python oracles; g++/ASan. The theorem is about a hand-written Gallina model; the tie to /repo is differential (sampled/exhaustive-bounded), see DESIGN.md section 7.'
CLAIMED = {
 'C14': dict(cat='proof', technique='Coq proof (canon = lexical normal form, exactness, idempotence...) + exhaustive correspondence with CanonicalizePath',
             text='Unbounded Coq theorems about the model of CanonicalizePath; model tied to the code by exhaustive comparison over {a,b,.,/}^<=9 (quick) plus random long paths under ASan; independent python normaliser as property oracle.',
             ref='8 C14'),
}
PENDING = {}
ids = [json.loads(l)['id'] for l in open(os.path.join(V, 'properties.jsonl'))]
checks = []
for i in ids:
    if i in CLAIMED:
        c = CLAIMED[i]
        checks.append(dict(property_id=i, quick_cmd='tools/check %s --tier quick' % i,
                           thorough_cmd='tools/check %s --tier thorough' % i,
                           evidence_file='/verif/evidence/%s.json' % i,
                           replay_cmd_template='tools/check %s --replay {path}' % i,
                           engine='coq-model+correspondence',
                           level_claimed=dict(category=c['cat'], text=c['text'], design_ref='DESIGN.md ' + c['ref']),
                           level_note=c.get('note', TB), technique=c['technique']))
na = [dict(property_id=i, reason=PENDING.get(i, 'check not built yet in this revision of /verif (planned in DESIGN.md section 8; the technique applies)')) for i in ids if i not in CLAIMED]
m = dict(version=1, setup_cmd='tools/setup',
         hooks=dict(guard='NINJA_VERIF_HOOKS', enable='checks compile /repo/src themselves with -DNINJA_VERIF_HOOKS (tools/vlib.py build_impl); no hook commits exist, observation goes through ninja\'s virtual interfaces',
                    baseline_off_cmd='cmake --build /repo/_build && ctest --test-dir /repo/_build -j8 --timeout 900',
                    source_commits=[], add_only=True),
         engines=[dict(name='coq-model+correspondence', path='/verif/tools/check', serves_properties=sorted(CLAIMED),
                       kind_free_text='Coq 8.16 theorems about hand-written Gallina models (coq/), extracted to OCaml (model_run) and compared with the real code compiled from /repo (harness/impl_run.cc) on generated scenarios; python property oracles')],
         checks=checks, not_applicable=na,
         notes='See DESIGN.md. Replays are written under /verif/out/replays/. known_findings.txt lists genuine defects of the pinned tree.')
json.dump(m, open(os.path.join(V, 'MANIFEST.json'), 'w'), indent=1)
print('claimed', sorted(CLAIMED), 'not claimed', len(na))
