#!/usr/bin/env python3
"""Regenerates MANIFEST.json from the table below (kept in one place so it is always valid)."""
import json, os
V = os.path.dirname(os.path.dirname(os.path.abspath(__file__)))
TB = 'Trusted: Coq 8.16.1 kernel; extraction (ExtrOcamlBasic only) + OCaml driver; the C++ correspondence harness and python oracles; g++/ASan. The theorem is about a hand-written Gallina model; the tie to /repo is differential (sampled/exhaustive-bounded), see DESIGN.md section 7.'
CLAIMED = {
 'C14': dict(cat='proof', technique='Coq proof (canon = lexical normal form, exactness, idempotence...) + exhaustive correspondence with CanonicalizePath',
             text='Unbounded Coq theorems about the model of CanonicalizePath; model tied to the code by exhaustive comparison over {a,b,.,/}^<=9 (quick) plus random long paths under ASan; independent python normaliser as property oracle.',
             ref='8 C14'),
 'C15': dict(cat='proof', technique='Coq proof (parse(render names) = names for every layout; rejects; scanner bounds) + exhaustive raw-string correspondence with DepfileParser',
             text='Unbounded Coq theorems (C15_roundtrip, C15_rules, C15_rejects_*, C13_depfile_bounds) about a transliteration of the re2c scanner; tied to the compiled parser by exhaustive comparison on all byte strings of length <=5 over the structural alphabet plus random long inputs under ASan; an independent python encoder of the GCC dialect is the names-in = names-out oracle.',
             ref='8 C15'),
 'C16': dict(cat='proof', technique='Coq proof (sh_words(shell_escape n) = [n], lists, verbatim, no unquoted metacharacter) + correspondence with Edge::EvaluateCommand and with the real /bin/sh',
             text='Unbounded Coq theorems about the escaper model and a model of sh word splitting; the escaper model is tied to the real EvaluateCommand path exhaustively on short names, the sh model to the real /bin/sh (argv observed by a helper); rspfile lifetime/content is exercised through the real ninja binary (partial: not a theorem).',
             ref='8 C16'),
}
PENDING = {}
ids = [json.loads(l)['id'] for l in open(os.path.join(V, 'properties.jsonl'))]
checks = []
for i in ids:
    if i in CLAIMED:
        c = CLAIMED[i]
        checks.append(dict(property_id=i, quick_cmd='tools/check %s --tier quick' % i,
                           thorough_cmd='tools/check %s --tier thorough' % i,
                           evidence_file='/verif/evidence/%s.json' % i,
                           replay_cmd_template='tools/check %s --replay {path}' % i,
                           engine='coq-model+correspondence',
                           level_claimed=dict(category=c['cat'], text=c['text'], design_ref='DESIGN.md ' + c['ref']),
                           level_note=c.get('note', TB), technique=c['technique']))
na = [dict(property_id=i, reason=PENDING.get(i, 'check not built yet in this revision of /verif (planned in DESIGN.md section 8; the technique applies)')) for i in ids if i not in CLAIMED]
m = dict(version=1, setup_cmd='tools/setup',
         hooks=dict(guard='NINJA_VERIF_HOOKS', enable='checks compile /repo/src themselves with -DNINJA_VERIF_HOOKS (tools/vlib.py build_impl); no hook commits exist, observation goes through ninja\'s virtual interfaces',
                    baseline_off_cmd='cmake --build /repo/_build && ctest --test-dir /repo/_build -j8 --timeout 900',
                    source_commits=[], add_only=True),
         engines=[dict(name='coq-model+correspondence', path='/verif/tools/check', serves_properties=sorted(CLAIMED),
                       kind_free_text='Coq 8.16 theorems about hand-written Gallina models (coq/), extracted to OCaml (model_run) and compared with the real code compiled from /repo (harness/impl_run.cc) on generated scenarios; python property oracles')],
         checks=checks, not_applicable=na,
         notes='See DESIGN.md. Replays are written under /verif/out/replays/. known_findings.txt lists genuine defects of the pinned tree.')
json.dump(m, open(os.path.join(V, 'MANIFEST.json'), 'w'), indent=1)
print('claimed', sorted(CLAIMED), 'not claimed', len(na))
