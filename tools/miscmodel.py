"""Correspondence of the Coq models of the two small readers of external bytes (coq/Misc) with the real code:
  clparser  : CLParser::Parse (src/clparser.cc, non-Windows branch)      vs extracted [cl_parse]
  makeflags : Jobserver::ParseMakeFlagsValue / ParseNativeMakeFlagsValue   vs extracted [parse_makeflags] /
              [parse_native_makeflags] (glibc sscanf("%d,%d") included)
Both sides get the same lines (harness/run_misc.cc under ASan/UBSan, extract/misc_run.ml); the answers are
compared line by line after canonicalisation (the include set is sorted on both sides).
Use from a property module:  import miscmodel; miscmodel.hook(ctx)
Standalone:                  python3 tools/miscmodel.py <seed> <n>"""
import itertools, os, random, sys, time
sys.path.insert(0, os.path.dirname(os.path.abspath(__file__)))
import vlib
from vlib import hexs

ENGLISH = b'Note: including file: '
PREFIXES = [b'', b'', ENGLISH, b'Remarque : inclusion du fichier : ', b'Hinweis: Einlesen der Datei: ', b'P', b'Pq', b'  ', b'No']
EOLS = [b'\r\n', b'\n', b'\r', b'\n\r', b'\r\r\n', b'\n\n']

def gen_clparser(rnd, n, quick):
    """-> list of (class, output bytes, prefix bytes)"""
    cases = []
    paths = [b'foo.h', b'a/./b/../c.h', b'../x/y.h', b'/usr/include/stdio.h', b'C:\\Program Files\\x.h', b'c:/program files (x86)/a.h',
             b'D:\\Microsoft Visual Studio\\VC\\include\\vector', b'a//b.h', b'./', b'..', b'/', b'a/..', b'x y.h', b'sub/../sub/h.h',
             b'foo.h ', b'PROGRAM FILES', b'b.cc', b'\0z.h', b'a\0b/../c']
    srcs = [b'foo.cc', b'FOO.CPP', b'x.c', b'y.cxx', b'z.c++', b'.c', b'a.cc ', b'foo.h', b'main.C', b'dir/bar.cpp']
    def line(pre):
        p = pre if pre else ENGLISH
        k = rnd.random()
        if k < 0.30: return p + b' ' * rnd.choice([0, 0, 1, 1, 2, 5]) + rnd.choice(paths)
        if k < 0.36: return p                                   # prefix only
        if k < 0.42: return p + b' ' * rnd.randrange(1, 4)       # prefix + spaces only
        if k < 0.46: return p[:-1] if p else b''                 # one short
        if k < 0.52: return ENGLISH + rnd.choice(paths)          # English line under a localized prefix
        if k < 0.66: return rnd.choice(srcs)
        if k < 0.72: return b''
        if k < 0.78: return b' ' + p + rnd.choice(paths)         # prefix not at the start
        if k < 0.90: return rnd.choice([b'warning C4100: unreferenced', b'foo.cc(12): error C2065', b'   Creating library', b'hello world', b'x'])
        return bytes(rnd.choice(b'ab .cP:/\\\0') for _ in range(rnd.randrange(0, 12)))
    for _ in range(n):
        pre = rnd.choice(PREFIXES)
        eol = rnd.choice(EOLS + [None, None])
        ls = [line(pre) for _ in range(rnd.choice([0, 1, 1, 2, 3, 5, 8, 20]))]
        out = b''.join(l + (eol if eol is not None else rnd.choice(EOLS)) for l in ls)
        if ls and rnd.random() < 0.3: out = out.rstrip(b'\r\n')     # no terminator on the last line
        if rnd.random() < 0.1: out = rnd.choice(EOLS) + out
        cases.append(('structured', out, pre))
    toks = [ENGLISH, b'\r', b'\n', b'\r\n', b'foo.h', b' ', b'C:\\Program Files\\x.h', b'Remarque : ', b'.cc', b'.cc\n', b'\0', b'P', b'a/../', b'./',
            b'microsoft visual STUDIO', b'.c++', b'..', b'/']
    for _ in range(n):
        out = b''.join(rnd.choice(toks) if rnd.random() < 0.85 else bytes(rnd.randrange(256) for _ in range(rnd.randrange(1, 4))) for _ in range(rnd.randrange(0, 14)))
        pre = rnd.choice([b'', ENGLISH, b'Remarque : ', b'P', bytes(rnd.randrange(256) for _ in range(rnd.randrange(1, 4)))])
        cases.append(('soup', out, pre))
    # exhaustive short outputs aimed at the case splits: line ends x prefix x spaces x source echo
    L = 5 if quick else 7
    for k in range(0, L + 1):
        for t in itertools.product(b'P \r\n.c', repeat=k):
            cases.append(('exhaustive', bytes(t), b'P'))
    for k in range(0, L):
        for t in itertools.product(b'Pq \r\n', repeat=k):
            cases.append(('exhaustive', bytes(t), b'Pq'))
    return cases

def gen_makeflags(rnd, n, quick):
    cases = []
    nums = ['0', '1', '3', '4', '-1', '-0', '+5', '007', '2147483647', '2147483648', '-2147483648', '-2147483649', '4294967295', '4294967296', '4294967299',
            '9223372036854775807', '9223372036854775808', '-9223372036854775808', '-9223372036854775809', '18446744073709551615', '18446744073709551616',
            '99999999999999999999999999', '-99999999999999999999999999', '', '-', '+', '0x10', '1e3', '\n7', '\v\f\r8', '--1', '+-1', '1.5']
    def pair():
        a, b = rnd.choice(nums), rnd.choice(nums)
        sep = rnd.choice([',', ',', ',', ',', ',,', ';', '', ',\n', '\n,', ' ,', ',\t'])
        return a + sep + b + rnd.choice(['', '', '', 'x', ',5', '\n', ' junk'])
    def arg():
        k = rnd.random()
        if k < 0.25: return '--jobserver-auth=' + pair()
        if k < 0.45: return '--jobserver-fds=' + pair()
        if k < 0.60: return '--jobserver-auth=fifo:' + rnd.choice(['/tmp/x', '', '/a', 'fifo:', '3,4', '/with=eq', '/p\x01q'])
        if k < 0.68: return '--jobserver-auth=' + rnd.choice(['gmake_sem_1234', '', 'fifo', 'FIFO:/x', 'fif', '3', '3,'])
        if k < 0.74: return rnd.choice(['--jobserver-auth', '--jobserver-fds', '-jobserver-auth=3,4', '--jobserver-fds', '--jobserver-auth =3,4', ' --jobserver-auth=3,4', '--Jobserver-auth=3,4'])
        return rnd.choice(['-j', '-j4', '-j3', '-k', '--no-print-directory', '-l2.5', '--', 'n', '-n', 'VAR=n', '-Otarget', '-'])
    firsts = ['', '', ' ', 'ks', 'kn', 'n', 'nk', '-n', '-kn', 'w', '--jobserver-auth=3,4n', 'x--jobserver-auth=3,4', '\t', 'N', 'j', '-', '\tn', ' n', '--n', 'a-n']
    for _ in range(n):
        parts = [rnd.choice(firsts)] + [arg() for _ in range(rnd.choice([0, 1, 1, 2, 2, 3, 5]))]
        sep = rnd.choice([' ', ' ', ' ', '\t', '  ', ' \t '])
        s = sep.join(parts)
        if rnd.random() < 0.15: s += rnd.choice([' ', '\t', '  '])
        cases.append(('structured', s.encode('latin1')))
    # the forms of the big comment in jobserver.cc
    for s in ['ks', ' -j', 'ks -j', 'ks -j3 --jobserver-auth=3,4', ' -j3 --jobserver-auth=3,4', '--jobserver-fds=3,4 --jobserver-auth=3,4',
              '-j --jobserver-fds=3,4 --jobserver-auth=3,4', ' -j3 --jobserver-auth=fifo:/tmp/GMfifo123', '--jobserver-auth=fifo:/a --jobserver-auth=-1,-1',
              '--jobserver-auth=fifo:/a --jobserver-fds=3,4', '--jobserver-fds=-1,-1', '--jobserver-auth=-1,-1', 'n --jobserver-auth=3,4', '-n --jobserver-auth=3,4',
              '--jobserver-auth=sem --jobserver-auth=fifo:/b', '--jobserver-auth=fifo:/b --jobserver-auth=sem', '--jobserver-fds=3 --jobserver-auth=fifo:/x', '']:
        cases.append(('comment-forms', s.encode()))
    mk = [b'-j', b'4', b' ', b'\t', b'--jobserver-auth=', b'--jobserver-fds=', b'fifo:', b'/tmp/x', b'3,4', b'-', b'n', b'=', b'\0', b'999999999999999999999', b'-1', b',', b'\n', b'+', b'2147483648']
    for _ in range(n):
        s = b''.join(rnd.choice(mk) if rnd.random() < 0.9 else bytes(rnd.randrange(256) for _ in range(2)) for _ in range(rnd.randrange(0, 10)))
        cases.append(('soup-nul' if b'\0' in s else 'soup', s))
    # exhaustive: the pair reader, and the word splitter / first-word rule
    L = 5 if quick else 6
    for k in range(0, L + 1):
        for t in itertools.product(b'1-+,\n9x', repeat=k):
            cases.append(('exhaustive-pair', (b'--jobserver-fds=' if (k + t.count(49)) % 2 else b'--jobserver-auth=') + bytes(t)))
    for k in range(0, L + 1):
        for t in itertools.product(b'n- \tj', repeat=k):
            cases.append(('exhaustive-words', bytes(t) + b' --jobserver-auth=fifo:/f'))
    return cases

def canon_cl(line):
    w = line.split()
    if len(w) == 3 and w[2] != '-': w[2] = ','.join(sorted(w[2].split(',')))
    return ' '.join(w)

def kind_cl(line):
    w = line.split()
    if len(w) != 3: return 'malformed-answer'
    ninc = 0 if w[2] == '-' else len(w[2].split(','))
    return '%s inc=%s out=%s' % (w[0], '0' if ninc == 0 else '1' if ninc == 1 else '2+', 'empty' if w[1] == '-' else 'nonempty')

def kind_mf(line):
    w = line.split()
    if len(w) != 8: return 'malformed-answer'
    return 'ok=%s native=%s mode=%s path=%s' % (w[0], w[1], w[2], 'empty' if w[3] == '-' else 'set')

def correspond(ctx, comp, impl, misc, cases, lines, canon, kind):
    """run both sides, compare; returns the coverage record"""
    classes, kinds = {}, {}
    for c in cases: classes[c[0]] = classes.get(c[0], 0) + 1
    rc, iout, ierr = vlib.run_lines(impl, comp, lines, timeout=180)
    if rc != 0 or len(iout) != len(lines):
        bad = lines[len(iout)] if len(iout) < len(lines) else '?'
        ctx.violation('misc-corr-' + comp, 'component %s\ncase %s\n' % (comp, bad),
                      '%s: the implementation died (rc=%s) at input %s: %s' % (comp, rc, bad[:200], ierr[-400:].replace('\n', ' ')))
        return dict(cases=len(lines), classes=classes, compared=0, mismatches=0, died=True)
    rc, mout, merr = vlib.run_lines(misc, comp, lines, timeout=180)
    if rc != 0 or len(mout) != len(lines):
        raise vlib.BuildError('misc_run %s failed (rc=%s): %s' % (comp, rc, merr[-500:]))
    bad = 0
    for l, a, b in zip(lines, iout, mout):
        k = kind(a); kinds[k] = kinds.get(k, 0) + 1
        if canon(a) != canon(b):
            bad += 1
            if bad <= 5:
                ctx.violation('misc-corr-' + comp, 'component %s\ncase %s\nimpl  %s\nmodel %s\n' % (comp, l, a, b),
                              '%s: model and implementation disagree on input %s: impl "%s" model "%s"' % (comp, l[:200], a[:200], b[:200]))
    return dict(cases=len(lines), classes=classes, compared=len(lines), mismatches=bad, kinds=kinds)

def hook(ctx, n=None):
    """the correspondence check of both readers; records ctx.cov['misc_clparser'] / ['misc_makeflags']"""
    q = ctx.quick()
    if n is None: n = 1500 if q else 30000
    impl = os.path.join(vlib.build_impl('asan'), 'impl_run')
    misc = os.path.join(os.path.dirname(vlib.build_model()), 'misc_run')
    if not os.path.exists(misc):
        raise vlib.BuildError('misc_run was not built (coq/ExtractMisc.v or extract/misc_run.ml missing)')
    rnd = random.Random(ctx.seed * 1013 + 131)
    cl = gen_clparser(rnd, n, q)
    mf = gen_makeflags(rnd, n, q)
    ctx.cov['misc_clparser'] = correspond(ctx, 'clparser', impl, misc, cl, ['%s %s' % (hexs(o), hexs(p)) for _, o, p in cl], canon_cl, kind_cl)
    ctx.cov['misc_makeflags'] = correspond(ctx, 'makeflags', impl, misc, mf, [hexs(s) for _, s in mf], lambda x: x, kind_mf)
    return ctx.cov['misc_clparser'], ctx.cov['misc_makeflags']

class _FakeCtx:
    def __init__(self, seed, quick=True):
        self.seed = seed; self.cov = {}; self.violations = []; self._q = quick; self.replay = None
    def quick(self): return self._q
    def violation(self, key, replay, msg):
        self.violations.append((key, replay, msg)); print('VIOLATION %s: %s\n%s' % (key, msg, replay))

if __name__ == '__main__':
    seed = int(sys.argv[1]) if len(sys.argv) > 1 else 1
    n = int(sys.argv[2]) if len(sys.argv) > 2 else None
    ctx = _FakeCtx(seed, quick=(len(sys.argv) <= 3 or sys.argv[3] != 'full'))
    t0 = time.time()
    hook(ctx, n)
    for k in ('misc_clparser', 'misc_makeflags'):
        c = ctx.cov[k]
        print('%s: %d cases, classes %s, mismatches %d' % (k, c['cases'], c['classes'], c['mismatches']))
        for kk, v in sorted(c.get('kinds', {}).items(), key=lambda x: -x[1]): print('    %7d  %s' % (v, kk))
    print('%d violation(s), %.1fs' % (len(ctx.violations), time.time() - t0))
    sys.exit(1 if ctx.violations else 0)
