#!/usr/bin/env python3
"""C12: grammar-based generator of manifest scenarios for the model/implementation comparison.

gen(seed, n) -> list of n scenario lines  "<root-name-hex> <k> <name1-hex> <content1-hex> ..."
("-" = empty string), the input format of `impl_run manifest` and of the model driver.

Every base manifest is a tree of files (root + include/subninja, nested up to 3 deep) built
from token lists: every statement form; variables shadowed at file / included file / subninja
/ rule / build level (reserved names included); all $-escapes, line continuations, CRLF,
comments, indentation variants, paths needing canonicalisation, the legacy self-referencing
phony form, pools, defaults, validations, dyndep, rspfile, ninja_required_version, $^.
Each base is followed by single-token mutations of it (delete / duplicate / swap a token, tab
indentation, bad escapes, stray CR / NUL, LF->CRLF)."""
import random, sys

RESERVED = ["command", "depfile", "dyndep", "description", "deps", "generator", "pool",
            "restat", "rspfile", "rspfile_content", "msvc_deps_prefix"]
PLAINVARS = ["x", "y", "cflags", "v.1", "a-b", "_u", "Z9"]
SPECIALS = ["in", "out", "in_newline"]


def hx(b):
    return b.hex() if b else "-"


def scenario(root, files):
    parts = [hx(root), str(len(files))]
    for name, content in files:
        parts += [hx(name), hx(content)]
    return " ".join(parts)


class Ctx:
    """what a file scope can see (approximation used only to bias towards valid manifests)"""
    def __init__(self, rules, variables, inherited=()):
        self.rules = list(rules)
        self.vars = list(variables)
        self.inherited = list(inherited)     # rules of enclosing scopes not yet redefined here


class Gen:
    def __init__(self, rng):
        self.r = rng
        self.files = []          # (name bytes, list of tokens (bytes))
        self.nfile = 0
        self.nout = 0
        self.nrule = 0
        self.npool = 0
        self.outputs = []        # path texts (as written) of outputs so far
        self.sources = ["a.c", "b.c", "lib/c.h", "gen.dd", "x y", "d:e"]
        self.pools = ["console"]
        self.used = []           # inputs/validations already mentioned by a build statement
        self.crlf = False
        self.version_ok = False
        self.caret_family = rng.random() < 0.06   # scenario about the scope of the $^ version gate

    # ----- lexical pieces -----
    def p(self, x):
        return self.r.random() < x

    def nl(self):
        if self.crlf:
            return b"\r\n" if not self.p(0.03) else b"\n"
        return b"\n" if not self.p(0.01) else b"\r\n"

    def sp(self):
        k = self.r.random()
        if k < 0.8:
            return b" "
        if k < 0.9:
            return b"  "
        if k < 0.95:
            return b" $" + self.nl() + b"   "
        return b"   "

    def indent(self):
        return b" " * self.r.choice([1, 2, 2, 2, 4, 8])

    def varref(self, ctx, in_rule):
        names = list(ctx.vars) + PLAINVARS[:3]
        if in_rule:
            names += SPECIALS * 3 + RESERVED[:4] + ["description", "depfile"]
        elif self.p(0.15):
            names += SPECIALS + RESERVED
        v = self.r.choice(names)
        k = self.r.random()
        if "." in v or k < 0.35:
            return b"${" + v.encode() + b"}"
        return b"$" + v.encode()

    def value_tokens(self, ctx, in_rule=False, short=False):
        toks = []
        n = self.r.choice([0, 1, 1, 2, 2, 3, 4] if not short else [0, 1, 1, 2])
        for i in range(n):
            k = self.r.random()
            if k < 0.30:
                toks.append(self.r.choice([b"gcc", b"-c", b"-Wall", b"echo", b"val", b"a.b", b"1", b"o",
                                           b"\xc3\xa9", b"'q'", b"a\tb", b"#no", b"=", b"x.$$"]))
            elif k < 0.60:
                toks.append(self.varref(ctx, in_rule))
            elif k < 0.66:
                toks.append(b"$$")
            elif k < 0.72:
                toks.append(b"$ ")
            elif k < 0.78:
                toks.append(b"$:")
            elif k < 0.84:
                toks.append(self.r.choice([b":", b"|", b"||", b"|@", b" : "]))
            elif k < 0.90:
                toks.append(b"$" + self.nl() + self.r.choice([b"", b"  ", b"      "]))
            elif k < 0.93:
                toks.append(b"$^" if (self.version_ok or self.p(0.04)) else b"$$^")
            else:
                toks.append(self.r.choice([b"$x.y", b"$x-y_z", b"${x}y", b"$x$y", b"a$ b"]))
            if i + 1 < n and self.p(0.6):
                toks.append(b" ")
        return toks

    def path_text(self, base, ctx):
        """one path token (bytes), written with escapes / noise that canonicalises to base"""
        t = base.replace("$", "$$").replace(" ", "$ ").replace(":", "$:").encode()
        k = self.r.random()
        if k < 0.55:
            return t
        if k < 0.63:
            return b"./" + t
        if k < 0.70:
            return b"d/../" + t
        if k < 0.75:
            return t.replace(b"/", b"//", 1) if b"/" in t else b".//" + t
        if k < 0.78:
            return t + b"/."
        if k < 0.80:
            return t + b"/"            # a single trailing slash is dropped by canonicalisation too
        if k < 0.85:
            return b"${pfx}" + t       # pfx usually undefined -> empty
        if k < 0.90:
            return t[:1] + b"$" + self.nl() + b"  " + t[1:]
        if k < 0.993:
            v = self.varref(ctx, False)
            if not v.startswith(b"${"):
                v = b"${" + v[1:] + b"}"
            return v + t
        return self.varref(ctx, False)

    def fresh_out(self):
        self.nout += 1
        return self.r.choice(["o%d", "out/o%d.o", "o%d.x", "b d/o%d", "../o%d"]) % self.nout

    def known_path(self):
        pool = self.sources + self.outputs
        return self.r.choice(pool)

    # ----- statements: each returns a list of tokens -----
    def let_tokens(self, name, valtoks):
        eq = self.r.choice([b" = ", b" = ", b"=", b" =", b"= ", b"  =   "])
        return [name.encode() if isinstance(name, str) else name, eq] + valtoks + [self.nl()]

    def stmt_var(self, ctx):
        k = self.r.random()
        if k < 0.06:
            v = self.r.choice([b"1.14", b"1.14.1", b"1.3", b"1.14", b"1.0", b"0.9", b"1", b" 1.14", b"1.14",
                               b"x", b"1.x", b"01.014", b"", b"-1.5", b"1.13.9", b"1.4294967297"] +
                              ([b"1.15", b"2.0", b"1.99999999999999999999", b"4294967297.0"] if self.p(0.15) else []))
            if v in (b"1.14", b"1.14.1", b"01.014"):
                self.version_ok = True
            return self.let_tokens("ninja_required_version", [v])
        if k < 0.10:
            if "pd" not in ctx.vars:
                ctx.vars.append("pd")
            return self.let_tokens("pd", [self.r.choice([b"3", b"5", b"$x"])])
        if k < 0.30:
            name = self.r.choice(RESERVED + SPECIALS)
        else:
            name = self.r.choice(PLAINVARS)
        if name == "pool" and self.p(0.7):
            val = [self.r.choice(self.pools).encode()]
        else:
            val = self.value_tokens(ctx)
        if name not in ctx.vars:
            ctx.vars.append(name)
        return self.let_tokens(name, val)

    def stmt_comment(self):
        k = self.r.random()
        if k < 0.5:
            return [b"# a comment $x $ : |", self.nl()]
        if k < 0.7:
            return [b"   ", b"# indented comment", self.nl()]
        if k < 0.85:
            return [self.nl()]
        return [b"  ", self.nl()]

    def stmt_pool(self, ctx):
        if self.p(0.06):
            name = self.r.choice(self.pools)
        else:
            self.npool += 1
            name = "pl%d" % self.npool
        toks = [b"pool", self.sp(), name.encode(), self.nl()]
        k = self.r.random()
        if k < 0.82:
            d = self.r.choice([b"0", b"1", b"4", b"16", b"007", b"2147483647", b"-0"])
        elif k < 0.88:
            d = self.r.choice([b"-1", b"abc", b"", b"4 ", b"+3", b"2147483648", b"99999999999999999999",
                               b"1.5", b"0x10", b"-", b"4x"])
        elif k < 0.93:
            d = self.r.choice([b"$pd", b"$pd", b"$x"])
        else:
            d = None
        if d is not None:
            toks += [self.indent()] + self.let_tokens("depth", [d])
            if self.p(0.1):
                toks += [self.indent()] + self.let_tokens("depth", [self.r.choice([b"3", b"z"])])
        if self.p(0.012):
            toks += [self.indent()] + self.let_tokens(self.r.choice(["x", "command"]), [b"1"])
        if name not in self.pools:
            self.pools.append(name)
        return toks

    def stmt_rule(self, ctx, force_name=None):
        if force_name:
            name = force_name
        elif ctx.inherited and self.p(0.35):
            name = self.r.choice(ctx.inherited)      # legal: shadows the parent's rule
            ctx.inherited = [x for x in ctx.inherited if x != name]
        elif self.p(0.012) and ctx.rules:
            name = self.r.choice(ctx.rules)
        elif self.p(0.012):
            name = "phony"
        else:
            self.nrule += 1
            name = self.r.choice(["r%d", "cc%d", "r.%d", "link-%d", "_%d"]) % self.nrule
        toks = [b"rule", self.sp(), name.encode(), self.nl()]
        ind = self.indent()
        binds = []
        if not self.p(0.012):
            binds.append(("command", self.value_tokens(ctx, True) or [b"cmd"]))
        if self.p(0.5):
            binds.append(("description", self.value_tokens(ctx, True)))
        if self.p(0.3):
            binds.append(("depfile", [self.r.choice([b"$out.d", b"${out}.d", b"dep$ file", b"$x.d"])]))
        if self.p(0.2):
            binds.append(("deps", [self.r.choice([b"gcc", b"msvc", b"$x"])]))
        k = self.r.random()
        if k < 0.2:
            binds.append(("rspfile", [self.r.choice([b"$out.rsp", b"r$ sp"])]))
            binds.append(("rspfile_content", self.value_tokens(ctx, True) or [b"$in"]))
        elif k < 0.206:
            binds.append(("rspfile", [b"$out.rsp"]))
        elif k < 0.212:
            binds.append(("rspfile_content", [b"$in_newline"]))
        elif k < 0.216:
            binds.append(("rspfile", []))
            binds.append(("rspfile_content", [b"c"]))
        elif k < 0.25:
            binds.append(("rspfile", [b"$undefined_var"]))
            binds.append(("rspfile_content", [b"$undefined_var"]))
        if self.p(0.2):
            binds.append(("pool", [(self.r.choice(self.pools) if self.p(0.85) else self.r.choice(["nopool", "", "$x", "$out"])).encode()]))
        if self.p(0.15):
            binds.append(("restat", [self.r.choice([b"1", b"", b"$x"])]))
        if self.p(0.1):
            binds.append(("generator", [b"1"]))
        if self.p(0.1):
            binds.append(("msvc_deps_prefix", [b"Note: $x"]))
        if self.p(0.1):
            binds.append(("dyndep", [self.r.choice([b"$dd", b"$dd", b"$dd", b"$dd", b"$dd", b"gen.dd", b"$in", b"${out}.dd"])]))
        if self.p(0.01):
            binds.append((self.r.choice(["x", "cflags", "in"]), [b"v"]))
        if self.p(0.015):   # cycles between rule variables
            binds.append(("description", [self.r.choice([b"$command", b"$description", b"a $depfile"])]))
            binds.append(("depfile", [self.r.choice([b"$description", b"$command"])]))
        if self.p(0.1) and binds:
            binds.append(self.r.choice(binds))       # same key twice: the last one wins
        self.r.shuffle(binds)
        for k_, v in binds:
            toks += [ind if not self.p(0.05) else self.indent()] + self.let_tokens(k_, v)
            if self.p(0.03):
                toks += self.stmt_comment()
        if name not in ctx.rules:
            ctx.rules.append(name)
        return toks

    def stmt_build(self, ctx):
        toks = [b"build", self.sp()]
        outs = []
        nouts = self.r.choice([1, 1, 1, 2, 3])
        for _ in range(nouts):
            if self.p(0.04) and self.outputs:
                outs.append(self.r.choice(self.outputs))
            elif self.p(0.03) and outs:
                outs.append(outs[0])
            else:
                outs.append(self.fresh_out())
        if self.p(0.012) and ctx.rules:
            rule = "norule"
        elif self.p(0.28) or not ctx.rules:
            rule = "phony"
        else:
            rule = self.r.choice(ctx.rules)
        phony_self = rule == "phony" and self.p(0.45)
        if phony_self:
            outs = outs[:1]
        for o in outs:
            toks += [self.path_text(o, ctx), self.sp()]
        if self.p(0.2) and not phony_self:
            toks += [b"|", self.sp()]
            for _ in range(self.r.choice([0, 1, 2])):
                o = self.fresh_out()
                outs.append(o)
                toks += [self.path_text(o, ctx), self.sp()]
        if self.p(0.008):
            toks = toks[:2]      # no output at all
        toks += [b":" if not self.p(0.1) else b": ", self.r.choice([b"", b" ", b" "]), rule.encode()]
        ins = []

        def some_inputs(kmax):
            l = []
            for _ in range(self.r.choice(range(kmax + 1))):
                q = self.known_path() if not self.p(0.1) else self.fresh_out()
                l.append(q)
            return l
        valids = []
        ex = some_inputs(3)
        if phony_self and self.p(0.5):
            ex.insert(self.r.randrange(len(ex) + 1), outs[0])
        written = []
        def emit(q):
            t = self.path_text(q, ctx)
            written.append(t)
            return t
        for q in ex:
            toks += [self.sp(), emit(q)]
        ins += ex
        if self.p(0.3) and not (phony_self and self.p(0.8)):
            toks += [self.sp(), b"|"]
            im = some_inputs(2)
            if phony_self and self.p(0.5):
                im.append(outs[0])
            for q in im:
                toks += [self.sp(), emit(q)]
            ins += im
        if self.p(0.3) or (phony_self and self.p(0.6)):
            toks += [self.sp(), b"||"]
            oo = some_inputs(2)
            if phony_self:
                oo.insert(self.r.randrange(len(oo) + 1), outs[0])
            for q in oo:
                toks += [self.sp(), emit(q)]
            ins += oo
        if self.p(0.2):
            toks += [self.sp(), b"|@"]
            for q in some_inputs(2):
                toks += [self.sp(), self.path_text(q, ctx)]
                valids.append(q)
        if self.p(0.1):
            toks += [self.r.choice([b" ", b"  "])]
        toks += [self.nl()]
        if self.p(0.42):
            ind = self.indent()
            for _ in range(self.r.choice([1, 1, 2, 3])):
                k = self.r.random()
                if k < 0.25:
                    name, val = self.r.choice(PLAINVARS + list(ctx.vars)), self.value_tokens(ctx, False, True)
                elif k < 0.40:
                    name, val = "pool", [(self.r.choice(self.pools + [""]) if self.p(0.9) else self.r.choice(["nopool", "$x"])).encode()]
                elif k < 0.60 and ins:
                    name = "dyndep"
                    val = [self.r.choice(written)] if self.p(0.93) else [b"gen.dd"]
                elif k < 0.70:
                    name, val = "description", self.value_tokens(ctx, False, True)
                elif k < 0.75:
                    name, val = "dd", [self.r.choice(ins).replace(" ", "$ ").replace(":", "$:").encode() if ins else b"q"]
                elif k < 0.80:
                    name, val = self.r.choice(SPECIALS), [b"shadow"]
                elif k < 0.85:
                    name, val = "pfx", [self.r.choice([b"", b"p/", b"./"])]
                else:
                    name, val = self.r.choice(RESERVED), self.value_tokens(ctx, False, True)
                toks += [ind if not self.p(0.05) else self.indent()] + self.let_tokens(name, val)
                if self.p(0.03):
                    toks += self.stmt_comment()
            if self.p(0.35):
                # a chain inside the block: the second right-hand side mentions the first name
                n1, n2 = self.r.sample(["x", "y", "cflags"], 2)
                toks += [ind] + self.let_tokens(n1, [b"blk" + str(self.nout).encode()])
                toks += [ind] + self.let_tokens(n2, [b"<", b"${" + n1.encode() + b"}", b">"])
        for o in outs:
            if o not in self.outputs:
                self.outputs.append(o)
        for q in ins:
            if q not in self.sources and q not in self.outputs:
                self.sources.append(q)
            if q not in self.used:
                self.used.append(q)
        for q in valids:
            if q not in self.used and self.p(0.7):
                self.used.insert(0, q)
        return toks

    def stmt_default(self, ctx):
        if not self.outputs and not self.p(0.1):
            return self.stmt_comment()
        toks = [b"default"]
        k = self.r.choice([1, 1, 1, 2, 3]) if not self.p(0.015) else 0
        for _ in range(k):
            if self.p(0.97) and (self.outputs or self.used):
                q = self.r.choice(self.used) if (self.p(0.3) and self.used) or not self.outputs else self.r.choice(self.outputs)
            else:
                q = "nosuch"
            toks += [self.sp(), self.path_text(q, ctx)]
        if self.p(0.03):
            toks += [self.r.choice([b" :", b" |", b" = x"])]
        return toks + [self.nl()]

    def stmt_include(self, ctx, depth):
        sub = self.p(0.55)
        if self.p(0.05):
            name = b"missing.ninja"
        else:
            child_ctx = Ctx(ctx.rules, ctx.vars, ctx.rules) if sub else ctx
            name = self.gen_file(child_ctx, depth + 1)
        shown = name.replace(b" ", b"$ ")
        if self.p(0.1) and b"/" not in name:
            shown = b"${nodir}" + shown
        toks = [b"subninja" if sub else b"include", self.sp(), shown]
        if self.p(0.03):
            toks += [b" extra"]
        return toks + [self.nl()]

    def gen_file(self, ctx, depth):
        self.nfile += 1
        name = (self.r.choice(["f%d.ninja", "sub/f%d.ninja", "f %d.ninja", "F%d"]) % self.nfile).encode()
        if depth == 0:
            name = b"build.ninja"
        saved_crlf = self.crlf
        self.crlf = self.p(0.2)
        toks = []
        entry = (name, toks)
        self.files.append(entry)
        nst = self.r.choice([2, 3, 4, 5, 6, 8, 10]) if depth == 0 else self.r.choice([1, 2, 3, 4, 5])
        if self.caret_family:
            if self.p(0.5):
                toks += self.let_tokens("ninja_required_version", [self.r.choice([b"1.14", b"1.14", b"1.13", b"1.0"])])
            if self.p(0.6):
                toks += self.let_tokens(self.r.choice(["x", "y"]), [b"a$^b"])
        if depth == 0 and self.p(0.8):
            toks += self.stmt_rule(ctx)
        for _ in range(nst):
            k = self.r.random()
            if k < 0.20:
                toks += self.stmt_var(ctx)
            elif k < 0.36:
                toks += self.stmt_rule(ctx)
            elif k < 0.70:
                toks += self.stmt_build(ctx)
            elif k < 0.76:
                toks += self.stmt_pool(ctx)
            elif k < 0.83:
                toks += self.stmt_default(ctx)
            elif k < 0.92 or (self.caret_family and k < 0.97):
                if depth < 3 and self.nfile < 6:
                    toks += self.stmt_include(ctx, depth)
                else:
                    toks += self.stmt_var(ctx)
            else:
                toks += self.stmt_comment()
        if self.p(0.04) and toks and toks[-1] in (b"\n", b"\r\n"):
            toks.pop()           # no newline at end of file
        self.crlf = saved_crlf
        return name


BAD_TAILS = [b"$", b"$!", b"${", b"${x", b"${}", b"$\r", b"$(", b"$ $", b"$\t", b"\r", b"\x00", b"\t",
             b"$^", b"$$", b"$:", b"#", b"|", b":", b"=", b"$\n", b"${a.b}", b"$a.b"]


def mutations(rng, files, cap):
    """single-token mutations of a base scenario; returns list of file lists"""
    res = []
    cands = []
    for fi, (name, toks) in enumerate(files):
        for ti in range(len(toks)):
            cands.append((fi, ti))
    if not cands:
        return res
    ops = []
    for (fi, ti) in cands:
        toks = files[fi][1]
        ops.append(("del", fi, ti))
        ops.append(("dup", fi, ti))
        if ti + 1 < len(toks):
            ops.append(("swap", fi, ti))
        t = toks[ti]
        if t and t.strip(b" ") == b"":
            ops.append(("tab", fi, ti))
        if t in (b"\n",):
            ops.append(("crlf", fi, ti))
            ops.append(("cr", fi, ti))
        ops.append(("bad", fi, ti))
    rng.shuffle(ops)
    for op, fi, ti in ops[:cap]:
        new = [(n, list(t)) for n, t in files]
        toks = new[fi][1]
        if op == "del":
            del toks[ti]
        elif op == "dup":
            toks.insert(ti, toks[ti])
        elif op == "swap":
            toks[ti], toks[ti + 1] = toks[ti + 1], toks[ti]
        elif op == "tab":
            toks[ti] = rng.choice([b"\t", b" \t", b"\t ", toks[ti] + b"\t"])
        elif op == "crlf":
            toks[ti] = b"\r\n"
        elif op == "cr":
            toks[ti] = b"\r"
        elif op == "bad":
            tail = rng.choice(BAD_TAILS)
            k = rng.random()
            if k < 0.5:
                toks[ti] = toks[ti] + tail
            elif k < 0.8:
                toks[ti] = tail + toks[ti]
            else:
                toks[ti] = tail
        res.append(new)
    return res


def render(files):
    return scenario(b"build.ninja", [(n, b"".join(t)) for n, t in files])


def gen_base(rng):
    g = Gen(rng)
    ctx = Ctx([], [])
    g.gen_file(ctx, 0)
    return g.files


def gen_special():
    """deterministic families that random generation reaches too rarely: every interesting
    pool-depth string, every ninja_required_version string, and the scope of the $^ version
    gate over include/subninja structures"""
    out = []
    rule = b"rule r\n  command = c\n"
    for d in [b"0", b"1", b"16", b"007", b"2147483647", b"2147483648", b"-0", b"-00", b"-1", b"+3", b"+0",
              b"", b" 4", b"4 ", b"4x", b"x4", b"0x10", b"1.5", b"-", b"+", b"99999999999999999999",
              b"-2147483648", b"-2147483649", b"$d", b"$$", b"4$ ", b"1e3", b"\t4"]:
        text = b"d = 5\npool p\n  depth = " + d + b"\n" + rule + b"build o: r\n  pool = p\n"
        out.append(scenario(b"build.ninja", [(b"build.ninja", text)]))
    for v in [b"1.14", b"1.14.0", b"1.14.1.git", b"1.13", b"1.13.99", b"1.15", b"1.140", b"2", b"2.0", b"0.9",
              b"0", b"1", b"1.", b".14", b"", b"x", b"1.x", b" 1.14", b"1. 14", b"\t1.14", b"+1.14", b"+1.+14",
              b"-1.14", b"1.-14", b"01.014", b"1.99999999999999999999", b"99999999999999999999.0",
              b"4294967297.14", b"1.4294967310", b"1.4294967311", b"-4294967295.99", b"1.14abc", b"1abc.99",
              b"9223372036854775807.0", b"9223372036854775808.0", b"1.9223372036854775807",
              b"-9223372036854775809.0", b"$v", b"1.$m"]:
        text = b"v = 1.14\nm = 14\nninja_required_version = " + v + b"\nx = a$^b\n" + rule + \
               b"build o: r\n  description = $x\n"
        out.append(scenario(b"build.ninja", [(b"build.ninja", text)]))
    decl, use = b"ninja_required_version = 1.14\n", b"x = a$^b\n"
    low = b"ninja_required_version = 1.0\n"
    tail = rule + b"build o: r\n  description = $x\n"
    for kw1 in (b"include", b"subninja"):
        for kw2 in (b"include", b"subninja"):
            for a in (b"", decl, use, decl + use, use + decl, low + use, decl + low + use):
                for b in (b"", use, decl + use, low + use):
                    for r0 in (b"", decl):
                        for r1 in (b"", use):
                            root = r0 + kw1 + b" a.ninja\n" + r1 + kw2 + b" b.ninja\n" + r1 + tail
                            out.append(scenario(b"build.ninja", [(b"build.ninja", root), (b"a.ninja", a),
                                                                 (b"b.ninja", b)]))
            # nesting: root -> a -> c, then root -> b -> c'
            for a in (decl, b""):
                for c in (decl, use, b""):
                    for c2 in (use, b""):
                        root = kw1 + b" a.ninja\n" + kw2 + b" b.ninja\n" + tail
                        out.append(scenario(b"build.ninja", [
                            (b"build.ninja", root), (b"a.ninja", a + b"include c.ninja\n"), (b"c.ninja", c),
                            (b"b.ninja", b"subninja d.ninja\n"), (b"d.ninja", c2)]))
    # include cycles and the depth limit (200 nested files): the error names the file at depth
    # 200 and the line of its include statement
    for kw in (b"include", b"subninja"):
        out.append(scenario(b"build.ninja", [(b"build.ninja", kw + b" build.ninja\n")]))
        out.append(scenario(b"build.ninja", [(b"build.ninja", b"x = 1\n\n" + rule + kw + b" ./build.ninja\n" + kw + b" build.ninja\n")]))
        out.append(scenario(b"build.ninja", [(b"build.ninja", kw + b" a.ninja\n"),
                                             (b"a.ninja", b"y = 2\n" + kw + b" build.ninja\n")]))
        out.append(scenario(b"build.ninja", [(b"build.ninja", b"include a.ninja\n"),
                                             (b"a.ninja", b"\nsubninja b.ninja\n"),
                                             (b"b.ninja", b"\n\n" + kw + b" build.ninja\n")]))
        out.append(scenario(b"build.ninja", [(b"build.ninja", kw + b" a.ninja\nbuild o: phony\n"),
                                             (b"a.ninja", b"v = $v.\n" + kw + b" a.ninja\n")]))
    return out


def gen(seed, n, mut_cap=24, special=True):
    """n scenario lines: the deterministic special families first (when special), then random
    bases each followed by up to mut_cap single-token mutations"""
    rng = random.Random(seed)
    out = gen_special() if special else []
    while len(out) < n:
        files = gen_base(rng)
        out.append(render(files))
        for m in mutations(rng, files, mut_cap):
            out.append(render(m))
    return out[:n]


def gen_exhaustive(maxlen=4, alphabet=b" \n\r$:|@#a{}=\t^."):
    """every string s over `alphabet` of length <= maxlen, placed (i) as a whole file, (ii) as
    the tail of a build-block binding whose value is dumped, (iii) as the tail of the input
    list of a build line, (iv) inside a rule's command followed by a build statement, (v) as
    (ii) under ninja_required_version = 1.14 (for $^).
    Ties the hand-written scanners to the generated src/lexer.cc on short inputs."""
    import itertools
    pre = b"rule r\n command = c\n"
    out = []
    for n in range(maxlen + 1):
        for t in itertools.product(alphabet, repeat=n):
            s = bytes(t)
            for text in (s,
                         pre + b"build o: r\n description = " + s,
                         pre + b"build o: r " + s,
                         b"rule r\n command = " + s + b"\nbuild o: r i\n",
                         b"ninja_required_version = 1.14\n" + pre + b"build o: r\n description = " + s):
                out.append(scenario(b"build.ninja", [(b"build.ninja", text)]))
    return out


if __name__ == "__main__":
    if len(sys.argv) > 1 and sys.argv[1] == "exhaustive":
        for l in gen_exhaustive(int(sys.argv[2]) if len(sys.argv) > 2 else 4):
            print(l)
    else:
        seed = int(sys.argv[1]) if len(sys.argv) > 1 else 1
        n = int(sys.argv[2]) if len(sys.argv) > 2 else 100
        for l in gen(seed, n):
            print(l)
