#!/bin/bash
# tools/verify_seeded.sh Cxx mN : confirm a seeded change in its scratch worktree /tmp/mut/Cxx:
# applies, builds, unit tests pass, demo fails with the change and passes without. Writes /tmp/mut/out/Cxx/mN/verify.json
id=$1; m=$2; wt=/tmp/mut/$id; out=/tmp/mut/out/$id/$m
cd $wt || exit 2
git checkout -q -- . ; 
res() { echo "{\"id\":\"$id\",\"m\":\"$m\",\"applies\":$1,\"builds\":$2,\"tests_pass\":$3,\"demo_fails_with_change\":$4,\"demo_passes_pristine\":$5}" > $out/verify.json; }
git apply $out/patch.diff || { res false false false false false; exit 1; }
cmake --build _build -j4 >/dev/null 2>&1 || { git checkout -q -- .; res true false false false false; exit 1; }
t=false; ./_build/ninja_test >/tmp/mut/out/$id/$m/test.log 2>&1 && t=true
d1=false; (cd $out && timeout 600 bash ./demo.sh $wt >$out/demo_changed.log 2>&1) || d1=true
git checkout -q -- .
cmake --build _build -j4 >/dev/null 2>&1
d2=false; (cd $out && timeout 600 bash ./demo.sh $wt >$out/demo_pristine.log 2>&1) && d2=true
res true true $t $d1 $d2
cat $out/verify.json
