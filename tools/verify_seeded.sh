#!/bin/bash
# tools/verify_seeded.sh <base> Cxx mN [patchfile]: confirm a seeded change in its scratch worktree <base>/Cxx:
# applies, builds, unit tests pass, demo fails with the change and passes without. Writes <base>/out/Cxx/mN/verify.json
base=$1; id=$2; m=$3; wt=$base/$id; out=$base/out/$id/$m; patch=${4:-$out/patch.diff}
cd $wt || exit 2
git checkout -q -- . ;
res() { echo "{\"id\":\"$id\",\"m\":\"$m\",\"head\":\"$(git rev-parse --short HEAD)\",\"patch\":\"$(basename $patch)\",\"applies\":$1,\"builds\":$2,\"tests_pass\":$3,\"demo_fails_with_change\":$4,\"demo_passes_pristine\":$5}" > $out/verify.json; }
git apply $patch || { res false false false false false; exit 1; }
cmake --build _build -j4 >/dev/null 2>&1 || { git checkout -q -- .; res true false false false false; exit 1; }
t=false; td=$(mktemp -d); (cd $td && $wt/_build/ninja_test >$out/test.log 2>&1) && t=true; rm -rf $td
d1=false; (cd $out && timeout 900 bash ./demo.sh $wt >$out/demo_changed.log 2>&1) || d1=true
git checkout -q -- .
cmake --build _build -j4 >/dev/null 2>&1
d2=false; (cd $out && timeout 900 bash ./demo.sh $wt >$out/demo_pristine.log 2>&1) && d2=true
res true true $t $d1 $d2
cat $out/verify.json
