// C15/C13: the real DepfileParser on raw bytes.
#include "common.h"
#include "depfile_parser.h"

// line: <content-hex>  ->  "OK <out-hex,...|-> <in-hex,...|->"  or  "ERR nocolon|inputs|other:<hex>"
static int run_depfile(int, char**) {
  std::string line;
  while (std::getline(std::cin, line)) {
    std::string content = unhex(line);
    content.shrink_to_fit();
    DepfileParser p;
    std::string err;
    if (!p.Parse(&content, &err)) {
      if (err == "expected ':' in depfile") printf("ERR nocolon\n");
      else if (err == "inputs may not also have inputs") printf("ERR inputs\n");
      else printf("ERR other:%s\n", hex(err).c_str());
      continue;
    }
    std::string o, i;
    for (auto& s : p.outs_) o += (o.empty() ? "" : ",") + hex(s.AsString());
    for (auto& s : p.ins_) i += (i.empty() ? "" : ",") + hex(s.AsString());
    printf("OK %s %s\n", o.empty() ? "-" : o.c_str(), i.empty() ? "-" : i.c_str());
  }
  return 0;
}
static RegisterComponent reg("depfile", run_depfile);
