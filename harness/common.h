// Shared helpers of the correspondence harness (impl side).
#pragma once
#include <stdint.h>
#include <stdio.h>
#include <stdlib.h>
#include <string.h>
#include <string>
#include <vector>
#include <iostream>
#include <sstream>

static inline int hexval(char c) {
  if (c >= '0' && c <= '9') return c - '0';
  if (c >= 'a' && c <= 'f') return c - 'a' + 10;
  if (c >= 'A' && c <= 'F') return c - 'A' + 10;
  fprintf(stderr, "bad hex digit\n"); exit(3);
}
static inline std::string unhex(const std::string& h) {
  if (h == "-") return std::string();
  std::string r; r.reserve(h.size() / 2);
  for (size_t i = 0; i + 1 < h.size(); i += 2) r.push_back((char)(hexval(h[i]) * 16 + hexval(h[i + 1])));
  return r;
}
static inline std::string hex(const std::string& s) {
  if (s.empty()) return "-";
  static const char* d = "0123456789abcdef";
  std::string r; r.reserve(s.size() * 2);
  for (unsigned char c : s) { r.push_back(d[c >> 4]); r.push_back(d[c & 15]); }
  return r;
}
static inline std::vector<std::string> split_ws(const std::string& l) {
  std::vector<std::string> v; std::istringstream is(l); std::string w;
  while (is >> w) v.push_back(w);
  return v;
}

// Component registry: each harness/run_*.cc registers its entry point; impl_run.cc dispatches.
#include <map>
typedef int (*ComponentFn)(int argc, char** argv);
std::map<std::string, ComponentFn>& Components();
struct RegisterComponent {
  RegisterComponent(const char* name, ComponentFn fn) { Components()[name] = fn; }
};
