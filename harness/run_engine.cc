// Engine harness: drives the REAL State/ManifestParser/DependencyScan/Plan/Builder/BuildLog/DepsLog/
// Cleaner of /repo's working tree through ninja's own virtual interfaces:
//   * DiskInterface  -> VDisk: in-memory filesystem with a logical clock (every mutation = fresh tick)
//   * CommandRunner  -> ScriptedRunner: commands are interpreted by the harness (deterministic content
//                       function of the files they read), completion order / faults / interrupts
//                       come from the scenario
//   * Status         -> RecStatus: records every call
//   * Jobserver::Client -> TokenPool: counts tokens
// and prints a trace of events + the resulting state.  No change to /repo is needed.
#include "common.h"

#include <climits>
#include <errno.h>
#include <fcntl.h>
#include <signal.h>
#include <stdarg.h>
#include <sys/stat.h>
#include <sys/wait.h>
#include <unistd.h>

#include <algorithm>
#include <map>
#include <memory>
#include <set>

// the plan's bookkeeping (want_, ready_, pool use) is private; the harness only READS it for the
// snapshot lines the Gallina plan/scan models are compared with
#define private public
#include "build.h"
#include "state.h"
#include "clean.h"
#undef private
#include "build_log.h"
#include "clean.h"
#include "deps_log.h"
#include "disk_interface.h"
#include "dyndep.h"
#include "graph.h"
#include "manifest_parser.h"
#include "state.h"
#include "status.h"
#include "debug_flags.h"
#include "explanations.h"
#include "util.h"

using std::string;
using std::vector;

namespace {

uint64_t fnv(const string& s) {
  uint64_t h = 1469598103934665603ull;
  for (unsigned char c : s) { h ^= c; h *= 1099511628211ull; }
  return h;
}
string u64hex(uint64_t v) { char b[32]; snprintf(b, sizeof b, "%016llx", (unsigned long long)v); return b; }

// ---------------------------------------------------------------- crash points
// A crash point is any persistence-relevant moment: the child process dumps the virtual disk and
// _exits there (stdio buffers of the log files are lost, as with SIGKILL).
struct VDisk;
}  // namespace
long g_crash_at = -1;   // -1 = no crash scheduled
long g_crash_counter = 0;
long g_crash_tear = 0;
namespace { struct VDisk; }
void DumpDiskAndExit();
namespace {
VDisk* g_disk = nullptr;
string g_crash_dump_path;
}
static void CrashPoint(const char* what);
namespace {
}
static void CrashPoint(const char* what) {
  (void)what;
  if (g_crash_at < 0) return;
  if (g_crash_counter++ == g_crash_at && g_crash_tear == 0) DumpDiskAndExit();
  else if (g_crash_tear > 0 && g_crash_counter - 1 == g_crash_at && strncmp(what, "flush", 5) != 0) DumpDiskAndExit();
}
namespace {

}  // namespace
// Link-time interposition (-Wl,--wrap=fflush): every flush of a log file is a persistence point.  A crash
// "inside" the flush leaves a torn record: only the first `tear` bytes of what this flush appended.
extern "C" int __real_fflush(FILE* f);
extern "C" int __wrap_fflush(FILE* f) {
  if (g_crash_at < 0 || !f || f == stdout || f == stderr) return __real_fflush(f);
  int fd = fileno(f);
  off_t pre = lseek(fd, 0, SEEK_END);
  CrashPoint("flush-before");
  int r = __real_fflush(f);
  off_t post = lseek(fd, 0, SEEK_END);
  if (g_crash_tear > 0 && post > pre + 1 && g_crash_counter == g_crash_at) {
    // torn variant of the next crash point
    if (ftruncate(fd, pre + 1 + (g_crash_tear % (post - pre - 1))) != 0) {}
    ++g_crash_counter;
    DumpDiskAndExit();
  }
  CrashPoint("flush-after");
  return r;
}
namespace {
// ---------------------------------------------------------------- virtual disk
struct VDisk : public DiskInterface {
  struct Entry { int64_t mtime; string contents; };
  std::map<string, Entry> files;
  std::set<string> dirs;
  int64_t now = 1;
  mutable vector<string>* oplog = nullptr;  // optional log of mutations
  std::set<string> fail_mkdir;      // MakeDir fails for these paths
  void Log(const string& s) const { if (oplog) oplog->push_back(s); }

  int64_t Tick() { return ++now; }
  void Put(const string& path, const string& contents) { files[path] = Entry{Tick(), contents}; }

  TimeStamp Stat(const string& path, string* err) const override {
    auto i = files.find(path);
    if (i != files.end()) return i->second.mtime;
    if (dirs.count(path)) return 1;  // directories exist with an old time
    return 0;
  }
  bool MakeDir(const string& path) override {
    if (fail_mkdir.count(path)) { errno = ENOTDIR; return false; }
    // a regular file in the way (the path itself or any ancestor) makes mkdir fail
    if (files.count(path)) { errno = EEXIST; return false; }
    for (size_t sl = path.find('/'); sl != string::npos; sl = path.find('/', sl + 1))
      if (files.count(path.substr(0, sl))) { errno = ENOTDIR; return false; }
    CrashPoint("mkdir");
    dirs.insert(path);
    Log("mkdir " + hex(path));
    return true;
  }
  bool WriteFile(const string& path, const string& contents, bool) override {
    // parent must not be a regular file
    size_t slash = path.rfind('/');
    if (slash != string::npos && files.count(path.substr(0, slash))) { errno = ENOTDIR; return false; }
    CrashPoint("write");
    Put(path, contents);
    Log("write " + hex(path) + " " + hex(contents));
    return true;
  }
  Status ReadFile(const string& path, string* contents, string* err) override {
    auto i = files.find(path);
    if (i == files.end()) { *err = strerror(ENOENT); return NotFound; }
    *contents = i->second.contents;
    return Okay;
  }
  int RemoveFile(const string& path) override {
    auto i = files.find(path);
    if (i == files.end()) {
      if (dirs.count(path)) return -1;
      return 1;
    }
    CrashPoint("remove");
    files.erase(i);
    Log("remove " + hex(path));
    return 0;
  }
  bool DirExistsFor(const string& path) const {
    size_t slash = path.rfind('/');
    if (slash == string::npos || slash == 0) return true;
    return dirs.count(path.substr(0, slash)) > 0;
  }
};

}  // namespace
void DumpDiskAndExit() {
  FILE* f = fopen(g_crash_dump_path.c_str(), "w");
  if (f && g_disk) {
    fprintf(f, "now %lld\n", (long long)g_disk->now);
    for (auto& d : g_disk->dirs) fprintf(f, "dir %s\n", hex(d).c_str());
    for (auto& e : g_disk->files)
      fprintf(f, "file %s %lld %s\n", hex(e.first).c_str(), (long long)e.second.mtime, hex(e.second.contents).c_str());
    fclose(f);
  }
  _exit(77);
}
namespace {

// ---------------------------------------------------------------- status recorder
struct RecStatus : public Status {
  vector<string>* out;
  int added = 0, removed = 0, started = 0, finished = 0;
  explicit RecStatus(vector<string>* o) : out(o) {}
  static string E(const Edge* e) { return e->outputs_.empty() ? "-" : hex(e->outputs_[0]->path()); }
  void EdgeAddedToPlan(const Edge* e) override { ++added; out->push_back("st added " + E(e)); }
  void EdgeRemovedFromPlan(const Edge* e) override { ++removed; out->push_back("st removed " + E(e)); }
  Explanations* expl = nullptr;
  void BuildEdgeStarted(const Edge* e, int64_t) override {
    ++started; out->push_back("st started " + E(e));
    if (expl) {   // debugging aid (VERIF_EXPLAIN=1): why ninja thinks this edge has to run
      vector<string> why;
      for (Node* o : e->outputs_) expl->LookupAndAppend(o, &why);
      for (auto& w : why) out->push_back("ex " + hex(w));
    }
  }
  void BuildEdgeFinished(Edge* e, int64_t, int64_t, ExitStatus code, const string& output) override {
    ++finished; out->push_back("st finished " + E(e) + " " + std::to_string((int)code) + " " + hex(output));
  }
  void BuildStarted() override { out->push_back("st buildstarted"); }
  void BuildFinished() override { out->push_back("st buildfinished"); }
  void SetExplanations(Explanations* e) override { expl = e; }
  void NewLine() override {}
  void Info(const char* msg, ...) override { Rec("info", msg); }
  void Warning(const char* msg, ...) override { Rec("warning", msg); }
  void Error(const char* msg, ...) override { Rec("error", msg); }
  void Rec(const char* k, const char* m) { out->push_back(string("st ") + k + " " + hex(m)); }
};

// ---------------------------------------------------------------- jobserver token pool
struct TokenPool : public Jobserver::Client {
  int explicit_tokens;   // tokens currently in the pool
  bool implicit_free = true;
  int held = 0;          // slots currently held by ninja (incl. implicit)
  int max_held = 0;
  explicit TokenPool(int n) : explicit_tokens(n) {}
  Jobserver::Slot TryAcquire() override {
    if (implicit_free) { implicit_free = false; ++held; max_held = std::max(max_held, held); return Jobserver::Slot::CreateImplicit(); }
    if (explicit_tokens > 0) { --explicit_tokens; ++held; max_held = std::max(max_held, held); return Jobserver::Slot::CreateExplicit('+'); }
    return Jobserver::Slot();
  }
  void Release(Jobserver::Slot slot) override {
    if (!slot.IsValid()) return;
    --held;
    if (slot.IsImplicit()) implicit_free = true; else ++explicit_tokens;
  }
};

// ---------------------------------------------------------------- scenario data
struct Fault { int code = 1; bool touch = false; };
struct MidEdit { int at; string kind, path, content; };
struct Scenario {
  string id;
  VDisk disk;
  std::map<string, vector<string>> hidden;   // out0 -> extra files the command reads & reports
  std::map<string, string> ddtext;           // path -> text written when a command produces it
  std::set<string> nowrite;                  // out0 of commands that never touch their outputs
  string dir;                                // scratch dir for real log files
};

struct BuildOpts {
  int j = 1, k = 1, tokens = -1, interrupt = -1;
  bool dry = false;
  vector<string> targets;
  vector<int> sched;
  std::map<string, Fault> faults;
  std::set<string> partial;    // running commands that had modified their outputs when interrupted
  vector<MidEdit> midedits;
  long crash = -1, tear = 0;
  bool keep_depfile = false;
  bool phonycycle_err = false;
};

// ---------------------------------------------------------------- scripted command runner
struct ScriptedRunner : public CommandRunner {
  Scenario* sc; BuildOpts* bo; vector<string>* ev; State* state; Builder* builder = nullptr;
  struct Running { Edge* edge; std::map<string, string> snapshot; vector<string> reads; };
  vector<Running> running;
  std::map<Edge*, vector<string>>* manifest_reads;  // explicit+implicit inputs as written in the manifest
  int waits = 0, sched_pos = 0, event_no = 0;
  int max_running = 0;
  std::map<string, int> pool_running, pool_max;
  std::set<Edge*> started_once;

  string last_ps;
  // add-only lines for the plan model's dyndep loads: `pg <out0> outs=.. ins=..` for every edge whose
  // inputs_/outputs_ changed since the previous dump (a dyndep file was loaded), `po ready=<out0,..>` =
  // the edges with outputs_ready_ (printed when the set changed)
  std::map<Edge*, string> last_pg; string last_po; bool pg_init = false;
  // the edges Plan::NodeFinished visits for this edge: for each output in order, its out_edges() in order
  static string ConsOf(Edge* e) {
    string c; bool first = true;
    for (Node* o : e->outputs_)
      for (Edge* d : o->out_edges()) { if (d->outputs_.empty()) continue; c += (first ? "" : ",") + hex(d->outputs_[0]->path()); first = false; }
    return first ? "-" : c;
  }
  void DumpGraphChanges() {
    for (Edge* e : state->edges_) {
      if (e->outputs_.empty()) continue;
      string g = "outs=";
      for (size_t i = 0; i < e->outputs_.size(); ++i) g += (i ? "," : "") + hex(e->outputs_[i]->path());
      g += " ins=";
      for (size_t i = 0; i < e->inputs_.size(); ++i) g += (i ? "," : "") + hex(e->inputs_[i]->path());
      if (e->inputs_.empty()) g += "-";
      g += " cons=" + ConsOf(e);
      auto it = last_pg.find(e);
      if (pg_init && (it == last_pg.end() || it->second != g)) ev->push_back("pg " + hex(e->outputs_[0]->path()) + " " + g);
      last_pg[e] = g;
    }
    pg_init = true;
    vector<string> rs;
    for (Edge* e : state->edges_) if (!e->outputs_.empty() && e->outputs_ready()) rs.push_back(hex(e->outputs_[0]->path()));
    std::sort(rs.begin(), rs.end());
    string po = "po ready=";
    for (size_t i = 0; i < rs.size(); ++i) po += (i ? "," : "") + rs[i];
    if (rs.empty()) po += "-";
    if (po != last_po) { ev->push_back(po); last_po = po; }
  }
  // the plan's bookkeeping as of now (read-only peek): want map, ready queue, pools, counters
  void DumpPlanState() {
    if (!builder) return;
    DumpGraphChanges();
    Plan& p = builder->plan_;
    string l = "ps want=";
    vector<string> ws;
    for (auto& w : p.want_) ws.push_back(hex(w.first->outputs_[0]->path()) + ":" + (w.second == Plan::kWantNothing ? "n" : w.second == Plan::kWantToStart ? "s" : "f"));
    std::sort(ws.begin(), ws.end());
    for (size_t i = 0; i < ws.size(); ++i) l += (i ? "," : "") + ws[i];
    if (ws.empty()) l += "-";
    EdgePriorityQueue q = p.ready_;
    vector<string> rs;
    while (!q.empty()) { rs.push_back(hex(q.top()->outputs_[0]->path())); q.pop(); }
    std::sort(rs.begin(), rs.end());
    l += " ready=";
    for (size_t i = 0; i < rs.size(); ++i) l += (i ? "," : "") + rs[i];
    if (rs.empty()) l += "-";
    l += " pools=";
    bool first = true;
    for (auto& pp : state->pools_) {
      Pool* pool = pp.second;
      if (pool->depth() == 0) continue;
      vector<string> ds;
      for (Edge* e : pool->delayed_) ds.push_back(hex(e->outputs_[0]->path()));
      std::sort(ds.begin(), ds.end());
      l += (first ? "" : ";") + hex(pool->name()) + ":" + std::to_string(pool->current_use()) + ":";
      for (size_t i = 0; i < ds.size(); ++i) l += (i ? "+" : "") + ds[i];
      if (ds.empty()) l += "-";
      first = false;
    }
    if (first) l += "-";
    l += " wanted=" + std::to_string(p.wanted_edges_) + " commands=" + std::to_string(p.command_edges_);
    vector<string> run;
    for (auto& r : running) run.push_back(hex(r.edge->outputs_[0]->path()));
    std::sort(run.begin(), run.end());
    l += " running=";
    for (size_t i = 0; i < run.size(); ++i) l += (i ? "," : "") + run[i];
    if (run.empty()) l += "-";
    if (l != last_ps) { ev->push_back(l); last_ps = l; }
  }
  size_t CanRunMore() const override {
    const_cast<ScriptedRunner*>(this)->DumpPlanState();
    int cap = bo->j - (int)running.size();
    return cap > 0 ? (size_t)cap : 0;
  }
  void ApplyMidEdits() {
    for (auto& m : bo->midedits) if (m.at == event_no) {
      if (m.kind == "edit") sc->disk.Put(m.path, m.content);
      else if (m.kind == "rm") sc->disk.files.erase(m.path);
      ev->push_back("ev midedit " + m.kind + " " + hex(m.path));
    }
    ++event_no;
  }
  bool StartCommand(Edge* edge) override {
    CrashPoint("start");
    Running r; r.edge = edge;
    string out0 = edge->outputs_[0]->path();
    r.reads = (*manifest_reads)[edge];
    auto h = sc->hidden.find(out0);
    if (h != sc->hidden.end()) for (auto& p : h->second) r.reads.push_back(p);
    for (auto& p : r.reads) {
      auto f = sc->disk.files.find(p);
      r.snapshot[p] = f == sc->disk.files.end() ? string("<missing>") : f->second.contents;
    }
    // facts for the C04 monitor: inputs as ninja knows them NOW, directories, rspfile
    string line = "ev start " + hex(out0) + " ins=";
    for (size_t i = 0; i < edge->inputs_.size(); ++i) line += (i ? "," : "") + hex(edge->inputs_[i]->path());
    if (edge->inputs_.empty()) line += "-";
    bool dirs_ok = true;
    for (Node* o : edge->outputs_) dirs_ok = dirs_ok && sc->disk.DirExistsFor(o->path());
    string depfile = edge->GetUnescapedDepfile();
    if (!depfile.empty()) dirs_ok = dirs_ok && sc->disk.DirExistsFor(depfile);
    line += string(" dirs=") + (dirs_ok ? "1" : "0");
    string rsp = edge->GetUnescapedRspfile();
    if (!rsp.empty()) {
      auto f = sc->disk.files.find(rsp);
      bool ok = f != sc->disk.files.end() && f->second.contents == edge->GetBinding("rspfile_content");
      line += string(" rsp=") + (ok ? "1" : "0");
    } else line += " rsp=-";
    line += " pool=" + hex(edge->pool()->name()) + " tick=" + std::to_string(sc->disk.now);
    ev->push_back(line);
    if (started_once.count(edge)) ev->push_back("ev double-start " + hex(out0));
    started_once.insert(edge);
    running.push_back(r);
    max_running = std::max(max_running, (int)running.size());
    int pr = ++pool_running[edge->pool()->name()];
    pool_max[edge->pool()->name()] = std::max(pool_max[edge->pool()->name()], pr);
    ApplyMidEdits();
    return true;
  }
  string ContentFor(const Running& r, const string& out) {
    auto dd = sc->ddtext.find(out);
    if (dd != sc->ddtext.end()) return dd->second;
    // a generator's output is a function of its inputs only (ninja deliberately does not re-run it when
    // just its command line changes), every other command's output depends on its command line too
    string acc = r.edge->GetBindingBool("generator") ? string("generator") : r.edge->EvaluateCommand(true);
    acc.push_back('\0'); acc += out; acc.push_back('\0');
    // contents only (not names): two headers with identical text are interchangeable for the output
    // ... of the SET of files read: each file once, order irrelevant
    std::set<string> paths(r.reads.begin(), r.reads.end());
    vector<string> cs;
    for (auto& p : paths) cs.push_back(r.snapshot.at(p));
    std::sort(cs.begin(), cs.end());
    for (auto& c : cs) { acc += c; acc.push_back('\0'); }
    return "H:" + u64hex(fnv(acc));
  }
  BuildResult WaitForCommand() override {
    DumpPlanState();
    ev->push_back("ev wait");
    ++waits;
    if (running.empty()) return BuildResult::Finished{};
    if (bo->interrupt >= 0 && waits - 1 == bo->interrupt) {
      // running commands listed in `partial` had already modified their outputs
      for (auto& r : running) {
        string out0 = r.edge->outputs_[0]->path();
        if (bo->partial.count(out0))
          for (Node* o : r.edge->outputs_) sc->disk.Put(o->path(), "PARTIAL");
      }
      ev->push_back("ev interrupt");
      return BuildResult::Interrupted{};
    }
    size_t pick = 0;
    if (sched_pos < (int)bo->sched.size()) pick = (size_t)bo->sched[sched_pos] % running.size();
    ++sched_pos;
    Running r = running[pick];
    running.erase(running.begin() + pick);
    --pool_running[r.edge->pool()->name()];
    Edge* edge = r.edge;
    string out0 = edge->outputs_[0]->path();
    ExitStatus status = ExitSuccess;
    string output;
    auto f = bo->faults.find(out0);
    CrashPoint("cmd-before-writes");
    if (f != bo->faults.end()) {
      status = (ExitStatus)f->second.code;
      if (f->second.touch)
        for (Node* o : edge->outputs_) { sc->disk.Put(o->path(), "GARBAGE:" + std::to_string(sc->disk.now)); CrashPoint("cmd-write"); }
      output = "FAILED-OUTPUT of " + out0 + "\n";
    } else {
      bool restat = edge->GetBindingBool("restat");
      if (!sc->nowrite.count(out0)) {
        for (Node* o : edge->outputs_) {
          string c = ContentFor(r, o->path());
          auto old = sc->disk.files.find(o->path());
          if (restat && old != sc->disk.files.end() && old->second.contents == c) continue;  // write-if-changed
          sc->disk.Put(o->path(), c);
          CrashPoint("cmd-write");
        }
      }
      // report the hidden reads through the mechanism the edge declares
      string deps_type = edge->GetBinding("deps");
      string depfile = edge->GetUnescapedDepfile();
      auto h = sc->hidden.find(out0);
      vector<string> hid = h == sc->hidden.end() ? vector<string>() : h->second;
      if (deps_type == "msvc") {
        for (auto& p : hid) output += "Note: including file: " + p + "\n";
        output += "compiler chatter\n";
      } else if (!depfile.empty()) {
        // compilers do not canonicalise what they print: every other name is spelled with a leading "./" or "x/../"
        // ... nor the target: "./obj.o" and "zz/../obj.o" name the statement's output as well
        size_t hsum = 0; for (char ch : out0) hsum += (unsigned char)ch;
        string d = string(hsum % 4 == 1 ? "./" : hsum % 4 == 2 ? "zz/../" : "") + out0 + ":";
        for (size_t hi = 0; hi < hid.size(); ++hi) d += " " + string(hi % 3 == 1 ? "./" : hi % 3 == 2 ? "zz/../" : "") + hid[hi];
        d += "\n";
        sc->disk.Put(depfile, d);
        CrashPoint("cmd-write");
      }
      output += "out<" + out0 + ">";
    }
    ev->push_back("ev finish " + hex(out0) + " " + std::to_string((int)status) + " tick=" + std::to_string(sc->disk.now));
    ApplyMidEdits();
    return BuildResult::CommandCompleted{ edge, status, output };
  }
  vector<Edge*> GetActiveEdges() override {
    vector<Edge*> v; for (auto& r : running) v.push_back(r.edge); return v;
  }
  void Abort() override { running.clear(); }
};

struct LogUser : public BuildLogUser {
  State* state; VDisk* disk;
  bool IsPathDead(StringPiece s) const override {
    Node* n = state->LookupNode(s);
    if (n && n->in_edge()) return false;
    string err;
    TimeStamp mtime = disk->Stat(s.AsString(), &err);
    return mtime == 0;
  }
};

void DumpSnap(State* state, Builder* builder, vector<string>* ev);
// ---------------------------------------------------------------- one ninja invocation
struct Invocation {
  Scenario* sc; BuildOpts* bo; vector<string>* ev;
  State state; BuildLog build_log; DepsLog deps_log; LogUser user;
  std::map<Edge*, vector<string>> manifest_reads;
  BuildConfig config;

  bool LoadManifest() {
    // the built-in pools are static objects: a fresh process has them pristine
    State::kConsolePool = Pool("console", 1);
    State::kDefaultPool = Pool("", 0);
    ManifestParserOptions popts;
    if (bo && bo->phonycycle_err) popts.phony_cycle_action_ = kPhonyCycleActionError;   // ninja -w phonycycle=err
    ManifestParser parser(&state, &sc->disk, popts);
    string err;
    if (!parser.Load("build.ninja", &err)) { ev->push_back("ev parse-error " + hex(err)); return false; }
    for (Edge* e : state.edges_) {
      vector<string> v;
      size_t n = e->inputs_.size() - e->order_only_deps_;
      for (size_t i = 0; i < n; ++i) v.push_back(e->inputs_[i]->path());
      manifest_reads[e] = v;
    }
    return true;
  }
  bool OpenLogs() {
    string err;
    user.state = &state; user.disk = &sc->disk;
    string lp = sc->dir + "/.ninja_log", dp = sc->dir + "/.ninja_deps";
    LoadStatus s = build_log.Load(lp, &err);
    if (s == LOAD_ERROR) { ev->push_back("ev log-load-error " + hex(err)); return false; }
    if (!err.empty()) { ev->push_back("ev log-warning " + hex(err)); err.clear(); }
    s = deps_log.Load(dp, &state, &err);
    if (s == LOAD_ERROR) { ev->push_back("ev deps-load-error " + hex(err)); return false; }
    if (!err.empty()) { ev->push_back("ev deps-warning " + hex(err)); err.clear(); }
    if (!bo->dry) {
      if (!build_log.OpenForWrite(lp, user, &err)) { ev->push_back("ev log-open-error " + hex(err)); return false; }
      if (!deps_log.OpenForWrite(dp, &err)) { ev->push_back("ev deps-open-error " + hex(err)); return false; }
    }
    return true;
  }
  // mirrors NinjaMain::RunBuild / RebuildManifest
  // returns exit code
  int Run(bool rebuild_manifest_phase, bool* manifest_rebuilt) {
    config.parallelism = bo->j;
    config.failures_allowed = bo->k == 0 ? INT_MAX : bo->k;
    config.dry_run = bo->dry;
    config.verbosity = BuildConfig::QUIET;
    RecStatus status(ev);
    vector<Node*> targets;
    string err;
    if (rebuild_manifest_phase) {
      Node* n = state.LookupNode("build.ninja");
      if (!n || !n->in_edge()) return -1;
      targets.push_back(n);
    } else if (bo->targets.empty()) {
      targets = state.DefaultNodes(&err);
      if (!err.empty()) { ev->push_back("ev exit 1 " + hex(err)); return 1; }
    } else {
      for (auto& t : bo->targets) {
        Node* n = state.LookupNode(t);
        if (!n) { ev->push_back("ev exit 1 " + hex("unknown target '" + t + "'")); return 1; }
        targets.push_back(n);
      }
    }
    int code;
    {
      Builder builder(&state, config, &build_log, &deps_log, &sc->disk, &status, 0);
      TokenPool* pool = nullptr;
      if (bo->tokens >= 0) { pool = new TokenPool(bo->tokens); builder.SetJobserverClient(std::unique_ptr<Jobserver::Client>(pool)); }
      ScriptedRunner* runner = nullptr;
      if (!bo->dry) {
        runner = new ScriptedRunner;
        runner->sc = sc; runner->bo = bo; runner->ev = ev; runner->state = &state; runner->manifest_reads = &manifest_reads;
        runner->builder = &builder;
        builder.command_runner_.reset(runner);
      }
      bool failed = false;
      for (Node* t : targets) {
        if (!builder.AddTarget(t, &err)) {
          if (!err.empty()) { ev->push_back("ev exit 1 " + hex(err)); failed = true; break; }
        }
      }
      if (!failed && !rebuild_manifest_phase) DumpSnap(&state, &builder, ev);
      if (failed) { code = 1; }
      else if (builder.AlreadyUpToDate()) {
        if (rebuild_manifest_phase) return -1;
        ev->push_back("ev uptodate");
        ev->push_back("ev exit 0 -");
        code = 0;
      } else {
        ExitStatus es = builder.Build(&err);
        // add-only: the plan's bookkeeping as Build() left it (a `ps` line, printed when it changed since the last
        // dump): the last FinishCommand / phony starts before the loop ended are otherwise unobserved.  Not after an
        // interrupt: Cleanup() has dropped the running commands.
        if (runner && err.find("interrupted by user") == string::npos) runner->DumpPlanState();
        code = (int)es;
        if (es != ExitSuccess && err.find("interrupted by user") != string::npos) code = 130;
        ev->push_back("ev exit " + std::to_string(code) + " " + hex(err));
        if (rebuild_manifest_phase && es == ExitSuccess) {
          Node* n = state.LookupNode("build.ninja");
          if (n->dirty()) *manifest_rebuilt = true;
        }
      }
      if (runner) {
        string l = "ev limits maxrun=" + std::to_string(runner->max_running);
        for (auto& p : runner->pool_max) l += " pool:" + hex(p.first) + "=" + std::to_string(p.second);
        ev->push_back(l);
      }
      if (pool) {
        // builder destructor runs Cleanup; tokens must be back by then -- report after scope
        ev->push_back("ev tokens-at-exit held=" + std::to_string(pool->held) + " max=" + std::to_string(pool->max_held) +
                      " pool=" + std::to_string(pool->explicit_tokens));
      }
      ev->push_back("ev counters added=" + std::to_string(status.added) + " removed=" + std::to_string(status.removed) +
                    " started=" + std::to_string(status.started) + " finished=" + std::to_string(status.finished));
    }
    return code;
  }
};

string JoinNodes(const vector<Node*>& v, size_t from, size_t to) {
  string r;
  for (size_t i = from; i < to; ++i) r += (r.empty() ? "" : ",") + hex(v[i]->path());
  return r.empty() ? "-" : r;
}
// Snapshot after the scan (all AddTarget calls) and before Build(): what DependencyScan decided and
// what Plan recorded.  Read-only.
void DumpSnap(State* state, Builder* builder, vector<string>* ev) {
  for (Edge* e : state->edges_) {
    string l = "snap edge " + hex(e->outputs_[0]->path());
    l += " outs=" + JoinNodes(e->outputs_, 0, e->outputs_.size());
    l += " ins=" + JoinNodes(e->inputs_, 0, e->inputs_.size());
    l += " imp=" + std::to_string(e->implicit_deps_) + " oo=" + std::to_string(e->order_only_deps_);
    l += " vals=" + JoinNodes(e->validations_, 0, e->validations_.size());
    l += string(" phony=") + (e->is_phony() ? "1" : "0");
    l += " pool=" + hex(e->pool()->name()) + " depth=" + std::to_string(e->pool()->depth());
    l += string(" ready=") + (e->outputs_ready() ? "1" : "0");
    auto w = builder->plan_.want_.find(e);
    l += string(" want=") + (w == builder->plan_.want_.end() ? "-" : w->second == Plan::kWantNothing ? "n" : w->second == Plan::kWantToStart ? "s" : "f");
    l += " mark=" + std::to_string((int)e->mark_);
    l += string(" depsmissing=") + (e->deps_missing_ ? "1" : "0");
    l += string(" depsloaded=") + (e->deps_loaded_ ? "1" : "0");
    l += " hash=" + u64hex(e->is_phony() ? 0 : BuildLog::LogEntry::HashCommand(e->EvaluateCommand(true)));
    l += string(" restat=") + (e->GetBindingBool("restat") ? "1" : "0") + " generator=" + (e->GetBindingBool("generator") ? "1" : "0");
    l += " deps=" + hex(e->GetBinding("deps")) + " depfile=" + hex(e->GetUnescapedDepfile());
    l += string(" ddpend=") + (!e->dyndep_ ? "-" : e->dyndep_->dyndep_pending() ? "1" : "0");   // Node::dyndep_pending_ of the statement's dyndep file
    ev->push_back(l);
  }
  for (Node* n : state->paths_.empty() ? vector<Node*>() : vector<Node*>()) (void)n;
  vector<std::pair<string, Node*>> nodes;
  for (auto& p : state->paths_) nodes.push_back(std::make_pair(p.first.AsString(), p.second));
  std::sort(nodes.begin(), nodes.end());
  for (auto& p : nodes) {
    Node* n = p.second;
    if (!n->status_known() && !n->dirty()) continue;   // never visited by the scan
    ev->push_back("snap node " + hex(n->path()) + " dirty=" + (n->dirty() ? "1" : "0") + " mtime=" + std::to_string(n->mtime()) +
                  " exists=" + (n->exists() ? "1" : "0"));
  }
  // add-only: the out-edges NodeFinished will visit, in its order
  for (Edge* e : state->edges_) {
    if (e->outputs_.empty()) continue;
    string c; bool first = true;
    for (Node* o : e->outputs_)
      for (Edge* d : o->out_edges()) { if (d->outputs_.empty()) continue; c += (first ? "" : ",") + hex(d->outputs_[0]->path()); first = false; }
    ev->push_back("sc " + hex(e->outputs_[0]->path()) + " cons=" + (first ? string("-") : c));
  }
  // add-only: dyndep bindings as of now (pending = the file has not been loaded yet)
  for (Edge* e : state->edges_)
    if (e->dyndep_ && !e->outputs_.empty())
      ev->push_back("ddsnap " + hex(e->outputs_[0]->path()) + " dd=" + hex(e->dyndep_->path()) + " pending=" + (e->dyndep_->dyndep_pending() ? "1" : "0"));
  ev->push_back("snap plan wanted=" + std::to_string(builder->plan_.wanted_edges_) + " commands=" + std::to_string(builder->plan_.command_edges_));
}

void DumpState(Scenario* sc, vector<string>* ev) {
  for (auto& f : sc->disk.files)
    ev->push_back("state file " + hex(f.first) + " " + std::to_string(f.second.mtime) + " " + hex(f.second.contents));
  // reload the logs with fresh objects: the MEANING of the logs
  {
    BuildLog bl; string err;
    bl.Load(sc->dir + "/.ninja_log", &err);
    std::map<string, string> m;
    for (auto& e : bl.entries())
      m[e.first.AsString()] = u64hex(e.second->command_hash) + " " + std::to_string(e.second->mtime);
    for (auto& e : m) ev->push_back("state log " + hex(e.first) + " " + e.second);
  }
  {
    State st; DepsLog dl; string err;
    dl.Load(sc->dir + "/.ninja_deps", &st, &err);
    std::map<string, string> m;
    for (Node* n : dl.nodes()) {
      DepsLog::Deps* d = dl.GetDeps(n);
      if (!d) continue;
      string l = std::to_string(d->mtime) + " ";
      for (int i = 0; i < d->node_count; ++i) l += (i ? "," : "") + hex(d->nodes[i]->path());
      if (d->node_count == 0) l += "-";
      m[n->path()] = l;
    }
    for (auto& e : m) ev->push_back("state deps " + hex(e.first) + " " + e.second);
  }
  ev->push_back("state now " + std::to_string(sc->disk.now));
}

std::map<string, string> KV(const vector<string>& w, size_t from) {
  std::map<string, string> m;
  for (size_t i = from; i < w.size(); ++i) {
    size_t eq = w[i].find('=');
    if (eq != string::npos) m[w[i].substr(0, eq)] = w[i].substr(eq + 1);
  }
  return m;
}
vector<string> SplitC(const string& s, char c) {
  vector<string> v; if (s.empty() || s == "-") return v;
  size_t p = 0;
  while (true) { size_t q = s.find(c, p); if (q == string::npos) { v.push_back(s.substr(p)); break; } v.push_back(s.substr(p, q - p)); p = q + 1; }
  return v;
}

void LoadDiskDump(const string& path, VDisk* d) {
  FILE* f = fopen(path.c_str(), "r");
  if (!f) return;
  d->files.clear(); d->dirs.clear();
  char* line = nullptr; size_t cap = 0;
  while (getline(&line, &cap, f) > 0) {
    vector<string> w = split_ws(line);
    if (w.empty()) continue;
    if (w[0] == "now") d->now = atoll(w[1].c_str());
    else if (w[0] == "dir") d->dirs.insert(unhex(w[1]));
    else if (w[0] == "file") d->files[unhex(w[1])] = VDisk::Entry{atoll(w[2].c_str()), unhex(w[3])};
  }
  free(line); fclose(f);
}

int DoBuild(Scenario* sc, BuildOpts* bo, vector<string>* ev) {
  // like ninja's main(): load manifest + logs, rebuild the manifest if it has a rule (max 100 cycles)
  for (int cycle = 0; cycle < 100; ++cycle) {
    Invocation inv; inv.sc = sc; inv.bo = bo; inv.ev = ev;
    if (!inv.LoadManifest()) return 1;
    if (!inv.OpenLogs()) return 1;
    bool rebuilt = false;
    BuildOpts mbo = *bo; mbo.targets.clear();
    Node* mn = inv.state.LookupNode("build.ninja");
    if (mn && mn->in_edge()) {
      Invocation* pinv = &inv;
      BuildOpts* saved = inv.bo;
      int c = pinv->Run(true, &rebuilt);
      (void)saved;
      if (rebuilt) {
        if (bo->dry) return 0;   // ninja: "In dry_run mode the regeneration will succeed without changing the manifest forever. Better to return immediately."
        ev->push_back("ev manifest-rebuilt");
        inv.build_log.Close(); inv.deps_log.Close();
        continue;
      }
      if (c > 0) { inv.build_log.Close(); inv.deps_log.Close(); return c; }  // "rebuilding 'build.ninja': ..." error
      // otherwise: the state may have been Reset(); ninja continues with the same state
    }
    int code = inv.Run(false, &rebuilt);
    inv.build_log.Close(); inv.deps_log.Close();
    return code;
  }
  ev->push_back("ev exit 1 " + hex("manifest 'build.ninja' still dirty after 100 tries"));
  return 1;
}

void RunScenarioStep(Scenario* sc, const vector<string>& w, vector<string>* ev, int* build_no) {
  const string& op = w[1];
  if (op == "edit") { sc->disk.Put(unhex(w[2]), unhex(w[3])); }
  else if (op == "rm") { sc->disk.files.erase(unhex(w[2])); }
  else if (op == "touch") { auto f = sc->disk.files.find(unhex(w[2])); if (f != sc->disk.files.end()) f->second.mtime = sc->disk.Tick(); }
  else if (op == "settime") { auto f = sc->disk.files.find(unhex(w[2])); if (f != sc->disk.files.end()) f->second.mtime = atoll(w[3].c_str()); }
  else if (op == "sethidden") { vector<string> v; for (size_t i = 3; i < w.size(); ++i) v.push_back(unhex(w[i])); sc->hidden[unhex(w[2])] = v; }
  else if (op == "setdd") { sc->ddtext[unhex(w[2])] = unhex(w[3]); }
  else if (op == "droplog") { unlink((sc->dir + "/.ninja_log").c_str()); }
  else if (op == "dropdeps") { unlink((sc->dir + "/.ninja_deps").c_str()); }
  else if (op == "mkfail") { sc->disk.fail_mkdir.insert(unhex(w[2])); }
  else if (op == "build") {
    BuildOpts bo;
    auto kv = KV(w, 2);
    if (kv.count("j")) bo.j = atoi(kv["j"].c_str());
    if (kv.count("k")) bo.k = atoi(kv["k"].c_str());
    if (kv.count("tokens")) bo.tokens = atoi(kv["tokens"].c_str());
    if (kv.count("interrupt")) bo.interrupt = atoi(kv["interrupt"].c_str());
    if (kv.count("dry")) bo.dry = kv["dry"] == "1";
    if (kv.count("pce")) bo.phonycycle_err = kv["pce"] == "1";
    if (kv.count("crash")) bo.crash = atol(kv["crash"].c_str());
    if (kv.count("tear")) bo.tear = atol(kv["tear"].c_str());
    for (auto& t : SplitC(kv["targets"], ',')) bo.targets.push_back(unhex(t));
    for (auto& s : SplitC(kv["sched"], ',')) bo.sched.push_back(atoi(s.c_str()));
    for (auto& f : SplitC(kv["faults"], ',')) {
      vector<string> p = SplitC(f, ':');
      Fault ft; ft.code = atoi(p[1].c_str()); ft.touch = p.size() > 2 && p[2] == "1";
      bo.faults[unhex(p[0])] = ft;
    }
    for (auto& p : SplitC(kv["partial"], ',')) bo.partial.insert(unhex(p));
    for (auto& m : SplitC(kv["midedits"], ',')) {
      vector<string> p = SplitC(m, ':');
      MidEdit me; me.at = atoi(p[0].c_str()); me.kind = p[1]; me.path = unhex(p[2]); me.content = p.size() > 3 ? unhex(p[3]) : "";
      bo.midedits.push_back(me);
    }
    ev->push_back("build " + std::to_string((*build_no)++));
    fflush(stdout);
    if (bo.crash >= 0) {
      // run in a child that dies at the crash point; the parent takes over the dumped disk
      g_crash_dump_path = sc->dir + "/crashdump";
      unlink(g_crash_dump_path.c_str());
      pid_t pid = fork();
      if (pid == 0) {
        g_crash_at = bo.crash; g_crash_counter = 0; g_disk = &sc->disk; g_crash_tear = bo.tear;
        vector<string> cev;
        DoBuild(sc, &bo, &cev);
        // build ended before the crash point was reached: report how many points there were
        FILE* f = fopen((sc->dir + "/crashpoints").c_str(), "w");
        if (f) { fprintf(f, "%ld\n", g_crash_counter); fclose(f); }
        g_crash_at = -1;
        DumpDiskAndExit();
      }
      int st = 0; waitpid(pid, &st, 0);
      LoadDiskDump(g_crash_dump_path, &sc->disk);
      FILE* f = fopen((sc->dir + "/crashpoints").c_str(), "r");
      if (f) { long n = 0; if (fscanf(f, "%ld", &n) == 1) ev->push_back("ev crash-not-reached points=" + std::to_string(n)); fclose(f); unlink((sc->dir + "/crashpoints").c_str()); }
      else ev->push_back("ev crashed status=" + std::to_string(WIFEXITED(st) ? WEXITSTATUS(st) : -WTERMSIG(st)));
    } else {
      DoBuild(sc, &bo, ev);
    }
    DumpState(sc, ev);
  }
  else if (op == "clean") {
    // step clean mode=all|targets|rules generator=0/1 dry=0/1 names=<hex,...>
    auto kv = KV(w, 2);
    State state; ManifestParser parser(&state, &sc->disk); string err;
    ev->push_back("clean " + std::to_string((*build_no)++));
    if (!parser.Load("build.ninja", &err)) { ev->push_back("ev parse-error " + hex(err)); return; }
    BuildConfig config; config.dry_run = kv["dry"] == "1"; config.verbosity = BuildConfig::QUIET;
    vector<string> ops; sc->disk.oplog = &ops;
    Cleaner cleaner(&state, config, &sc->disk);
    int rc = 0;
    string mode = kv["mode"];
    vector<string> names; for (auto& n : SplitC(kv["names"], ',')) names.push_back(unhex(n));
    vector<char*> argv; for (auto& n : names) argv.push_back(const_cast<char*>(n.c_str()));
    if (mode == "all") rc = cleaner.CleanAll(kv["generator"] == "1");
    else if (mode == "targets") rc = cleaner.CleanTargets((int)argv.size(), argv.data());
    else if (mode == "rules") rc = cleaner.CleanRules((int)argv.size(), argv.data());
    else if (mode == "dead") {
      BuildLog bl; bl.Load(sc->dir + "/.ninja_log", &err);
      rc = cleaner.CleanDead(bl.entries());
    }
    sc->disk.oplog = nullptr;
    for (auto& o : ops) ev->push_back("ev " + o);
    ev->push_back("ev clean-result rc=" + std::to_string(rc) + " count=" + std::to_string(cleaner.cleaned_files_count()));
    { string l = "ev clean-attempted"; for (auto& p : cleaner.removed_) l += " " + hex(p); ev->push_back(l); }
    DumpState(sc, ev);
  }
  else { ev->push_back("ev bad-step " + op); }
}

vector<string>* g_pending_ev = nullptr;
void CrashDump(int sig) {
  // the engine died (abort/segv): flush the events seen so far, they are the replay's explanation
  if (g_pending_ev) for (auto& e : *g_pending_ev) { fputs(e.c_str(), stdout); fputc('\n', stdout); }
  printf("ev engine-died signal=%d\n", sig);
  fflush(stdout);
  signal(sig, SIG_DFL);
  raise(sig);
}

int run_engine(int, char**) {
  if (getenv("VERIF_EXPLAIN")) g_explaining = true;
  string line;
  std::unique_ptr<Scenario> sc;
  vector<string> ev;
  g_pending_ev = &ev;
  signal(SIGABRT, CrashDump); signal(SIGSEGV, CrashDump);
  int build_no = 0;
  char tmpl[] = "/dev/shm/verif-eng-XXXXXX";
  char* base = mkdtemp(tmpl);
  if (!base) { perror("mkdtemp"); return 3; }
  int sno = 0;
  while (std::getline(std::cin, line)) {
    vector<string> w = split_ws(line);
    if (w.empty() || w[0][0] == '#') continue;
    if (w[0] == "scenario") {
      sc.reset(new Scenario); sc->id = w[1]; ev.clear(); build_no = 0;
      sc->dir = string(base) + "/s" + std::to_string(sno++);
      mkdir(sc->dir.c_str(), 0700);
      printf("scenario %s\n", w[1].c_str());
    } else if (!sc) { continue; }
    else if (w[0] == "file") { sc->disk.Put(unhex(w[1]), unhex(w[2])); }
    else if (w[0] == "hidden") { vector<string> v; for (size_t i = 2; i < w.size(); ++i) v.push_back(unhex(w[i])); sc->hidden[unhex(w[1])] = v; }
    else if (w[0] == "ddtext") { sc->ddtext[unhex(w[1])] = unhex(w[2]); }
    else if (w[0] == "nowrite") { sc->nowrite.insert(unhex(w[1])); }
    else if (w[0] == "step") {
      RunScenarioStep(sc.get(), w, &ev, &build_no);
      for (auto& e : ev) printf("%s\n", e.c_str());
      ev.clear();
    } else if (w[0] == "end") {
      printf("end %s\n", sc->id.c_str());
      fflush(stdout);
      string cmd = "rm -rf " + sc->dir;
      if (system(cmd.c_str()) != 0) {}
      sc.reset();
    }
  }
  rmdir(base);
  return 0;
}

RegisterComponent reg("engine", run_engine);
}  // namespace
