// C12: real ManifestParser over an in-memory file map; one canonical result line per scenario.
//
// stdin, one scenario per line:   <root-name-hex> <n> <name1-hex> <content1-hex> ... ("-" = empty)
// stdout, one line per scenario:
//   OK P <npools> {<name> <depth>}* D <ndefaults> {<path>}* E <nedges> {<edge>}*
//     <edge> = R <rule> O <n> {<path>}* <implicit_outs> I <n> {<path>}* <implicit_deps>
//              <order_only_deps> V <n> {<path>}* Q <pool-name> <pool-depth> Y <dyndep-node>
//              B <command> <description> <depfile> <dyndep> <rspfile> <rspfile_content> <deps>
//                <restat> <generator> <msvc_deps_prefix> <pool>
//     (all strings hex, "-" when empty; depfile/dyndep/rspfile via GetUnescaped*, the rest via
//      Edge::GetBinding, all evaluated AFTER the whole manifest was loaded)
//   ERR <file-hex> <line> <class>      parse error "<file>:<line>: <message>"
//   FATAL <class>                      the code called Fatal()/exit (cycle | version | other:<hex>)
//   CRASH <signal>                     the child died on a signal
// Every scenario runs in a forked child (Fatal() exits the process).
#include "common.h"

#include <fcntl.h>
#include <sys/types.h>
#include <sys/wait.h>
#include <unistd.h>

#include <algorithm>

#include "disk_interface.h"
#include "graph.h"
#include "manifest_parser.h"
#include "state.h"

namespace {

struct MapFileReader : public FileReader {
  std::map<std::string, std::string> files;
  Status ReadFile(const std::string& path, std::string* contents, std::string* err) override {
    auto it = files.find(path);
    if (it == files.end()) {
      *err = "No such file or directory";
      return NotFound;
    }
    *contents = it->second;
    return Okay;
  }
};

bool starts_with(const std::string& s, const char* p) { return s.compare(0, strlen(p), p) == 0; }
bool contains(const std::string& s, const char* p) { return s.find(p) != std::string::npos; }

std::string token_class(const std::string& n) {
  static const char* tab[][2] = {
      {"lexing error", "error"}, {"'build'", "build"},       {"':'", "colon"},
      {"'default'", "default"},  {"'='", "equals"},          {"identifier", "ident"},
      {"'include'", "include"},  {"indent", "indent"},       {"newline", "newline"},
      {"'||'", "pipe2"},         {"'|'", "pipe"},            {"'|@'", "pipeat"},
      {"'pool'", "pool"},        {"'rule'", "rule"},         {"'subninja'", "subninja"},
      {"eof", "eof"}};
  for (auto& t : tab)
    if (n == t[0]) return t[1];
  return "tok?" + hex(n);
}

// class of a message; |msg| = everything after "<file>:<line>: "
std::string classify(const std::string& msg) {
  std::string first = msg.substr(0, msg.find('\n'));
  static const char* exact[][2] = {
      {"lexing error", "lexing"},
      {"tabs are not allowed, use spaces", "tabs"},
      {"unexpected EOF", "unexpected_eof"},
      {"expected pool name", "expected_pool_name"},
      {"expected rule name", "expected_rule_name"},
      {"expected variable name", "expected_var_name"},
      {"expected target name", "expected_target"},
      {"expected path", "expected_path"},
      {"expected build command name", "expected_rule_ref"},
      {"expected 'depth =' line", "expected_depth"},
      {"expected 'command =' line", "expected_command"},
      {"invalid pool depth", "bad_depth"},
      {"rspfile and rspfile_content need to be both specified", "rspfile"},
      {"empty path", "empty_path"}};
  for (auto& e : exact)
    if (first == e[0]) return e[1];
  if (starts_with(first, "bad $-escape")) return "bad_escape";
  if (starts_with(first, "using $^ escape")) return "newline_version";
  if (starts_with(first, "unexpected variable '")) return "unexpected_var";
  if (starts_with(first, "duplicate pool '")) return "dup_pool";
  if (starts_with(first, "duplicate rule '")) return "dup_rule";
  if (starts_with(first, "unknown target '")) return "unknown_target";
  if (starts_with(first, "unknown build rule '")) return "unknown_rule";
  if (starts_with(first, "unknown pool name '")) return "unknown_pool";
  if (starts_with(first, "multiple rules generate ")) return "multiple_rules";
  if (starts_with(first, "loading '")) return "loading";
  if (starts_with(first, "include nesting too deep")) return "include_depth";
  if (starts_with(first, "dyndep '") && contains(msg, "' is not an input")) return "dyndep_not_input";
  if (contains(msg, " is defined as an output multiple times")) return "output_twice";
  if (starts_with(first, "expected ")) {
    size_t g = first.find(", got ");
    if (g != std::string::npos) {
      std::string want = first.substr(9, g - 9);
      std::string got = first.substr(g + 6);
      const char* hint = " ($ also escapes ':')";
      size_t h = got.find(hint);
      if (h != std::string::npos) got = got.substr(0, h);
      return "expected:" + token_class(want) + ":" + token_class(got);
    }
  }
  if (starts_with(first, "unexpected ")) return "unexpected:" + token_class(first.substr(11));
  return "other:" + hex(msg);
}

std::string path_list(const std::vector<Node*>& v) {
  std::string r = std::to_string(v.size());
  for (Node* n : v) r += " " + hex(n->path());
  return r;
}

std::string run_scenario(const std::string& line) {
  std::vector<std::string> w = split_ws(line);
  if (w.size() < 2) return "BADLINE";
  std::string root = unhex(w[0]);
  size_t n = (size_t)atoi(w[1].c_str());
  if (w.size() != 2 + 2 * n) return "BADLINE";
  MapFileReader fr;
  std::vector<std::string> names;
  names.push_back(root);
  for (size_t i = 0; i < n; i++) {
    std::string name = unhex(w[2 + 2 * i]);
    fr.files[name] = unhex(w[3 + 2 * i]);
    names.push_back(name);
  }
  // longest names first, so that "a:1" is preferred over "a" when both are files
  std::sort(names.begin(), names.end(),
            [](const std::string& a, const std::string& b) { return a.size() > b.size(); });

  State state;
  ManifestParser parser(&state, &fr);
  std::string err;
  if (!parser.Load(root, &err)) {
    for (const std::string& name : names) {
      if (err.compare(0, name.size(), name) != 0) continue;
      size_t p = name.size();
      if (p >= err.size() || err[p] != ':') continue;
      size_t q = p + 1;
      while (q < err.size() && err[q] >= '0' && err[q] <= '9') q++;
      if (q == p + 1 || q + 1 >= err.size() || err[q] != ':' || err[q + 1] != ' ') continue;
      std::string ln = err.substr(p + 1, q - p - 1);
      return "ERR " + hex(name) + " " + ln + " " + classify(err.substr(q + 2));
    }
    return "ERR - 0 " + classify(err);
  }

  std::string out = "OK P " + std::to_string(state.pools_.size());
  for (auto& kv : state.pools_)
    out += " " + hex(kv.first) + " " + std::to_string(kv.second->depth());
  out += " D " + path_list(state.defaults_);
  out += " E " + std::to_string(state.edges_.size());
  for (Edge* e : state.edges_) {
    out += " R " + hex(e->rule_->name());
    out += " O " + path_list(e->outputs_) + " " + std::to_string(e->implicit_outs_);
    out += " I " + path_list(e->inputs_) + " " + std::to_string(e->implicit_deps_) + " " +
           std::to_string(e->order_only_deps_);
    out += " V " + path_list(e->validations_);
    out += " Q " + hex(e->pool_->name()) + " " + std::to_string(e->pool_->depth());
    out += " Y " + (e->dyndep_ ? hex(e->dyndep_->path()) : std::string("-"));
    out += " B " + hex(e->GetBinding("command"));
    out += " " + hex(e->GetBinding("description"));
    out += " " + hex(e->GetUnescapedDepfile());
    out += " " + hex(e->GetUnescapedDyndep());
    out += " " + hex(e->GetUnescapedRspfile());
    out += " " + hex(e->GetBinding("rspfile_content"));
    out += " " + hex(e->GetBinding("deps"));
    out += " " + hex(e->GetBinding("restat"));
    out += " " + hex(e->GetBinding("generator"));
    out += " " + hex(e->GetBinding("msvc_deps_prefix"));
    out += " " + hex(e->GetBinding("pool"));
  }
  return out;
}

int run_manifest(int, char**) {
  // All input is read before the first fork: a child that leaves through exit() (Fatal) makes
  // glibc seek the shared stdin offset back to its logical position, which would make the
  // parent read the same lines again.
  std::vector<std::string> lines;
  {
    std::string l;
    while (std::getline(std::cin, l)) lines.push_back(l);
  }
  for (const std::string& line : lines) {
    fflush(stdout);
    int efd[2];
    if (pipe(efd) != 0) { perror("pipe"); return 3; }
    pid_t pid = fork();
    if (pid < 0) { perror("fork"); return 3; }
    if (pid == 0) {
      close(efd[0]);
      dup2(efd[1], 2);
      close(efd[1]);
      int nfd = open("/dev/null", O_RDONLY);
      if (nfd >= 0) { dup2(nfd, 0); close(nfd); }
      std::string r = run_scenario(line);
      printf("%s\n", r.c_str());
      fflush(stdout);
      _exit(0);
    }
    close(efd[1]);
    std::string errtext;
    char buf[4096];
    ssize_t k;
    while ((k = read(efd[0], buf, sizeof buf)) > 0) errtext.append(buf, (size_t)k);
    close(efd[0]);
    int status = 0;
    waitpid(pid, &status, 0);
    if (WIFSIGNALED(status)) {
      printf("CRASH %d\n", WTERMSIG(status));
    } else if (!WIFEXITED(status) || WEXITSTATUS(status) != 0) {
      std::string cls;
      size_t f = errtext.find("ninja: fatal: ");
      std::string m = f == std::string::npos ? errtext : errtext.substr(f + 14);
      if (starts_with(m, "cycle in rule variables")) cls = "cycle";
      else if (starts_with(m, "ninja version (")) cls = "version";
      else cls = "other:" + hex(m);
      printf("FATAL %s\n", cls.c_str());
    }
  }
  return 0;
}

}  // namespace

static RegisterComponent reg("manifest", run_manifest);
