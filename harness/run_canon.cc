// C14: real CanonicalizePath on an exact-size heap buffer (ASan sees any access outside [0,len)).
#include "common.h"
#include "util.h"

static int run_canon(int, char**) {
  std::string line;
  while (std::getline(std::cin, line)) {
    std::string s = unhex(line);
    size_t len = s.size();
    char* buf = (char*)malloc(len ? len : 1);
    memcpy(buf, s.data(), len);
    uint64_t bits = 0;
    CanonicalizePath(buf, &len, &bits);
    std::string out(buf, len);
    free(buf);
    printf("%s\n", hex(out).c_str());
  }
  return 0;
}
static RegisterComponent reg("canon", run_canon);
