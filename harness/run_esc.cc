// C16/C19: the real shell escaper through Edge::EvaluateCommand ($in / $in_newline / $out lists)
// and the real JSON string encoder.
#include "common.h"
#include <memory>
#include "graph.h"
#include "state.h"
#include "eval_env.h"
#include "json.h"
#include "util.h"

// line: <var: in|in_newline|out> <name-hex>...   -> hex of the evaluated command
static int run_pathlist(int, char**) {
  std::string line;
  while (std::getline(std::cin, line)) {
    std::vector<std::string> w = split_ws(line);
    if (w.empty()) { printf("-\n"); continue; }
    State state;
    Rule* rule = new Rule("r");
    EvalString cmd; cmd.AddSpecial(w[0]);
    rule->AddBinding("command", cmd);
    state.bindings_.AddRule(std::unique_ptr<const Rule>(rule));
    Edge* edge = state.AddEdge(rule);
    std::string err;
    if (w[0] == "out") {
      for (size_t i = 1; i < w.size(); ++i) state.AddOut(edge, unhex(w[i]), 0, &err);
    } else {
      for (size_t i = 1; i < w.size(); ++i) state.AddIn(edge, unhex(w[i]), 0);
      state.AddOut(edge, "out", 0, &err);
    }
    printf("%s\n", hex(edge->EvaluateCommand()).c_str());
  }
  return 0;
}
static int run_json(int, char**) {
  std::string line;
  while (std::getline(std::cin, line)) printf("%s\n", hex(EncodeJSONString(unhex(line))).c_str());
  return 0;
}
static int run_esc(int, char**) {
  std::string line;
  while (std::getline(std::cin, line)) {
    std::string r; GetShellEscapedString(unhex(line), &r);
    printf("%s\n", hex(r).c_str());
  }
  return 0;
}
static RegisterComponent r1("pathlist", run_pathlist);
static RegisterComponent r2("json", run_json);
static RegisterComponent r3("esc", run_esc);
