// C08: the real BuildLog (Load / OpenForWrite / RecordCommand / Close / Recompact / Restat) on real files.
// Same line protocol as extract/buildlog_run.ml (see there):
//   byte strings hex ("-" = empty); entry = <name-hex>:<start>:<end>:<mtime>:<hash16>[:<cmd-hex>]; lists comma separated
//   load <file>                           -> LOAD
//   append <file> <entries>               -> <file'> LOAD(file')
//   session <file> <dead-names> <entries> -> <file'> LOAD(file')
//   recompact <file> <dead-names>         -> <file'> LOAD(file')   (ninja -t recompact: Load; Recompact unless discarded)
//   restat <file> <name:mtime,..> <names> -> <file'> LOAD(file')   (prefix "restat-failed " when Restat returned false)
//   hash <cmd-hex>                        -> hash16 of BuildLog::LogEntry::HashCommand
//   LOAD = discard old|new warn=<0|1> | ok recompact=<0|1> <entries sorted by name-hex>... | error <hex>
// An entry WITH a command text is recorded through RecordCommand on a real Edge (consecutive entries with the
// same command/times and distinct names form ONE multi-output edge); the hash16 given is then ignored (the
// caller learnt it from `hash`).  An entry WITHOUT command text carries an arbitrary hash and is written with
// the real WriteEntry + fflush on a second append-mode stream (the header logic stays BuildLog's: Close()).
#include "common.h"
#include <errno.h>
#include <sys/stat.h>
#include <unistd.h>
#include <algorithm>
#include <map>
#include <memory>
#include <set>
#include "build_log.h"
#include "disk_interface.h"
#include "eval_env.h"
#include "graph.h"
#include "state.h"
#include "util.h"

namespace {

std::string g_dir;

void Cleanup() {
  if (g_dir.empty()) return;
  const char* names[] = { "log", "log.recompact", "log.restat", "probe", "probe.recompact" };
  for (const char* n : names) unlink((g_dir + "/" + n).c_str());
  rmdir(g_dir.c_str());
}

struct Ent {
  std::string name; int start, end; int64_t mtime; uint64_t hash; bool has_cmd; std::string cmd;
};

std::vector<std::string> SplitChar(const std::string& s, char c) {
  std::vector<std::string> v; size_t a = 0;
  for (;;) {
    size_t b = s.find(c, a);
    if (b == std::string::npos) { v.push_back(s.substr(a)); return v; }
    v.push_back(s.substr(a, b - a)); a = b + 1;
  }
}
std::vector<std::string> SplitList(const std::string& s) {
  if (s == "-") return std::vector<std::string>();
  return SplitChar(s, ',');
}
std::vector<Ent> ParseEntries(const std::string& s) {
  std::vector<Ent> r;
  for (const std::string& t : SplitList(s)) {
    std::vector<std::string> f = SplitChar(t, ':');
    if (f.size() < 5) { fprintf(stderr, "bad entry %s\n", t.c_str()); exit(3); }
    Ent e;
    e.name = unhex(f[0]); e.start = (int)strtoll(f[1].c_str(), NULL, 10); e.end = (int)strtoll(f[2].c_str(), NULL, 10);
    e.mtime = strtoll(f[3].c_str(), NULL, 10); e.hash = strtoull(f[4].c_str(), NULL, 16);
    e.has_cmd = f.size() > 5; if (e.has_cmd) e.cmd = unhex(f[5]);
    r.push_back(e);
  }
  return r;
}

void PutFile(const std::string& path, const std::string& content) {
  FILE* f = fopen(path.c_str(), "wb");
  if (!f) { perror("harness: fopen"); exit(3); }
  if (!content.empty() && fwrite(content.data(), 1, content.size(), f) != content.size()) { perror("harness: fwrite"); exit(3); }
  fclose(f);
}
bool Exists(const std::string& path) { struct stat st; return stat(path.c_str(), &st) == 0; }
std::string GetFile(const std::string& path) {
  std::string r; FILE* f = fopen(path.c_str(), "rb");
  if (!f) return r;
  char buf[65536]; size_t n;
  while ((n = fread(buf, 1, sizeof buf, f)) > 0) r.append(buf, n);
  fclose(f);
  return r;
}

struct DeadUser : public BuildLogUser {
  std::set<std::string> dead;
  mutable int calls = 0;
  bool IsPathDead(StringPiece s) const override { ++calls; return dead.count(s.AsString()) != 0; }
};
DeadUser UserOf(const std::string& list) {
  DeadUser u;
  for (const std::string& h : SplitList(list)) u.dead.insert(unhex(h));
  return u;
}

struct MapDisk : public DiskInterface {
  std::map<std::string, TimeStamp> mtimes;
  TimeStamp Stat(const std::string& path, std::string* err) const override {
    auto i = mtimes.find(path);
    if (i == mtimes.end()) return 0;
    if (i->second == -1) *err = "stat failed";
    return i->second;
  }
  bool WriteFile(const std::string&, const std::string&, bool) override { return false; }
  bool MakeDir(const std::string&) override { return false; }
  Status ReadFile(const std::string&, std::string*, std::string* err) override { *err = "no"; return OtherError; }
  int RemoveFile(const std::string&) override { return -1; }
};

std::string ShowEntries(const BuildLog& log) {
  std::vector<std::string> v;
  for (const auto& p : log.entries()) {
    const BuildLog::LogEntry& e = *p.second;
    char num[128];
    snprintf(num, sizeof num, ":%d:%d:%lld:%llx", e.start_time, e.end_time, (long long)e.mtime, (unsigned long long)e.command_hash);
    v.push_back(hex(e.output) + num);
  }
  std::sort(v.begin(), v.end());
  std::string r;
  for (const std::string& s : v) { r += " "; r += s; }
  return r;
}

// LOAD of the file at `path` with a fresh BuildLog (the file may be unlinked by Load).
// needs_recompaction_ is private: it is observed through its consequence, OpenForWrite (on a scratch
// path) recompacting, i.e. asking the user about the entries (a recompaction implies >= 1 entry).
std::string ShowLoad(const std::string& path) {
  BuildLog log; std::string err;
  LoadStatus st = log.Load(path, &err);
  if (st == LOAD_ERROR) return "error " + hex(err);
  if (st == LOAD_NOT_FOUND) {
    std::string r = err.find("too old") != std::string::npos ? "discard old" : err.find("too new") != std::string::npos ? "discard new" : "discard ?";
    r += err.empty() ? " warn=0" : " warn=1";
    if (Exists(path)) r += " not-unlinked";
    return r;
  }
  DeadUser probe; std::string perr;
  std::string scratch = g_dir + "/probe";
  PutFile(scratch, "");                    // ReplaceContent unlinks the destination first and fails if it is absent
  bool ok = log.OpenForWrite(scratch, probe, &perr);
  std::string r = probe.calls > 0 ? "ok recompact=1" : "ok recompact=0";
  if (!ok) r = "ok recompact=error:" + hex(perr);
  r += ShowEntries(log);
  if (!err.empty()) r += " warn=" + hex(err);
  log.Close();
  unlink(scratch.c_str());
  return r;
}

std::string FileAndReload(const std::string& path) {
  if (!Exists(path)) PutFile(path, "");   // a log unlinked by Load == an empty log for the next reader
  std::string content = GetFile(path);
  return hex(content) + " " + ShowLoad(path);
}

// records the entries into `log` (already OpenForWrite'n on `path`)
bool Record(BuildLog& log, const std::string& path, const std::vector<Ent>& es) {
  FILE* raw = NULL;
  bool ok = true;
  size_t i = 0;
  while (i < es.size() && ok) {
    const Ent& e = es[i];
    if (!e.has_cmd) {
      if (!raw) {
        log.Close();                       // BuildLog creates the file / writes the signature if it is empty
        raw = fopen(path.c_str(), "ab");
        if (!raw) { perror("harness: fopen ab"); exit(3); }
      }
      BuildLog::LogEntry le(e.name, e.hash, e.start, e.end, e.mtime);
      ok = log.WriteEntry(raw, le) && fflush(raw) == 0;
      ++i; continue;
    }
    size_t j = i + 1;
    std::set<std::string> names; names.insert(e.name);
    while (j < es.size() && es[j].has_cmd && es[j].cmd == e.cmd && es[j].start == e.start && es[j].end == e.end &&
           es[j].mtime == e.mtime && !names.count(es[j].name)) { names.insert(es[j].name); ++j; }
    State* state = new State;              // never freed: nodes/edges are not owned by State anyway
    Rule* rule = new Rule("r");
    EvalString cmd; cmd.AddText(e.cmd);
    rule->AddBinding("command", cmd);
    state->bindings_.AddRule(std::unique_ptr<const Rule>(rule));
    Edge* edge = state->AddEdge(rule);
    std::string err;
    for (size_t k = i; k < j; ++k)
      if (!state->AddOut(edge, es[k].name, 0, &err)) { fprintf(stderr, "harness: AddOut: %s\n", err.c_str()); exit(3); }
    ok = log.RecordCommand(edge, e.start, e.end, e.mtime);
    i = j;
  }
  if (raw) fclose(raw);
  return ok;
}

int run_buildlog(int, char**) {
  const char* base = getenv("VERIF_BUILDLOG_TMP");
  std::string tmpl = std::string(base && *base ? base : "/dev/shm") + "/c08-XXXXXX";
  std::vector<char> t(tmpl.begin(), tmpl.end()); t.push_back(0);
  if (!mkdtemp(t.data())) { perror("harness: mkdtemp"); return 3; }
  g_dir = t.data();
  atexit(Cleanup);
  const std::string path = g_dir + "/log";
  std::string line;
  while (std::getline(std::cin, line)) {
    std::vector<std::string> w = split_ws(line);
    std::string out = "?";
    unlink(path.c_str());
    if (w.size() == 2 && w[0] == "hash") {
      std::string c = unhex(w[1]);
      char num[32]; snprintf(num, sizeof num, "%llx", (unsigned long long)BuildLog::LogEntry::HashCommand(c));
      out = num;
    } else if (w.size() == 2 && w[0] == "load") {
      PutFile(path, unhex(w[1]));
      out = ShowLoad(path);
    } else if (w.size() == 3 && w[0] == "append") {
      std::string content = unhex(w[1]);
      if (!content.empty()) PutFile(path, content);
      DeadUser user; std::string err;
      {
        BuildLog log;
        bool ok = log.OpenForWrite(path, user, &err) && Record(log, path, ParseEntries(w[2]));
        log.Close();
        out = ok ? "" : "write-failed ";
      }
      out += FileAndReload(path);
    } else if (w.size() == 4 && w[0] == "session") {
      PutFile(path, unhex(w[1]));
      DeadUser user = UserOf(w[2]); std::string err;
      out = "";
      {
        BuildLog log;
        LoadStatus st = log.Load(path, &err);
        if (st == LOAD_ERROR) out = "load-error ";
        err.clear();                          // a warning only (ninja.cc OpenBuildLog)
        bool ok = log.OpenForWrite(path, user, &err) && Record(log, path, ParseEntries(w[3]));
        log.Close();
        if (!ok) out += "write-failed ";
      }
      out += FileAndReload(path);
    } else if (w.size() == 3 && w[0] == "recompact") {
      PutFile(path, unhex(w[1]));
      DeadUser user = UserOf(w[2]); std::string err;
      out = "";
      {
        BuildLog log;
        // ninja -t recompact (NinjaMain::OpenBuildLog(recompact_only)): nothing to do when Load discarded the log
        LoadStatus st = log.Load(path, &err);
        if (st == LOAD_ERROR) out = "load-error ";
        err.clear();
        if (st == LOAD_SUCCESS && !log.Recompact(path, user, &err)) out += "recompact-failed ";
      }
      out += FileAndReload(path);
    } else if (w.size() == 4 && w[0] == "restat") {
      PutFile(path, unhex(w[1]));
      MapDisk disk;
      for (const std::string& s : SplitList(w[2])) {
        std::vector<std::string> f = SplitChar(s, ':');
        if (f.size() != 2) { fprintf(stderr, "bad stat %s\n", s.c_str()); exit(3); }
        disk.mtimes[unhex(f[0])] = strtoll(f[1].c_str(), NULL, 10);
      }
      std::vector<std::string> names;
      for (const std::string& h : SplitList(w[3])) names.push_back(unhex(h));
      std::vector<char*> argv;
      for (std::string& n : names) argv.push_back(const_cast<char*>(n.c_str()));
      out = "";
      {
        // NinjaMain::ToolRestat: Load; LOAD_NOT_FOUND => nothing to do; Restat; OpenForWrite
        BuildLog log; std::string err;
        LoadStatus st = log.Load(path, &err);
        if (st == LOAD_ERROR) out = "load-error ";
        else if (st == LOAD_SUCCESS) {
          err.clear();
          if (!log.Restat(path, disk, (int)argv.size(), argv.data(), &err)) out = "restat-failed ";
          else {
            DeadUser nobody;
            if (!log.OpenForWrite(path, nobody, &err)) out = "open-failed ";
          }
        }
      }
      unlink((path + ".restat").c_str());
      out += FileAndReload(path);
    }
    fputs(out.c_str(), stdout); fputc('\n', stdout);
  }
  return 0;
}

}  // namespace
static RegisterComponent reg("buildlog", run_buildlog);
