// C13: the small readers that have no model of their own -- CLParser (/showIncludes output), the MAKEFLAGS
// parser, ElideMiddle and the progress-status format expansion -- on arbitrary bytes under ASan/UBSan.
// Each case runs in the caller's process; a crash/abort/sanitizer report of impl_run IS the observation
// (the python side bisects to the offending case).  FormatProgressStatus calls Fatal() (exit 1) for an
// unknown placeholder: that is "reports an error", so that component forks per case.
#include "common.h"
#include <string.h>
#include <stdlib.h>
#include <sys/wait.h>
#include <unistd.h>
#include "build.h"
#include "clparser.h"
#include "elide_middle.h"
#include "jobserver.h"
#include "status_printer.h"

// line: <output-hex> <prefix-hex>
static int run_clparser(int, char**) {
  std::string line;
  while (std::getline(std::cin, line)) {
    std::vector<std::string> w = split_ws(line);
    CLParser p; std::string filtered, err;
    bool ok = p.Parse(unhex(w[0]), w.size() > 1 ? unhex(w[1]) : "", &filtered, &err);
    std::string inc;
    for (auto& i : p.includes_) inc += (inc.empty() ? "" : ",") + hex(i);
    printf("%s %s %s\n", ok ? "OK" : "ERR", hex(filtered).c_str(), inc.empty() ? "-" : inc.c_str());
  }
  return 0;
}
static int run_makeflags(int, char**) {
  std::string line;
  while (std::getline(std::cin, line)) {
    std::string v = unhex(line), err;
    Jobserver::Config cfg;
    bool ok = Jobserver::ParseMakeFlagsValue(v.c_str(), &cfg, &err);
    Jobserver::Config cfg2; std::string err2;
    bool ok2 = Jobserver::ParseNativeMakeFlagsValue(v.c_str(), &cfg2, &err2);
    // ok ok_native mode path-hex err-hex err_native-hex mode_native path_native-hex
    printf("%d %d %d %s %s %s %d %s\n", ok, ok2, (int)cfg.mode, hex(cfg.path).c_str(), hex(err).c_str(), hex(err2).c_str(),
           (int)cfg2.mode, hex(cfg2.path).c_str());
  }
  return 0;
}
// line: <text-hex> <width>
static int run_elide(int, char**) {
  std::string line;
  while (std::getline(std::cin, line)) {
    std::vector<std::string> w = split_ws(line);
    std::string s = unhex(w[0]);
    ElideMiddleInPlace(s, (size_t)atol(w[1].c_str()));
    printf("%s\n", hex(s).c_str());
  }
  return 0;
}
// line: <format-hex>
static int run_statusfmt(int, char**) {
  std::string line;
  std::vector<std::string> lines;
  while (std::getline(std::cin, line)) lines.push_back(line);
  for (auto& l : lines) {
    fflush(stdout);
    pid_t pid = fork();
    if (pid == 0) {
      BuildConfig cfg; StatusPrinter sp(cfg);
      std::string f = unhex(l);
      // an exact-size heap copy: a read behind the terminating NUL is a heap-buffer-overflow for ASan
      char* exact = (char*)malloc(f.size() + 1);
      memcpy(exact, f.c_str(), f.size() + 1);
      std::string r = sp.FormatProgressStatus(exact, 0);
      printf("OK %s\n", hex(r).c_str());
      fflush(stdout); _exit(0);
    }
    int st = 0; waitpid(pid, &st, 0);
    if (WIFSIGNALED(st)) printf("CRASH %d\n", WTERMSIG(st));
    else if (WEXITSTATUS(st) == 1) printf("FATAL\n");           // unknown placeholder: reported, not a crash
    else if (WEXITSTATUS(st) != 0) printf("CRASH exit%d\n", WEXITSTATUS(st));
  }
  return 0;
}
static RegisterComponent r1("clparser", run_clparser);
static RegisterComponent r2("makeflags", run_makeflags);
static RegisterComponent r3("elide", run_elide);
static RegisterComponent r4("statusfmt", run_statusfmt);
