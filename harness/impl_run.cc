// impl_run: drives the real ninja code (compiled from /repo's working tree) on the same case
// lines the extracted model consumes.  Usage: impl_run <component> [args]  (cases on stdin)
#include "common.h"

std::map<std::string, ComponentFn>& Components() {
  static std::map<std::string, ComponentFn> m;
  return m;
}

int main(int argc, char** argv) {
  if (argc < 2) { fprintf(stderr, "usage: impl_run <component>\n"); return 2; }
  auto it = Components().find(argv[1]);
  if (it == Components().end()) { fprintf(stderr, "unknown component %s\n", argv[1]); return 2; }
  return it->second(argc - 2, argv + 2);
}
