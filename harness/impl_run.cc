// impl_run: drives the real ninja code (compiled from /repo's working tree) on the same case
// lines the extracted model consumes.  Usage: impl_run <component>  (cases on stdin)
#include "common.h"
#include "util.h"

int run_canon();

int run_canon() {
  std::string line;
  while (std::getline(std::cin, line)) {
    std::string s = unhex(line);
    // exact-size heap buffer so that ASan sees any access outside [0,len)
    size_t len = s.size();
    char* buf = (char*)malloc(len ? len : 1);
    memcpy(buf, s.data(), len);
    uint64_t bits = 0;
    CanonicalizePath(buf, &len, &bits);
    std::string out(buf, len);
    free(buf);
    printf("%s\n", hex(out).c_str());
  }
  return 0;
}

int main(int argc, char** argv) {
  if (argc < 2) { fprintf(stderr, "usage: impl_run <component>\n"); return 2; }
  std::string c = argv[1];
  if (c == "canon") return run_canon();
  fprintf(stderr, "unknown component %s\n", c.c_str());
  return 2;
}
