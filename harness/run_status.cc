// C20 (output part): drives the REAL StatusPrinter / LinePrinter (and, through them, ElideMiddleInPlace
// and StripAnsiEscapeCodes) with scripted Status call sequences and captures the bytes they write to
// stdout and stderr.  Each script runs in a forked child whose fd 1 is a pipe (dumb terminal, as when
// ninja's output is piped) or the slave of a raw-mode pseudo terminal with a given width (smart
// terminal); Fatal() therefore ends only the child.  Edges are real Edge objects of a small State
// (bindings description/command, pool console, real output Nodes).
//
// stdin, blocks (same text the model driver extract/status_run.ml reads):
//   script <id> tty=<0|1> verb=<0..3> color=<0|1> width=<n> fmt=<default|-|hex> eval=<none|-|Lhex,Vhex,...> [times=<keyhex,...>]
//   edge <k> <console 0|1> <desc-hex> <cmd-hex> <out-hex,out-hex,...|->
//   c added <k> | c removed <k> | c started <k> | c finished <k> <code> <output-hex>
//   c buildstarted | c buildfinished | c lock <0|1> | c newline | c info <hex> | c warning <hex> | c error <hex>
//   end
// stdout per block:
//   time <call-index> <key-hex> <text-hex>     what each time-dependent placeholder listed in times= printed
//                                              at the calls that evaluated the format (model parameter)
//   result <id> rc=<exit code, 1 = Fatal, 1000+signal> out=<hex> err=<hex>
// Other components: status_elide (lines "<width> <hex>"), status_strip (lines "<hex>").
#include "common.h"

#include <errno.h>
#include <fcntl.h>
#include <poll.h>
#include <pty.h>
#include <signal.h>
#include <sys/ioctl.h>
#include <sys/wait.h>
#include <termios.h>
#include <unistd.h>

#include <memory>

// printer_ is private; the harness needs it for the "lock" call (LinePrinter::SetConsoleLocked on its
// own) and to read is_smart_terminal()
#define private public
#include "status_printer.h"
#undef private
#include "build.h"
#include "elide_middle.h"
#include "eval_env.h"
#include "graph.h"
#include "state.h"
#include "util.h"

namespace {

struct Script {
  std::string id;
  std::map<std::string, std::string> opt;
  std::vector<std::vector<std::string> > edges;
  std::vector<std::vector<std::string> > calls;
};

std::string Opt(const Script& s, const char* k, const char* dflt) {
  auto i = s.opt.find(k);
  return i == s.opt.end() ? std::string(dflt) : i->second;
}

std::vector<std::string> SplitComma(const std::string& s) {
  std::vector<std::string> v;
  if (s == "-" || s.empty()) return v;
  size_t a = 0;
  for (;;) {
    size_t b = s.find(',', a);
    v.push_back(s.substr(a, b == std::string::npos ? b : b - a));
    if (b == std::string::npos) break;
    a = b + 1;
  }
  return v;
}

// The child: everything the real classes write goes to fds 1 and 2; probes go to probe_fd.
void Child(const Script& s, int probe_fd) {
  const bool tty = Opt(s, "tty", "0") == "1";
  const int verb = atoi(Opt(s, "verb", "2").c_str());
  const bool color = Opt(s, "color", "0") == "1";
  const std::string fmt = Opt(s, "fmt", "default");
  const std::string eval = Opt(s, "eval", "none");
  std::vector<std::string> times = SplitComma(Opt(s, "times", "-"));

  unsetenv("NO_COLOR"); unsetenv("CLICOLOR_FORCE"); unsetenv("FORCE_COLOR"); unsetenv("NINJA_STATUS");
  setenv("TERM", tty ? "xterm" : "dumb", 1);
  if (tty && !color) setenv("NO_COLOR", "1", 1);
  if (!tty && color) setenv("CLICOLOR_FORCE", "1", 1);
  if (fmt != "default") setenv("NINJA_STATUS", unhex(fmt).c_str(), 1);

  BuildConfig config;
  config.verbosity = verb == 0 ? BuildConfig::QUIET : verb == 1 ? BuildConfig::NO_STATUS_UPDATE
                   : verb == 2 ? BuildConfig::NORMAL : BuildConfig::VERBOSE;
  std::string status_arg;
  const bool eval_mode = eval != "none";
  if (eval_mode) {
    for (const std::string& t : SplitComma(eval)) {
      std::string body = unhex(t.substr(1));
      if (t[0] == 'V') status_arg += "${" + body + "}"; else status_arg += body;
    }
    config.progress_status_format = status_arg.c_str();
  }

  State state;
  std::vector<Edge*> edges;
  for (const auto& w : s.edges) {
    Rule* rule = new Rule("r" + std::to_string(edges.size()));
    std::string desc = unhex(w[3]), cmd = unhex(w[4]);
    if (!desc.empty()) { EvalString e; e.AddText(desc); rule->AddBinding("description", e); }
    if (!cmd.empty()) { EvalString e; e.AddText(cmd); rule->AddBinding("command", e); }
    state.bindings_.AddRule(std::unique_ptr<const Rule>(rule));
    Edge* edge = state.AddEdge(rule);
    if (w[2] == "1") edge->pool_ = &State::kConsolePool;
    std::string err;
    for (const std::string& o : SplitComma(w[5])) {
      if (!state.AddOut(edge, unhex(o), 0, &err)) { fprintf(stderr, "harness: AddOut failed: %s\n", err.c_str()); _exit(97); }
    }
    edges.push_back(edge);
  }

  StatusPrinter sp(config);
  const bool is_smart = sp.printer_.is_smart_terminal();
  std::string probes;
  std::map<Edge*, int64_t> start_time;
  auto E = [&](const std::string& k) -> Edge* {
    size_t i = (size_t)atoi(k.c_str());
    if (i >= edges.size()) { fprintf(stderr, "harness: bad edge %s\n", k.c_str()); _exit(97); }
    return edges[i];
  };
  for (size_t idx = 0; idx < s.calls.size(); ++idx) {
    const std::vector<std::string>& w = s.calls[idx];
    const std::string& k = w[1];
    const int64_t now = 137 * (int64_t)(idx + 1);
    bool evaluated = false;   // did this call evaluate the status format?
    if (k == "added") sp.EdgeAddedToPlan(E(w[2]));
    else if (k == "removed") sp.EdgeRemovedFromPlan(E(w[2]));
    else if (k == "started") {
      Edge* e = E(w[2]);
      start_time[e] = now;
      sp.BuildEdgeStarted(e, now);
      evaluated = verb >= 2 && (e->use_console() || is_smart);
    } else if (k == "finished") {
      Edge* e = E(w[2]);
      int64_t st = start_time.count(e) ? start_time[e] : 0;
      sp.BuildEdgeFinished(e, st, now, (ExitStatus)atoi(w[3].c_str()), unhex(w[4]));
      evaluated = verb >= 2 && !e->use_console();
    } else if (k == "buildstarted") sp.BuildStarted();
    else if (k == "buildfinished") sp.BuildFinished();
    else if (k == "lock") sp.printer_.SetConsoleLocked(w[2] == "1");
    else if (k == "newline") sp.NewLine();
    else if (k == "info") sp.Info("%s", unhex(w[2]).c_str());
    else if (k == "warning") sp.Warning("%s", unhex(w[2]).c_str());
    else if (k == "error") sp.Error("%s", unhex(w[2]).c_str());
    else { fprintf(stderr, "harness: bad call %s\n", k.c_str()); _exit(97); }
    if (evaluated) {
      for (const std::string& key : times) {
        std::string name = unhex(key);
        std::string v = eval_mode ? sp.FormatStatusVariable(name)
                                  : sp.FormatProgressStatus(("%" + name).c_str(), now);
        probes += "time " + std::to_string(idx) + " " + key + " " + hex(v) + "\n";
      }
    }
  }
  fflush(stdout);
  fflush(stderr);
  size_t off = 0;
  while (off < probes.size()) {
    ssize_t n = write(probe_fd, probes.data() + off, probes.size() - off);
    if (n <= 0) break;
    off += (size_t)n;
  }
  exit(0);
}

int RunOne(const Script& s) {
  const bool tty = Opt(s, "tty", "0") == "1";
  int out_r = -1, out_w = -1, err_p[2], prb_p[2];
  if (tty) {
    struct termios tio;
    memset(&tio, 0, sizeof tio);
    cfmakeraw(&tio);
    struct winsize ws;
    memset(&ws, 0, sizeof ws);
    ws.ws_col = (unsigned short)atoi(Opt(s, "width", "0").c_str());
    ws.ws_row = 24;
    if (openpty(&out_r, &out_w, NULL, &tio, &ws) != 0) { perror("openpty"); return 3; }
  } else {
    int p[2];
    if (pipe(p) != 0) { perror("pipe"); return 3; }
    out_r = p[0]; out_w = p[1];
  }
  if (pipe(err_p) != 0 || pipe(prb_p) != 0) { perror("pipe"); return 3; }
  fflush(stdout);
  fflush(stderr);
  pid_t pid = fork();
  if (pid < 0) { perror("fork"); return 3; }
  if (pid == 0) {
    close(out_r); close(err_p[0]); close(prb_p[0]);
    dup2(out_w, 1); dup2(err_p[1], 2);
    close(out_w); close(err_p[1]);
    int dn = open("/dev/null", O_RDONLY);
    if (dn >= 0) { dup2(dn, 0); close(dn); }
    Child(s, prb_p[1]);
    _exit(96);
  }
  close(out_w); close(err_p[1]); close(prb_p[1]);
  std::string bufs[3];
  struct pollfd fds[3] = { { out_r, POLLIN, 0 }, { err_p[0], POLLIN, 0 }, { prb_p[0], POLLIN, 0 } };
  int open_n = 3;
  while (open_n > 0) {
    int r = poll(fds, 3, -1);
    if (r < 0) { if (errno == EINTR) continue; break; }
    for (int i = 0; i < 3; ++i) {
      if (fds[i].fd < 0 || !(fds[i].revents & (POLLIN | POLLHUP | POLLERR))) continue;
      char b[65536];
      ssize_t n = read(fds[i].fd, b, sizeof b);
      if (n > 0) bufs[i].append(b, (size_t)n);
      else if (n == 0 || (errno != EINTR && errno != EAGAIN)) {   // EOF, or EIO of a pty whose slave is closed
        close(fds[i].fd); fds[i].fd = -1; --open_n;
      }
    }
  }
  int st = 0;
  waitpid(pid, &st, 0);
  int rc = WIFEXITED(st) ? WEXITSTATUS(st) : 1000 + WTERMSIG(st);
  fputs(bufs[2].c_str(), stdout);
  printf("result %s rc=%d out=%s err=%s\n", s.id.c_str(), rc, hex(bufs[0]).c_str(), hex(bufs[1]).c_str());
  return 0;
}

int run_status(int, char**) {
  signal(SIGPIPE, SIG_IGN);
  Script cur;
  std::string line;
  while (std::getline(std::cin, line)) {
    std::vector<std::string> w = split_ws(line);
    if (w.empty()) continue;
    if (w[0] == "script") {
      cur = Script();
      cur.id = w.size() > 1 ? w[1] : "?";
      for (size_t i = 2; i < w.size(); ++i) {
        size_t eq = w[i].find('=');
        if (eq != std::string::npos) cur.opt[w[i].substr(0, eq)] = w[i].substr(eq + 1);
      }
    } else if (w[0] == "edge") {
      if (w.size() != 6) { fprintf(stderr, "bad edge line\n"); return 3; }
      cur.edges.push_back(w);
    } else if (w[0] == "c") {
      size_t need = w.size() < 2 ? 99 : (w[1] == "finished" ? 5 : (w[1] == "buildstarted" || w[1] == "buildfinished" || w[1] == "newline") ? 2 : 3);
      if (w.size() != need) { fprintf(stderr, "bad call line: %s\n", line.c_str()); return 3; }
      cur.calls.push_back(w);
    } else if (w[0] == "time") {
      // model-side input, ignored here
    } else if (w[0] == "end") {
      int r = RunOne(cur);
      if (r) return r;
    } else { fprintf(stderr, "bad line: %s\n", line.c_str()); return 3; }
  }
  return 0;
}

int run_status_elide(int, char**) {
  std::string line;
  while (std::getline(std::cin, line)) {
    std::vector<std::string> w = split_ws(line);
    if (w.size() != 2) { printf("?\n"); continue; }
    std::string s = unhex(w[1]);
    ElideMiddleInPlace(s, (size_t)atoi(w[0].c_str()));
    printf("%s\n", hex(s).c_str());
  }
  return 0;
}

int run_status_strip(int, char**) {
  std::string line;
  while (std::getline(std::cin, line)) {
    std::vector<std::string> w = split_ws(line);
    printf("%s\n", hex(StripAnsiEscapeCodes(w.empty() ? std::string() : unhex(w[0]))).c_str());
  }
  return 0;
}

}  // namespace

static RegisterComponent reg("status", run_status);
static RegisterComponent reg2("status_elide", run_status_elide);
static RegisterComponent reg3("status_strip", run_status_strip);
