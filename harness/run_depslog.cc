// C09 / C13 (deps log): the REAL DepsLog on real files, same line protocol as extract/depslog_run.ml.
//
// Every case runs in a forked child on a scratch directory under /dev/shm with a fresh State, so that
// an abort / sanitizer report / hang of the code under test becomes a result line instead of killing
// the harness:   CRASH sig=<n> <summary>   |   SANITIZER <summary>   |   CRASH exit=<code>
//
//   byte strings : hex, "-" = empty;  FILE: hex content, "-" = no file, "empty" = an existing empty file
//   op           : <out-hex>:<mtime>:<in-hex>+<in-hex>...   ("-" for no inputs)
//   LOAD         : badheader | notfound | loaderror <hex>
//                | ok trunc=<n|-> recompact=<0|1> paths=<hex,..> deps=<outid:mtime:id+id;..>
//   everything after " | " is implementation-only information (file size, warning text, ...)
//
//   load <FILE>                          -> LOAD | size=<file size afterwards, -1 = unlinked> warn=<hex>
//   session <FILE> <dead-paths> <op>...  -> <file'> LOAD(file') | ...   Load; mark every loaded path not in
//        dead-paths as the output of a statement with deps; OpenForWrite (recompacts when Load asked for
//        it, as NinjaMain::OpenDepsLog does); RecordDeps per op until one fails; Close; then a fresh process
//        state loads the result
//   recompact <FILE> <dead-paths>        -> <file'|nofile> LOAD(file')|nofile | ...      ninja -t recompact
//   view <FILE> <out-paths>              -> badheader | <v> <v> ...     GetDeps(LookupNode(path)) after Load
#include "common.h"
#include "deps_log.h"
#include "eval_env.h"
#include "graph.h"
#include "state.h"
#include "util.h"

#include <errno.h>
#include <fcntl.h>
#include <signal.h>
#include <sys/stat.h>
#include <sys/wait.h>
#include <unistd.h>
#include <memory>
#include <set>

// DepsLog declares `friend struct DepsLogTest` (for the repository's unit test, which is not linked here).
struct DepsLogTest {
  static bool NeedsRecompaction(const DepsLog& l) { return l.needs_recompaction_; }
};

namespace {

std::string g_dir;   // scratch directory
std::string P(const char* name) { return g_dir + "/" + name; }

bool ReadAll(const std::string& path, std::string* out) {
  FILE* f = fopen(path.c_str(), "rb");
  if (!f) return false;
  out->clear();
  char buf[1 << 16]; size_t n;
  while ((n = fread(buf, 1, sizeof buf, f)) > 0) out->append(buf, n);
  fclose(f);
  return true;
}
void WriteAll(const std::string& path, const std::string& data) {
  FILE* f = fopen(path.c_str(), "wb");
  if (!f) { perror("harness: fopen"); _exit(97); }
  if (!data.empty() && fwrite(data.data(), data.size(), 1, f) != 1) { perror("harness: fwrite"); _exit(97); }
  fclose(f);
}
long FileSize(const std::string& path) {
  struct stat st;
  return stat(path.c_str(), &st) == 0 ? (long)st.st_size : -1;
}
// FILE token -> the file on disk (or its absence); returns the size written, -1 = no file
long PutFile(const std::string& tok, const std::string& path) {
  unlink(path.c_str());
  if (tok == "-") return -1;
  std::string data = tok == "empty" ? std::string() : unhex(tok);
  WriteAll(path, data);
  return (long)data.size();
}
std::vector<std::string> SplitOn(const std::string& s, char c) {
  std::vector<std::string> v; std::string cur;
  for (char ch : s) { if (ch == c) { v.push_back(cur); cur.clear(); } else cur.push_back(ch); }
  v.push_back(cur);
  return v;
}
std::set<std::string> PathList(const std::string& tok) {
  std::set<std::string> r;
  if (tok == "-" || tok.empty()) return r;
  for (auto& h : SplitOn(tok, ',')) r.insert(unhex(h));
  return r;
}
std::vector<std::string> PathVec(const std::string& tok) {
  std::vector<std::string> r;
  if (tok == "-" || tok.empty()) return r;
  for (auto& h : SplitOn(tok, ',')) r.push_back(unhex(h));
  return r;
}

// the tables of a loaded log
std::string ShowTables(const DepsLog& log) {
  std::string paths, deps;
  for (Node* n : log.nodes()) { if (!paths.empty()) paths += ","; paths += n ? hex(n->path()) : "NULL"; }
  const std::vector<DepsLog::Deps*>& d = log.deps();
  for (size_t i = 0; i < d.size(); ++i) {
    if (!d[i]) continue;
    if (!deps.empty()) deps += ";";
    deps += std::to_string(i) + ":" + std::to_string((long long)d[i]->mtime) + ":";
    if (d[i]->node_count == 0) deps += "-";
    for (int k = 0; k < d[i]->node_count; ++k) {
      if (k) deps += "+";
      deps += d[i]->nodes[k] ? std::to_string(d[i]->nodes[k]->id()) : "NULL";
    }
  }
  return "paths=" + paths + " deps=" + deps;
}

// LOAD of the file at `path` in the given State/DepsLog; *extra gets the implementation-only part
std::string DoLoad(const std::string& path, State* state, DepsLog* log, LoadStatus* status, std::string* extra) {
  long before = FileSize(path);
  std::string err;
  *status = log->Load(path, state, &err);
  long after = FileSize(path);
  *extra = "size=" + std::to_string(after) + " warn=" + hex(err);
  if (*status == LOAD_NOT_FOUND) return "notfound";
  if (*status == LOAD_ERROR) return "loaderror " + hex(err);
  if (err.compare(0, 12, "bad deps log") == 0 || err.compare(0, 16, "deps log version") == 0) return "badheader";
  std::string trunc = (after != before) ? std::to_string(after) : "-";
  return "ok trunc=" + trunc + " recompact=" + (DepsLogTest::NeedsRecompaction(*log) ? "1" : "0") + " " + ShowTables(*log);
}

// every loaded path that is not listed as dead is the output of a statement with a `deps` binding
void MarkLive(State* state, const DepsLog& log, const std::set<std::string>& dead) {
  std::unique_ptr<Rule> rule(new Rule("cc"));
  EvalString gcc; gcc.AddText("gcc");
  rule->AddBinding("deps", gcc);
  const Rule* r = rule.get();
  state->bindings_.AddRule(std::move(rule));
  for (Node* n : log.nodes()) {
    if (!n || n->in_edge() || dead.count(n->path())) continue;
    Edge* e = state->AddEdge(r);
    std::string err;
    state->AddOut(e, n->path(), 0, &err);
  }
}

struct Op { std::string out; TimeStamp mtime; std::vector<std::string> ins; };
Op ParseOp(const std::string& tok) {
  std::vector<std::string> f = SplitOn(tok, ':');
  if (f.size() != 3) { fprintf(stderr, "harness: bad op %s\n", tok.c_str()); _exit(97); }
  Op op; op.out = unhex(f[0]); op.mtime = (TimeStamp)strtoll(f[1].c_str(), NULL, 10);
  if (f[2] != "-" && !f[2].empty()) for (auto& h : SplitOn(f[2], '+')) op.ins.push_back(unhex(h));
  return op;
}

std::string FileAndReload(const std::string& path) {
  std::string content;
  if (!ReadAll(path, &content)) return "nofile nofile";
  State st2; DepsLog log2; LoadStatus s2; std::string extra2;
  std::string l2 = DoLoad(path, &st2, &log2, &s2, &extra2);
  return (content.empty() ? std::string("empty") : hex(content)) + " " + l2;
}

std::string RunCase(const std::vector<std::string>& w0) {
  const std::string path = P(".ninja_deps");
  unlink((path + ".recompact").c_str());
  // optional last token "left=<hex>": a file an earlier recompaction that was killed left behind
  std::vector<std::string> w = w0;
  if (!w.empty() && w.back().compare(0, 5, "left=") == 0) {
    PutFile(w.back().substr(5), path + ".recompact");
    w.pop_back();
  }
  if (w.size() == 2 && w[0] == "load") {
    PutFile(w[1], path);
    State state; DepsLog log; LoadStatus st; std::string extra;
    std::string r = DoLoad(path, &state, &log, &st, &extra);
    return r + " | " + extra;
  }
  if (w.size() >= 3 && w[0] == "session") {
    PutFile(w[1], path);
    std::set<std::string> dead = PathList(w[2]);
    State state; DepsLog log; LoadStatus st; std::string extra;
    std::string l1 = DoLoad(path, &state, &log, &st, &extra);
    if (st == LOAD_ERROR) return l1 + " | " + extra;
    MarkLive(&state, log, dead);
    std::string err, info;
    int recfail = -1;
    if (!log.OpenForWrite(path, &err)) {
      info = "openfail=" + hex(err);
    } else {
      for (size_t i = 3; i < w.size(); ++i) {
        Op op = ParseOp(w[i]);
        Node* out = state.GetNode(op.out, 0);
        std::vector<Node*> ins;
        for (auto& p : op.ins) ins.push_back(state.GetNode(p, 0));
        if (!log.RecordDeps(out, op.mtime, ins)) { recfail = (int)(i - 3); break; }
      }
      log.Close();
      info = "recfail=" + (recfail < 0 ? std::string("-") : std::to_string(recfail));
    }
    return FileAndReload(path) + " | first=" + (l1.compare(0, 2, "ok") == 0 ? "ok" : l1) + " " + extra + " " + info;
  }
  if (w.size() == 3 && w[0] == "recompact") {
    PutFile(w[1], path);
    std::set<std::string> dead = PathList(w[2]);
    State state; DepsLog log; LoadStatus st; std::string extra;
    std::string l1 = DoLoad(path, &state, &log, &st, &extra);
    if (st == LOAD_ERROR) return l1 + " | " + extra;
    if (st == LOAD_NOT_FOUND) return "nofile nofile | notfound";
    MarkLive(&state, log, dead);
    std::string err;
    bool ok = log.Recompact(path, &err);
    log.Close();
    return FileAndReload(path) + " | ok=" + (ok ? "1" : "0") + " err=" + hex(err);
  }
  if (w.size() == 3 && w[0] == "view") {
    PutFile(w[1], path);
    State state; DepsLog log; LoadStatus st; std::string extra;
    std::string l1 = DoLoad(path, &state, &log, &st, &extra);
    if (l1.compare(0, 2, "ok") != 0) return (l1 == "notfound" ? "badheader" : l1) + " | " + extra;
    std::string r;
    for (auto& p : PathVec(w[2])) {
      if (!r.empty()) r += " ";
      Node* n = state.LookupNode(p);
      DepsLog::Deps* d = n ? log.GetDeps(n) : NULL;
      if (!d) { r += "none"; continue; }
      r += std::to_string((long long)d->mtime) + ":";
      if (d->node_count == 0) r += "-";
      for (int k = 0; k < d->node_count; ++k) { if (k) r += "+"; r += d->nodes[k] ? hex(d->nodes[k]->path()) : "?"; }
    }
    return r + " | " + extra;
  }
  return "badcase";
}

// one-token summary of what the child wrote to stderr
std::string Summarize(const std::string& err) {
  static const char* keys[] = { "runtime error: ", "SUMMARY: AddressSanitizer: ", "ERROR: AddressSanitizer: ",
                                "terminate called after throwing an instance of ", "Assertion" };
  std::string s;
  for (const char* k : keys) {
    size_t p = err.find(k);
    if (p == std::string::npos) continue;
    size_t b = (k[0] == 'A') ? p : p + strlen(k);
    size_t e = err.find('\n', b);
    s = err.substr(b, (e == std::string::npos ? err.size() : e) - b);
    break;
  }
  if (s.empty()) { size_t e = err.find('\n'); s = err.substr(0, e == std::string::npos ? err.size() : e); }
  if (s.size() > 160) s.resize(160);
  for (char& c : s) if (c == ' ' || c == '\t' || c == '|') c = '_';
  return s.empty() ? "-" : s;
}

int run_depslog(int, char**) {
  char tmpl[] = "/dev/shm/verif-depslog.XXXXXX";
  if (!mkdtemp(tmpl)) { perror("mkdtemp"); return 3; }
  g_dir = tmpl;
  const std::string outp = P("out"), errp = P("err");
  std::string line;
  while (std::getline(std::cin, line)) {
    std::vector<std::string> w = split_ws(line);
    fflush(stdout);
    unlink(outp.c_str()); unlink(errp.c_str());
    pid_t pid = fork();
    if (pid < 0) { perror("fork"); return 3; }
    if (pid == 0) {
      int fd = open(errp.c_str(), O_WRONLY | O_CREAT | O_TRUNC, 0600);
      if (fd >= 0) { dup2(fd, 2); close(fd); }
      int nfd = open("/dev/null", O_RDONLY);
      if (nfd >= 0) { dup2(nfd, 0); close(nfd); }
      alarm(60);   // a hang is a result too
      std::string r;
      {
        r = RunCase(w);
      }
      WriteAll(outp, r);
      _exit(0);
    }
    int status = 0;
    while (waitpid(pid, &status, 0) < 0 && errno == EINTR) {}
    std::string out, err;
    ReadAll(errp, &err);
    bool have_out = ReadAll(outp, &out);
    bool san = err.find("Sanitizer") != std::string::npos || err.find("runtime error:") != std::string::npos;
    if (WIFEXITED(status) && WEXITSTATUS(status) == 0 && have_out && !san) {
      fwrite(out.data(), 1, out.size(), stdout); fputc('\n', stdout);
    } else if (san || (WIFEXITED(status) && (WEXITSTATUS(status) == 98 || WEXITSTATUS(status) == 99))) {
      printf("SANITIZER %s\n", Summarize(err).c_str());
    } else if (WIFSIGNALED(status)) {
      printf("CRASH sig=%d %s\n", WTERMSIG(status), Summarize(err).c_str());
    } else {
      printf("CRASH exit=%d %s\n", WIFEXITED(status) ? WEXITSTATUS(status) : -1, Summarize(err).c_str());
    }
    unlink(P(".ninja_deps").c_str()); unlink(P(".ninja_deps.recompact").c_str());
  }
  unlink(outp.c_str()); unlink(errp.c_str());
  rmdir(g_dir.c_str());
  return 0;
}

}  // namespace

static RegisterComponent reg("depslog", run_depslog);
