/* LD_PRELOAD shim: getloadavg() reports the value of $VERIF_FAKE_LOAD (default 0). */
#include <stdlib.h>
int getloadavg(double loadavg[], int nelem) {
  const char* v = getenv("VERIF_FAKE_LOAD");
  double l = v ? atof(v) : 0.0;
  for (int i = 0; i < nelem && i < 3; ++i) loadavg[i] = l;
  return nelem < 3 ? nelem : 3;
}
