/* argv_dump: prints each argument as <4-byte big-endian length><bytes>, then the record end marker
   FF FF FF FF (so consecutive invocations in one shell script can be told apart unambiguously). */
#include <stdio.h>
#include <string.h>
int main(int argc, char** argv) {
  for (int i = 1; i < argc; ++i) {
    unsigned long n = strlen(argv[i]);
    unsigned char h[4] = { (unsigned char)(n >> 24), (unsigned char)(n >> 16), (unsigned char)(n >> 8), (unsigned char)n };
    fwrite(h, 1, 4, stdout); fwrite(argv[i], 1, n, stdout);
  }
  unsigned char e[4] = { 255, 255, 255, 255 };
  fwrite(e, 1, 4, stdout);
  return 0;
}
