// C11 (file-level part): real ManifestParser + real DyndepLoader::LoadDyndeps over in-memory files.
//
// stdin, one scenario per line:   <manifest-hex> <dyndep-file-name-hex> <content-hex | "!" | "~">
//     "-" = empty content, "!" = the dyndep file does not exist, "~" = do not load anything
//     (only the graph of the manifest is dumped: used for the inlined variant of a scenario).
// stdout, one line per scenario:
//     PRE <graph> POST OK <graph>         the load succeeded; graph before / after
//     PRE <graph> POST ERR <class>        LoadDyndeps returned false; class of the message
//     PRE <graph> POST NONE               content "~"
//     MANIFEST_ERR <message-hex>          the manifest itself does not parse (generator bug)
//     CRASH <signal | exit:<code>>        the child running the scenario died (every scenario runs in
//                                         a forked child; under ASan a memory error is exit:99)
//   <graph> = G <nedges> {| <edge>}* # {<node>}*
//   <edge>  = <outs> <implicit_outs_> <ins> <implicit_deps_> <order_only_deps_> R<0|1> S<0|1> D<dyndep|~>
//             outs/ins = comma separated hex paths ("-" = none); R = GetBindingBool("restat");
//             S = the edge has a BindingEnv of its own (env_ != &state.bindings_)
//   <node>  = <path-hex>:<index of in_edge() | ~>:<sorted indices of out_edges(), '.' separated | ->
//             for every node that is an input or output of some edge, sorted by path
#include "common.h"

#include <fcntl.h>
#include <sys/types.h>
#include <sys/wait.h>
#include <unistd.h>

#include <algorithm>
#include <set>

#include "disk_interface.h"
#include "dyndep.h"
#include "graph.h"
#include "manifest_parser.h"
#include "state.h"

namespace {

struct MemDisk : public DiskInterface {
  std::map<std::string, std::string> files;
  Status ReadFile(const std::string& path, std::string* contents, std::string* err) override {
    auto it = files.find(path);
    if (it == files.end()) {
      *err = "No such file or directory";
      return NotFound;
    }
    *contents = it->second;
    return Okay;
  }
  TimeStamp Stat(const std::string& path, std::string*) const override {
    return files.count(path) ? 1 : 0;
  }
  bool MakeDir(const std::string&) override { return true; }
  bool WriteFile(const std::string& path, const std::string& contents, bool) override {
    files[path] = contents;
    return true;
  }
  int RemoveFile(const std::string& path) override { return files.erase(path) ? 0 : 1; }
};

bool starts_with(const std::string& s, const char* p) { return s.compare(0, strlen(p), p) == 0; }
bool contains(const std::string& s, const char* p) { return s.find(p) != std::string::npos; }

std::string token_class(const std::string& n) {
  static const char* tab[][2] = {
      {"lexing error", "error"}, {"'build'", "build"},       {"':'", "colon"},
      {"'default'", "default"},  {"'='", "equals"},          {"identifier", "ident"},
      {"'include'", "include"},  {"indent", "indent"},       {"newline", "newline"},
      {"'||'", "pipe2"},         {"'|'", "pipe"},            {"'|@'", "pipeat"},
      {"'pool'", "pool"},        {"'rule'", "rule"},         {"'subninja'", "subninja"},
      {"eof", "eof"}};
  for (auto& t : tab)
    if (n == t[0]) return t[1];
  return "tok?" + hex(n);
}

// class of an error message of Parser::Load / DyndepParser / DyndepLoader
std::string classify(const std::string& err, const std::string& fname) {
  if (starts_with(err, "loading '")) return "loading";
  if (starts_with(err, "multiple rules generate ")) return "multiple_rules";
  if (starts_with(err, "dyndep file '") && contains(err, "' mentions output '") &&
      contains(err, "whose build statement does not have a dyndep binding for the file"))
    return "not_bound";
  if (starts_with(err, "'") && contains(err, "' not mentioned in its dyndep file '")) return "not_mentioned";
  // lexer errors: "<file>:<line>: <message>\n<context>"
  std::string pre = fname + ":";
  if (!starts_with(err, pre.c_str())) return "other:" + hex(err);
  size_t q = pre.size();
  while (q < err.size() && err[q] >= '0' && err[q] <= '9') q++;
  if (q == pre.size() || q + 1 >= err.size() || err[q] != ':' || err[q + 1] != ' ') return "other:" + hex(err);
  std::string msg = err.substr(q + 2);
  std::string first = msg.substr(0, msg.find('\n'));
  static const char* exact[][2] = {
      {"expected 'ninja_dyndep_version = ...'", "expected_version"},
      {"lexing error", "lexing"},
      {"tabs are not allowed, use spaces", "tabs"},
      {"unexpected EOF", "unexpected_eof"},
      {"expected variable name", "expected_var_name"},
      {"expected path", "expected_path"},
      {"empty path", "empty_path"},
      {"explicit outputs not supported", "explicit_outs"},
      {"expected build command name 'dyndep'", "expected_dyndep"},
      {"explicit inputs not supported", "explicit_ins"},
      {"order-only inputs not supported", "order_only"},
      {"binding is not 'restat'", "binding_not_restat"}};
  for (auto& e : exact)
    if (first == e[0]) return e[1];
  if (starts_with(first, "bad $-escape")) return "bad_escape";
  if (starts_with(first, "using $^ escape")) return "newline_version";
  if (starts_with(first, "unsupported 'ninja_dyndep_version = ")) return "unsupported_version";
  if (starts_with(first, "no build statement exists for '")) return "no_build_stmt";
  if (starts_with(first, "multiple statements for '")) return "multiple_stmts";
  if (starts_with(first, "expected ")) {
    size_t g = first.find(", got ");
    if (g != std::string::npos) {
      std::string want = first.substr(9, g - 9);
      std::string got = first.substr(g + 6);
      const char* hint = " ($ also escapes ':')";
      size_t h = got.find(hint);
      if (h != std::string::npos) got = got.substr(0, h);
      return "expected:" + token_class(want) + ":" + token_class(got);
    }
  }
  if (starts_with(first, "unexpected ")) return "unexpected:" + token_class(first.substr(11));
  return "other:" + hex(err);
}

std::string path_list(const std::vector<Node*>& v) {
  if (v.empty()) return "-";
  std::string r;
  for (size_t i = 0; i < v.size(); i++) {
    if (i) r += ",";
    r += hex(v[i]->path());
  }
  return r;
}

std::string dump(State& state) {
  std::map<Edge*, size_t> idx;
  for (size_t i = 0; i < state.edges_.size(); i++) idx[state.edges_[i]] = i;
  std::string out = "G " + std::to_string(state.edges_.size());
  std::map<std::string, Node*> nodes;
  for (Edge* e : state.edges_) {
    out += " | " + path_list(e->outputs_) + " " + std::to_string(e->implicit_outs_);
    out += " " + path_list(e->inputs_) + " " + std::to_string(e->implicit_deps_) + " " +
           std::to_string(e->order_only_deps_);
    out += std::string(" R") + (e->GetBindingBool("restat") ? "1" : "0");
    out += std::string(" S") + (e->env_ != &state.bindings_ ? "1" : "0");
    out += " D" + (e->dyndep_ ? hex(e->dyndep_->path()) : std::string("~"));
    for (Node* n : e->outputs_) nodes[n->path()] = n;
    for (Node* n : e->inputs_) nodes[n->path()] = n;
  }
  out += " #";
  for (auto& kv : nodes) {
    Node* n = kv.second;
    out += " " + hex(n->path()) + ":";
    out += n->in_edge() ? std::to_string(idx[n->in_edge()]) : std::string("~");
    out += ":";
    std::vector<size_t> oe;
    for (Edge* e : n->out_edges()) oe.push_back(idx[e]);
    std::sort(oe.begin(), oe.end());
    if (oe.empty()) out += "-";
    for (size_t i = 0; i < oe.size(); i++) out += (i ? "." : "") + std::to_string(oe[i]);
  }
  return out;
}

struct OneFileReader : public FileReader {
  std::string name, content;
  Status ReadFile(const std::string& path, std::string* contents, std::string* err) override {
    if (path != name) {
      *err = "No such file or directory";
      return NotFound;
    }
    *contents = content;
    return Okay;
  }
};

std::string run_scenario(const std::string& line) {
  std::vector<std::string> w = split_ws(line);
  if (w.size() != 3) return "BADLINE";
  OneFileReader fr;
  fr.name = "build.ninja";
  fr.content = unhex(w[0]);
  std::string fname = unhex(w[1]);

  State state;
  ManifestParser parser(&state, &fr);
  std::string err;
  if (!parser.Load("build.ninja", &err)) return "MANIFEST_ERR " + hex(err);

  std::string out = "PRE " + dump(state);
  if (w[2] == "~") return out + " POST NONE";

  MemDisk disk;
  if (w[2] != "!") disk.files[fname] = unhex(w[2]);
  Node* node = state.GetNode(fname, 0);
  DyndepLoader loader(&state, &disk);
  err.clear();
  if (!loader.LoadDyndeps(node, &err)) return out + " POST ERR " + classify(err, fname);
  return out + " POST OK " + dump(state);
}

int run_dyndep(int, char**) {
  // all input is read before the first fork (a child leaving through exit() may move the shared
  // stdin offset); the child's stderr (sanitizer report) is discarded
  std::vector<std::string> lines;
  {
    std::string l;
    while (std::getline(std::cin, l)) lines.push_back(l);
  }
  for (const std::string& line : lines) {
    fflush(stdout);
    pid_t pid = fork();
    if (pid < 0) { perror("fork"); return 3; }
    if (pid == 0) {
      int nfd = open("/dev/null", O_RDWR);
      if (nfd >= 0) { dup2(nfd, 0); dup2(nfd, 2); close(nfd); }
      std::string r = run_scenario(line);
      printf("%s\n", r.c_str());
      fflush(stdout);
      _exit(0);
    }
    int status = 0;
    waitpid(pid, &status, 0);
    if (WIFSIGNALED(status)) printf("CRASH %d\n", WTERMSIG(status));
    else if (!WIFEXITED(status) || WEXITSTATUS(status) != 0) printf("CRASH exit:%d\n", WEXITSTATUS(status));
  }
  return 0;
}

}  // namespace

static RegisterComponent reg("dyndep", run_dyndep);
