
val negb : bool -> bool

type nat =
| O
| S of nat

val fst : ('a1 * 'a2) -> 'a1

val snd : ('a1 * 'a2) -> 'a2

val length : 'a1 list -> nat

val app : 'a1 list -> 'a1 list -> 'a1 list

type comparison =
| Eq
| Lt
| Gt

val compOpp : comparison -> comparison

val add : nat -> nat -> nat

val sub : nat -> nat -> nat

module Nat :
 sig
  val add : nat -> nat -> nat

  val eqb : nat -> nat -> bool

  val leb : nat -> nat -> bool

  val ltb : nat -> nat -> bool
 end

val hd : 'a1 -> 'a1 list -> 'a1

val nth : nat -> 'a1 list -> 'a1 -> 'a1

val rev : 'a1 list -> 'a1 list

val map : ('a1 -> 'a2) -> 'a1 list -> 'a2 list

val fold_left : ('a1 -> 'a2 -> 'a1) -> 'a2 list -> 'a1 -> 'a1

val fold_right : ('a2 -> 'a1 -> 'a1) -> 'a1 -> 'a2 list -> 'a1

val existsb : ('a1 -> bool) -> 'a1 list -> bool

val forallb : ('a1 -> bool) -> 'a1 list -> bool

val filter : ('a1 -> bool) -> 'a1 list -> 'a1 list

val find : ('a1 -> bool) -> 'a1 list -> 'a1 option

val firstn : nat -> 'a1 list -> 'a1 list

val skipn : nat -> 'a1 list -> 'a1 list

val seq : nat -> nat -> nat list

type positive =
| XI of positive
| XO of positive
| XH

type n =
| N0
| Npos of positive

type z =
| Z0
| Zpos of positive
| Zneg of positive

module Pos :
 sig
  val succ : positive -> positive

  val add : positive -> positive -> positive

  val add_carry : positive -> positive -> positive

  val pred_double : positive -> positive

  val mul : positive -> positive -> positive

  val iter : ('a1 -> 'a1) -> 'a1 -> positive -> 'a1

  val compare_cont : comparison -> positive -> positive -> comparison

  val compare : positive -> positive -> comparison

  val eqb : positive -> positive -> bool

  val coq_Nsucc_double : n -> n

  val coq_Ndouble : n -> n

  val coq_land : positive -> positive -> n

  val coq_lxor : positive -> positive -> n

  val of_succ_nat : nat -> positive
 end

module N :
 sig
  val add : n -> n -> n

  val mul : n -> n -> n

  val eqb : n -> n -> bool

  val div2 : n -> n

  val coq_land : n -> n -> n

  val coq_lxor : n -> n -> n

  val shiftr : n -> n -> n

  val of_nat : nat -> n
 end

module Z :
 sig
  val double : z -> z

  val succ_double : z -> z

  val pred_double : z -> z

  val pos_sub : positive -> positive -> z

  val add : z -> z -> z

  val compare : z -> z -> comparison

  val ltb : z -> z -> bool

  val gtb : z -> z -> bool

  val eqb : z -> z -> bool

  val max : z -> z -> z
 end

type deps_kind =
| DNone
| DDepfile
| DGcc
| DMsvc

type cfg = { c_hash : n; c_restat : bool; c_generator : bool;
             c_deps : deps_kind; c_rspfile : bool }

type orec = { o_file : (z * n) option; o_log : (n * z) option }

val stat : orec -> z

val restat_loop : bool -> orec list -> orec list -> z -> bool -> z * bool

val record_mtime : cfg -> z -> orec list -> orec list -> z

type node = nat

type edge = nat

type deps_kind0 =
| DepsNone
| DepsDepfile
| DepsLog

type edge_info = { ei_ins : node list; ei_nimp : nat; ei_noo : nat;
                   ei_outs : node list; ei_vals : node list; ei_phony : 
                   bool; ei_restat : bool; ei_generator : bool;
                   ei_deps : deps_kind0; ei_hash : n }

type graph = { g_nedges : nat; g_edge : (edge -> edge_info);
               g_producer : (node -> edge option); g_byloader : (node -> bool) }

type depfile_state =
| DfMissing
| DfEmpty
| DfUnparsable
| DfParsed of node list * node list

type world = { w_mtime : (node -> z); w_blog : (node -> (n * z) option);
               w_dlog : (node -> (z * node list) option);
               w_depfile : (edge -> depfile_state) }

type exist_status =
| ExUnknown
| ExMissing
| ExExists

type nstate = { ns_dirty : bool; ns_mtime : z; ns_exists : exist_status }

type mark =
| VisitNone
| VisitInStack
| VisitDone

type estate = { es_mark : mark; es_ready : bool; es_deps_loaded : bool;
                es_deps_missing : bool; es_ins : node list; es_nimp : 
                nat }

type sstate = { st_node : (node -> nstate); st_edge : (edge -> estate) }

val init_nstate : nstate

val init_estate : edge_info -> estate

val init_state : graph -> sstate

val upd_node : sstate -> node -> nstate -> sstate

val upd_edge : sstate -> edge -> estate -> sstate

val n_known : nstate -> bool

val n_exists : nstate -> bool

val stat_if_necessary : world -> sstate -> node -> sstate

val update_phony_mtime : sstate -> node -> z -> sstate

val set_dirty : sstate -> node -> bool -> sstate

val set_mark : sstate -> edge -> mark -> sstate

val set_ready : sstate -> edge -> bool -> sstate

val set_deps_missing : sstate -> edge -> bool -> sstate

val set_ins : sstate -> edge -> node list -> nat -> sstate

type 'a sres =
| SOk of 'a
| SCycle of node list
| SLoadErr of edge
| SOutOfFuel

val visit_all : (node -> 'a1 -> 'a1 sres) -> node list -> 'a1 -> 'a1 sres

val edge_outs : graph -> edge -> node list

val is_order_only : nat -> nat -> nat -> bool

val drop_until_edge : graph -> edge -> node list -> node list

val cycle_path : graph -> node list -> node -> edge -> node list

val newer : sstate -> node -> node option -> node option

val eval_inputs :
  graph -> edge -> node list -> nat -> sstate -> node option -> bool ->
  (sstate * node option) * bool

val mri_mtime : sstate -> node option -> z option

val phony_output_dirty :
  graph -> edge -> node -> node option -> sstate -> bool * sstate

val output_dirty_first :
  graph -> world -> edge -> node -> z option -> sstate -> bool

val output_dirty_again :
  graph -> world -> edge -> node -> z option -> sstate -> bool

val outputs_dirty_all :
  graph -> world -> edge -> node list -> node option -> sstate ->
  bool * sstate

val outputs_dirty_depfile :
  graph -> world -> edge -> node option -> sstate -> bool

type load_res =
| LdFail
| LdErr
| LdOk of node list

val mem_node : node -> node list -> bool

val load_deps : graph -> world -> sstate -> edge -> load_res

val load_deps_try : graph -> world -> sstate -> edge -> bool

val splice : node list -> nat -> node list -> node list

val splice_deps : graph -> sstate -> edge -> node list -> sstate

val mark_outputs_dirty : sstate -> node list -> sstate

val stat_outputs : world -> sstate -> node list -> sstate

val enter_edge : sstate -> edge -> sstate

val opt_node_eqb : node option -> node option -> bool

val finish_edge : graph -> sstate -> edge -> bool -> sstate

type sv = sstate * node list

val after_inputs :
  graph -> world -> (node -> sv -> sv sres) -> edge -> bool -> bool -> bool
  -> sstate -> node list -> sv sres

val recompute_node_dirty :
  graph -> world -> nat -> node list -> node -> sv -> sv sres

val scan_fuel : graph -> nat

val recompute_dirty_loop :
  graph -> world -> nat -> node list -> sstate -> node list -> sv sres

val total_vals : graph -> nat -> nat

val queue_fuel : graph -> nat

val recompute_dirty : graph -> world -> sstate -> node -> sv sres

type want =
| WantNothing
| WantToStart
| WantToFinish

type plan = { p_want : (edge -> want option); p_wanted : nat; p_commands : nat }

val init_plan : plan

val set_want : plan -> edge -> want -> plan

val edge_wanted : graph -> plan -> edge -> plan

type missing_err = node * node option

type ast_res = ((bool * missing_err option) * plan) option

val ast_loop : (node -> plan -> ast_res) -> node list -> plan -> ast_res

val add_sub_target :
  graph -> nat -> sstate -> node option -> node -> plan -> ast_res

val plan_fuel : graph -> nat

val plan_add_target : graph -> sstate -> node -> plan -> ast_res

type scan_result =
| ScanCycle of node list
| ScanMissing of node * node option
| ScanLoadErr of edge
| ScanOutOfFuel
| ScanOk of sstate * plan

val add_validation_targets :
  graph -> sstate -> node list -> plan -> scan_result

val builder_add_target :
  graph -> world -> sstate -> plan -> node -> scan_result

val add_targets : graph -> world -> sstate -> plan -> node list -> scan_result

val scan : graph -> world -> node list -> scan_result

val nonoo_ins : graph -> edge -> node list

type content = n

val edges_all : graph -> (edge -> bool) -> bool

val deps_none : deps_kind0 -> bool

val is_nil : 'a1 list -> bool

val frag_AB : graph -> bool

val topo_ordered : graph -> bool

val no_inputless_phony : graph -> bool

type snapshot = (node * content option) list

type hstate = { h_disk : (node -> (z * content) option); h_clock : z;
                h_blog : (node -> (n * z) option); h_hash : (edge -> n);
                h_ghost : (node -> snapshot option); h_trace : edge list }

val h_trace : hstate -> edge list

val set_hash : edge_info -> n -> edge_info

val graph_of : graph -> hstate -> graph

val mtime_of : hstate -> node -> z

val content_of : hstate -> node -> content option

val world_of : hstate -> world

val init_hstate : graph -> hstate

val upd : (node -> 'a1) -> node -> 'a1 -> node -> 'a1

val write_file : hstate -> node -> content -> hstate

val delete_file : hstate -> node -> hstate

val set_cmd : hstate -> edge -> n -> hstate

val tick : hstate -> hstate

type hstep =
| Edit of node * content
| Delete of node
| SetCmd of edge * n
| Build of node list

val reads : graph -> hstate -> edge -> snapshot

val same_content : (z * content) option -> content -> bool

val write_out : bool -> (node -> content) -> hstate -> node -> hstate

val write_outs : bool -> (node -> content) -> node list -> hstate -> hstate

val orec_of : hstate -> node -> orec

val crash_cfg : edge_info -> n -> cfg

val record : hstate -> edge -> node list -> n -> z -> snapshot -> hstate

val finish_run :
  (edge -> n -> snapshot -> node -> content) -> graph -> hstate -> hstate ->
  edge -> n -> snapshot -> z -> hstate

val run_edge :
  (edge -> n -> snapshot -> node -> content) -> graph -> hstate -> edge ->
  hstate

val dirty_now : graph -> hstate -> edge -> bool

val want_start : plan -> edge -> bool

val build_step :
  (edge -> n -> snapshot -> node -> content) -> graph -> plan -> hstate ->
  edge -> hstate

val build_upto :
  (edge -> n -> snapshot -> node -> content) -> graph -> plan -> nat ->
  hstate -> hstate

val build :
  (edge -> n -> snapshot -> node -> content) -> graph -> hstate -> node list
  -> hstate option

val is_source : graph -> node -> bool

val step_ok : graph -> hstep -> bool

val hist_ok : graph -> hstep list -> bool

val apply_step :
  (edge -> n -> snapshot -> node -> content) -> graph -> hstate -> hstep ->
  hstate

val run_hist :
  (edge -> n -> snapshot -> node -> content) -> graph -> hstate -> hstep list
  -> hstate

val cb :
  (edge -> n -> snapshot -> node -> content) -> graph -> (edge -> n) -> (node
  -> content option) -> nat -> node -> content option

val clean_build :
  (edge -> n -> snapshot -> node -> content) -> graph -> (edge -> n) -> (node
  -> content option) -> node -> content option

val sources_of : graph -> hstate -> node -> content option

val clean_of :
  (edge -> n -> snapshot -> node -> content) -> graph -> hstate -> node ->
  content option

val mask64 : n

val w64 : n -> n

val fnv_prime : n

val fnv_basis : n

val in_salt : n

val mix : n -> n -> n

val fmix : n -> n

val enc_opt : content option -> n

val snap_hash : snapshot -> n

val hcmd : graph -> edge -> n -> snapshot -> node -> content

val wf_b : graph -> nat -> bool

val trace_delta : hstate -> hstate -> edge list

val opt_content_eqb : content option -> content option -> bool

val is_clean : graph -> hstate -> node -> bool

val step_run : graph -> hstate -> hstep -> bool * hstate

val listed : graph -> plan -> edge -> bool

val dry_list : graph -> plan -> edge list

val dry_build : graph -> hstate -> node list -> (hstate * edge list) option

val ofold : ('a1 -> 'a2 -> 'a2 option) -> 'a1 list -> 'a2 -> 'a2 option

type cst = { c_s : sstate; c_want : (edge -> bool) }

val unwant : (edge -> bool) -> edge -> edge -> bool

val out_edges : graph -> sstate -> node -> edge list

val cn_nonoo : graph -> sstate -> edge -> node list

val cn_mri : sstate -> node list -> node option

val clean_edge :
  graph -> world -> (node -> cst -> cst option) -> edge -> cst -> cst option

val clean_node : graph -> world -> nat -> node -> cst -> cst option

val clean_fuel : graph -> nat

val restat_clean : graph -> world -> edge -> cst -> cst option

val dirty_now_f : cst -> edge -> bool

val build_step_f :
  (edge -> n -> snapshot -> node -> content) -> graph -> (hstate * cst)
  option -> edge -> (hstate * cst) option

val init_cst : sstate -> plan -> cst

val build_upto_f :
  (edge -> n -> snapshot -> node -> content) -> graph -> sstate -> plan ->
  nat -> hstate -> (hstate * cst) option

val build_f :
  (edge -> n -> snapshot -> node -> content) -> graph -> hstate -> node list
  -> hstate option

val apply_step_f :
  (edge -> n -> snapshot -> node -> content) -> graph -> hstate -> hstep ->
  hstate

type fail_kind =
| FailUntouched
| FailDeleted
| FailWrote of (node -> content)

type faults = (edge * fail_kind) list

val fault_of : faults -> edge -> fail_kind option

val is_some : 'a1 option -> bool

val delete_outs : node list -> hstate -> hstate

val forget_ghost : hstate -> node list -> hstate

val push_trace : hstate -> edge -> hstate

val fail_edge : graph -> hstate -> edge -> fail_kind -> hstate

type facc = hstate * ((edge * fail_kind) * hstate) option

val build_stepF :
  (edge -> n -> snapshot -> node -> content) -> graph -> faults -> plan ->
  facc -> edge -> facc

val build_uptoF :
  (edge -> n -> snapshot -> node -> content) -> graph -> faults -> plan ->
  nat -> hstate -> facc

val buildF_full :
  (edge -> n -> snapshot -> node -> content) -> graph -> hstate -> node list
  -> faults -> facc option

val buildF :
  (edge -> n -> snapshot -> node -> content) -> graph -> hstate -> node list
  -> faults -> (hstate * bool) option

val tainted : hstate -> node -> bool

val lateb : graph -> nat -> hstate -> z -> node -> bool

val stale_entryb : graph -> bool -> hstate -> edge -> node -> bool

val taint_okb : graph -> bool -> hstate -> bool

val taint_safe : graph -> hstate -> bool

type crash_at =
| KBefore
| KLocked
| KWrote of nat * (node -> content)
| KLogged of nat

type crash_point = { cp_pos : nat; cp_at : crash_at }

type intr_point = { ip_pos : nat; ip_k : nat; ip_f : (node -> content) }

val logged_outs : graph -> edge -> nat -> node list

val same_hash_entry : hstate -> n -> node -> bool

val kill_wrote : graph -> hstate -> edge -> nat -> (node -> content) -> hstate

val record_partial :
  hstate -> edge -> node list -> node list -> n -> z -> snapshot -> hstate

val kill_logged :
  (edge -> n -> snapshot -> node -> content) -> graph -> hstate -> edge ->
  nat -> hstate

val kill_edge :
  (edge -> n -> snapshot -> node -> content) -> graph -> hstate -> edge ->
  crash_at -> hstate

val starts : graph -> plan -> hstate -> edge -> bool

type kacc = hstate * ((edge * crash_at) * hstate) option

val buildK_at :
  (edge -> n -> snapshot -> node -> content) -> graph -> plan -> hstate ->
  crash_point -> kacc

val buildK_full :
  (edge -> n -> snapshot -> node -> content) -> graph -> hstate -> node list
  -> crash_point -> kacc option

val cleanup_out : hstate -> hstate -> node -> hstate

val cleanup_outs : hstate -> node list -> hstate -> hstate

val intr_edge :
  graph -> hstate -> hstate -> edge -> nat -> (node -> content) -> hstate

type iacc = hstate * (edge * hstate) option

val buildI_at :
  (edge -> n -> snapshot -> node -> content) -> graph -> plan -> hstate ->
  intr_point -> iacc

val buildI_full :
  (edge -> n -> snapshot -> node -> content) -> graph -> hstate -> node list
  -> intr_point -> iacc option

val stmt_reasonb : graph -> bool -> hstate -> edge -> bool

val taint_okSb : graph -> bool -> hstate -> bool

val taint_safe_stmt : graph -> hstate -> bool

val is_deps_log : deps_kind0 -> bool

val not_depfile : deps_kind0 -> bool

val frag_D : graph -> bool

val frag_ABD : graph -> (edge -> node list) -> bool

val inline_edge : edge_info -> node list -> edge_info

val inline : graph -> (edge -> node list) -> graph

val hidden_reads_ordered : graph -> (edge -> node list) -> bool

val read_ins : graph -> (edge -> node list) -> edge -> node list

val taint : graph -> (edge -> node list) -> nat -> bool list

val tainted0 : graph -> (edge -> node list) -> edge -> bool

val reads_tainted : graph -> (edge -> node list) -> edge -> bool

val no_restat_upstream_of_deps : graph -> (edge -> node list) -> bool

type dstate = { d_h : hstate; d_deps : (node -> (z * node list) option) }

val d_h : dstate -> hstate

val d_deps : dstate -> node -> (z * node list) option

val world_of_d : dstate -> world

val init_dstate : graph -> dstate

val edge_now : edge_info -> estate -> edge_info

val graph_now : graph -> sstate -> graph

val dreads : graph -> (edge -> node list) -> hstate -> edge -> snapshot

val record_deps :
  graph -> (edge -> node list) -> hstate -> edge -> (node -> (z * node list)
  option) -> node -> (z * node list) option

val drun_edge :
  (edge -> n -> snapshot -> node -> content) -> graph -> (edge -> node list)
  -> dstate -> edge -> dstate

val dirty_now_d : graph -> sstate -> dstate -> edge -> bool

val dbuild_step :
  (edge -> n -> snapshot -> node -> content) -> graph -> (edge -> node list)
  -> sstate -> plan -> dstate -> edge -> dstate

val dbuild_upto :
  (edge -> n -> snapshot -> node -> content) -> graph -> (edge -> node list)
  -> sstate -> plan -> nat -> dstate -> dstate

val dscan : graph -> dstate -> node list -> scan_result

val dbuild :
  (edge -> n -> snapshot -> node -> content) -> graph -> (edge -> node list)
  -> dstate -> node list -> dstate option

val dlift : (hstate -> hstate) -> dstate -> dstate

val dapply_step :
  (edge -> n -> snapshot -> node -> content) -> graph -> (edge -> node list)
  -> dstate -> hstep -> dstate

val drop_deps : dstate -> node -> dstate

val clean_of_d :
  (edge -> n -> snapshot -> node -> content) -> graph -> (edge -> node list)
  -> dstate -> node -> content option

val hidden_srcs_present : graph -> (edge -> node list) -> hstate -> bool

val targets_known : graph -> node list -> bool

val hist_present :
  (edge -> n -> snapshot -> node -> content) -> graph -> (edge -> node list)
  -> dstate -> hstep list -> bool

val dbuild_step_f :
  (edge -> n -> snapshot -> node -> content) -> graph -> (edge -> node list)
  -> (dstate * cst) option -> edge -> (dstate * cst) option

val dbuild_upto_f :
  (edge -> n -> snapshot -> node -> content) -> graph -> (edge -> node list)
  -> sstate -> plan -> nat -> dstate -> (dstate * cst) option

val dbuild_f :
  (edge -> n -> snapshot -> node -> content) -> graph -> (edge -> node list)
  -> dstate -> node list -> dstate option

val dapply_step_f :
  (edge -> n -> snapshot -> node -> content) -> graph -> (edge -> node list)
  -> dstate -> hstep -> dstate

type pevent =
| Start of edge
| Finish of edge

type prun = { r_edge : edge; r_t0 : z; r_hash : n; r_snap : snapshot }

type pcfg = { p_st : hstate; p_x : cst; p_run : prun list; p_done : edge list }

type pres =
| POk of pcfg
| PBad
| PFuel

type presult =
| PDone of pcfg
| PRefused
| PInvalid
| PIncomplete of pcfg
| POutOfFuel

val node_ready : graph -> nat -> (edge -> bool) -> node -> bool

val ready_fuel : graph -> nat

val running : prun list -> edge -> bool

val blocked : pcfg -> edge -> bool

val inputs_ready : graph -> pcfg -> edge -> bool

val jobs_ok : nat option -> prun list -> bool

val start_ok : graph -> nat option -> pcfg -> edge -> bool

val do_start : graph -> pcfg -> edge -> pcfg

val take_run : edge -> prun list -> (prun * prun list) option

val do_finish :
  (edge -> n -> snapshot -> node -> content) -> graph -> pcfg -> edge -> pres

val par_step :
  (edge -> n -> snapshot -> node -> content) -> graph -> nat option -> pcfg
  -> pevent -> pres

val par_exec :
  (edge -> n -> snapshot -> node -> content) -> graph -> nat option -> pevent
  list -> pcfg -> pres

val par_accepted :
  (edge -> n -> snapshot -> node -> content) -> graph -> nat option -> pevent
  list -> pcfg -> nat

val complete : graph -> pcfg -> bool

val init_pcfg : hstate -> sstate -> plan -> pcfg

val par_run :
  (edge -> n -> snapshot -> node -> content) -> graph -> nat option -> hstate
  -> node list -> pevent list -> presult

val in_pool : (edge -> nat option) -> nat -> edge -> bool

val pool_use : (edge -> nat option) -> prun list -> nat -> nat

val pool_ok :
  (edge -> nat option) -> (nat -> nat) -> prun list -> edge -> bool

val par_step_pool :
  (edge -> n -> snapshot -> node -> content) -> graph -> (edge -> nat option)
  -> (nat -> nat) -> nat option -> pcfg -> pevent -> pres

val par_exec_pool :
  (edge -> n -> snapshot -> node -> content) -> graph -> (edge -> nat option)
  -> (nat -> nat) -> nat option -> pevent list -> pcfg -> pres

val par_accepted_pool :
  (edge -> n -> snapshot -> node -> content) -> graph -> (edge -> nat option)
  -> (nat -> nat) -> nat option -> pevent list -> pcfg -> nat

val par_run_pool :
  (edge -> n -> snapshot -> node -> content) -> graph -> (edge -> nat option)
  -> (nat -> nat) -> nat option -> hstate -> node list -> pevent list ->
  presult

val pool_of_list : (edge * nat) list -> edge -> nat option

val depth_of_list : (nat * nat) list -> nat -> nat

val to_log_kind : deps_kind0 -> deps_kind0

val to_log_edge : edge_info -> edge_info

val to_log : graph -> graph

val is_depfile : deps_kind0 -> bool

val frag_ABF : graph -> (edge -> node list) -> bool

type fstate = { f_ds : dstate; f_df : (edge -> node list option);
                f_udel : (edge -> bool) }

val f_ds : fstate -> dstate

val f_df : fstate -> edge -> node list option

val f_h : fstate -> hstate

val init_fstate : graph -> fstate

val depfile_of : graph -> fstate -> edge -> depfile_state

val world_of_f : graph -> fstate -> world

val frun_edge :
  (edge -> n -> snapshot -> node -> content) -> graph -> (edge -> node list)
  -> fstate -> edge -> fstate

val fscan : graph -> fstate -> node list -> scan_result

val fbuild_step :
  (edge -> n -> snapshot -> node -> content) -> graph -> (edge -> node list)
  -> sstate -> plan -> fstate -> edge -> fstate

val fbuild_upto :
  (edge -> n -> snapshot -> node -> content) -> graph -> (edge -> node list)
  -> sstate -> plan -> nat -> fstate -> fstate

val fbuild :
  (edge -> n -> snapshot -> node -> content) -> graph -> (edge -> node list)
  -> fstate -> node list -> fstate option

type fstep =
| FS of hstep
| DeleteDepfile of edge

val flift : (dstate -> dstate) -> fstate -> fstate

val delete_depfile : fstate -> edge -> fstate

val fapply_step :
  (edge -> n -> snapshot -> node -> content) -> graph -> (edge -> node list)
  -> fstate -> fstep -> fstate

val fstep_ok : graph -> fstep -> bool

val fhist_ok : graph -> fstep list -> bool

val clean_of_f :
  (edge -> n -> snapshot -> node -> content) -> graph -> (edge -> node list)
  -> fstate -> node -> content option

val hist_present_f :
  (edge -> n -> snapshot -> node -> content) -> graph -> (edge -> node list)
  -> fstate -> hstep list -> bool

type faccf = (hstate * cst) * ((edge * fail_kind) * hstate) option

val build_stepF_f :
  (edge -> n -> snapshot -> node -> content) -> graph -> faults -> faccf
  option -> edge -> faccf option

val build_uptoF_f :
  (edge -> n -> snapshot -> node -> content) -> graph -> faults -> sstate ->
  plan -> nat -> hstate -> faccf option

val buildF_full_f :
  (edge -> n -> snapshot -> node -> content) -> graph -> hstate -> node list
  -> faults -> facc option

val starts_f : graph -> cst -> edge -> bool

val buildK_at_f :
  (edge -> n -> snapshot -> node -> content) -> graph -> sstate -> plan ->
  hstate -> crash_point -> kacc option

val buildK_full_f :
  (edge -> n -> snapshot -> node -> content) -> graph -> hstate -> node list
  -> crash_point -> kacc option

val buildI_at_f :
  (edge -> n -> snapshot -> node -> content) -> graph -> sstate -> plan ->
  hstate -> intr_point -> iacc option

val buildI_full_f :
  (edge -> n -> snapshot -> node -> content) -> graph -> hstate -> node list
  -> intr_point -> iacc option

val fbuild_step_f :
  (edge -> n -> snapshot -> node -> content) -> graph -> (edge -> node list)
  -> (fstate * cst) option -> edge -> (fstate * cst) option

val fbuild_upto_f :
  (edge -> n -> snapshot -> node -> content) -> graph -> (edge -> node list)
  -> sstate -> plan -> nat -> fstate -> (fstate * cst) option

val fbuild_f :
  (edge -> n -> snapshot -> node -> content) -> graph -> (edge -> node list)
  -> fstate -> node list -> fstate option

val budget_out : nat option -> bool

val budget_dec : nat option -> nat option

type kacc0 = { k_st : hstate; k_failed : ((edge * fail_kind) * hstate) list;
               k_blocked : edge list; k_budget : nat option }

val failed_edges : kacc0 -> edge list

val blocked_input : graph -> edge list -> edge -> bool

val build_stepK :
  (edge -> n -> snapshot -> node -> content) -> graph -> faults -> plan ->
  kacc0 -> edge -> kacc0

val build_uptoK :
  (edge -> n -> snapshot -> node -> content) -> graph -> faults -> plan ->
  nat option -> nat -> hstate -> kacc0

val buildFK :
  (edge -> n -> snapshot -> node -> content) -> graph -> hstate -> node list
  -> faults -> nat option -> kacc0 option

type dyninfo = { y_dds : node list; y_bind : (edge -> node option);
                 y_ins : (edge -> node list); y_outs : (edge -> node list);
                 y_restat : (edge -> bool); y_prod : (node -> edge option) }

val loaded : dyninfo -> node list -> edge -> bool

val load_edge : edge_info -> node list -> node list -> bool -> edge_info

val load_for : graph -> dyninfo -> node list -> graph

val inline_y : graph -> dyninfo -> graph

val is_some0 : 'a1 option -> bool

val opt_eqb : node option -> node option -> bool

val frag_ABY : graph -> dyninfo -> bool

val dd_ins_ordered : graph -> dyninfo -> bool

val no_late_restat : graph -> dyninfo -> bool

val all_dd_sources : graph -> dyninfo -> bool

type yres =
| YRefused
| YFailed of hstate
| YDone of hstate

type ycst = { yc_st : hstate; yc_L : node list; yc_want : (edge -> bool);
              yc_sticky : (edge -> bool); yc_ran : (edge -> bool);
              yc_stop : bool }

type yrun =
| YRun of ycst
| YFail of hstate

val gl : graph -> dyninfo -> node list -> graph

val dd_ready : graph -> dyninfo -> hstate -> node list -> node -> bool

val scan_loads : graph -> dyninfo -> hstate -> node list

val dd_src_missing : graph -> dyninfo -> hstate -> sstate -> bool

val late_restat : graph -> dyninfo -> edge -> bool

val pending_of : graph -> dyninfo -> node list -> edge -> node list

val cleaned_outs :
  graph -> hstate -> hstate -> bool -> bool -> edge -> node list

val ystep :
  (edge -> n -> snapshot -> node -> content) -> graph -> dyninfo -> node list
  -> yrun -> edge -> yrun

val ypass :
  (edge -> n -> snapshot -> node -> content) -> graph -> dyninfo -> node list
  -> ycst -> yrun

val ypasses :
  (edge -> n -> snapshot -> node -> content) -> graph -> dyninfo -> node list
  -> nat -> ycst -> yrun

val pass_fuel : dyninfo -> nat

val ybuild :
  (edge -> n -> snapshot -> node -> content) -> graph -> dyninfo -> hstate ->
  node list -> yres

val yapply_step :
  (edge -> n -> snapshot -> node -> content) -> graph -> dyninfo -> hstate ->
  hstep -> hstate

val gi : graph -> dyninfo -> graph

val srcs_present : graph -> dyninfo -> hstate -> bool

val targets_produced : graph -> node list -> bool

val hist_present_y :
  (edge -> n -> snapshot -> node -> content) -> graph -> dyninfo -> hstate ->
  hstep list -> bool

type fcst = { fc_st : hstate; fc_L : node list; fc_x : cst;
              fc_ran : (edge -> bool); fc_stop : bool }

type frun =
| FRun of fcst
| FFail of hstate

val merge_cst : graph -> cst -> sstate -> plan -> cst

val ystep_f :
  (edge -> n -> snapshot -> node -> content) -> graph -> dyninfo -> node list
  -> frun -> edge -> frun

val ypass_f :
  (edge -> n -> snapshot -> node -> content) -> graph -> dyninfo -> node list
  -> fcst -> frun

val ypasses_f :
  (edge -> n -> snapshot -> node -> content) -> graph -> dyninfo -> node list
  -> nat -> fcst -> frun

val ybuild_f :
  (edge -> n -> snapshot -> node -> content) -> graph -> dyninfo -> hstate ->
  node list -> yres

type kaccf = kacc0 * cst

val build_stepK_f :
  (edge -> n -> snapshot -> node -> content) -> graph -> faults -> kaccf
  option -> edge -> kaccf option

val build_uptoK_f :
  (edge -> n -> snapshot -> node -> content) -> graph -> faults -> sstate ->
  plan -> nat option -> nat -> hstate -> kaccf option

val buildFK_f :
  (edge -> n -> snapshot -> node -> content) -> graph -> hstate -> node list
  -> faults -> nat option -> kacc0 option

type fres =
| FRefused
| FFailed of hstate
| FDone of hstate
| FOutOfFuel of hstate

type ffst = { ff_st : hstate; ff_L : node list; ff_x : cst;
              ff_plan : (edge -> bool); ff_fin : (edge -> bool);
              ff_stop : bool }

type ffrun =
| FFRun of ffst
| FFFail of hstate
| FFFuel of hstate

type ldres =
| LdDone of cst * (edge -> bool)
| LdFailed
| LdFuel

val mark_none : mark -> bool

val bound_new : dyninfo -> node list -> edge -> bool

val apply_fin : graph -> sstate -> (edge -> bool) -> sstate

val update_edges : graph -> dyninfo -> sstate -> node list -> sstate

val unmark :
  nat -> graph -> (edge -> bool) -> node -> (sstate * node list) ->
  (sstate * node list) option

type rfres =
| RfOk of sstate * (edge -> bool)
| RfErr
| RfFuel

val refresh :
  graph -> world -> (edge -> bool) -> node list -> sstate -> (edge -> bool)
  -> rfres

val plan_of : (edge -> bool) -> (edge -> bool) -> plan

type arres =
| ArOk of plan
| ArErr
| ArFuel

val add_ins : graph -> sstate -> node -> node list -> plan -> arres

val add_roots : dyninfo -> graph -> sstate -> edge list -> plan -> arres

val dd_roots :
  graph -> dyninfo -> sstate -> (edge -> bool) -> node list -> edge list

val unmark_fuel : graph -> nat

val load_ff :
  graph -> dyninfo -> graph -> world -> cst -> (edge -> bool) -> (edge ->
  bool) -> node list -> ldres

val run_unlogged :
  (edge -> n -> snapshot -> node -> content) -> graph -> hstate -> edge ->
  hstate

val ffstep :
  (edge -> n -> snapshot -> node -> content) -> graph -> dyninfo -> node list
  -> ffrun -> edge -> ffrun

val ffpass :
  (edge -> n -> snapshot -> node -> content) -> graph -> dyninfo -> node list
  -> ffst -> ffrun

val ffpasses :
  (edge -> n -> snapshot -> node -> content) -> graph -> dyninfo -> node list
  -> nat -> ffst -> ffrun

val ybuild_ff :
  (edge -> n -> snapshot -> node -> content) -> graph -> dyninfo -> hstate ->
  node list -> fres
