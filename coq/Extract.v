(* The only file with Extraction commands. ExtrOcamlBasic only: bool, option, list, prod, unit,
   sumbool map to OCaml's; nat/N/Z/positive stay inductive. No Extract Constant. *)
Require Import ExtrOcamlBasic.
From NinjaV Require Import Base.Bytes Canon.CanonDefs Shell.EscDefs Shell.ShModel Shell.JsonDefs
  Depfile.DepfileDefs Depfile.DepfileEnc.
Extraction Language OCaml.
Set Extraction KeepSingleton.
Extraction "model.ml" Z.add N.add Nat.add canon canon_spec split_slash nf parse_path
  shell_escape make_path_list sh_words json_encode json_decode utf8_valid
  parse_depfile parse_depfile_idx render_rules_gen wf_gen enc_gen.
