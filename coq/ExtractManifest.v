(* Extraction of the manifest-reader model (C12) into its own OCaml module: [eval_manifest] is
   the model of the code (ManifestParser), [spec_manifest] the reference evaluator written from
   the manual.  Own module because this component defines rule/edge/pool/scope/result(Ok|Err),
   which clash with the other components' globals in a monolithic extraction. *)
Require Import ExtrOcamlBasic.
From NinjaV Require Import Base.Bytes Manifest.LexDefs Manifest.ParseDefs Manifest.EvalModel Manifest.EvalSpec.
Extraction Language OCaml.
Set Extraction KeepSingleton.
Extraction "manifestmodel.ml" eval_manifest spec_manifest.
