(* C20 (output part) -- Gallina transliteration of ninja's status reporting:
     /repo/src/status_printer.cc  StatusPrinter::{EdgeAddedToPlan, EdgeRemovedFromPlan, BuildEdgeStarted,
                                  BuildEdgeFinished, BuildStarted, BuildFinished, FormatProgressStatus,
                                  FormatStatusVariable, PrintStatus, NewLine, Info, Warning, Error}
     /repo/src/line_printer.cc    LinePrinter::{Print, PrintOrBuffer, PrintOnNewLine, SetConsoleLocked}
     /repo/src/elide_middle.cc    ElideMiddleInPlace (both the plain and the ANSI-colour path)
     /repo/src/util.cc            StripAnsiEscapeCodes, Info/Warning/Error/Fatal
   as a function from a configuration and a sequence of Status calls to the bytes written to stdout
   (and, separately, stderr).  ONLY definitions (see CONVENTIONS.md); quirks are kept:
     - printf("%s") truncates the status line at the first NUL, fwrite / output_buffer_.append do not;
     - Print() in dumb-terminal mode never looks at have_blank_line_ (a status line is glued onto an
       output that did not end in a newline; the owed newline comes out in front of the NEXT text that
       goes through PrintOnNewLine);
     - Info() is a plain fprintf(stdout): it is neither buffered by the console lock nor does it touch
       have_blank_line_;
     - BuildEdgeFinished returns before printing anything in QUIET mode (and does not decrement
       running_edges_ then);
     - Fatal() (unknown placeholder / variable) ends the process: the model goes [s_dead] and ignores
       the remaining calls; whatever sits in output_buffer_/line_buffer_ is lost.
   Time-dependent placeholders (%o %c %e %w %E %W %P, and the --status variables rate, current_rate,
   elapsed, elapsed_seconds, eta, eta_seconds, predicted_progress) are a parameter [c_time]. *)
From NinjaV Require Import Base.Bytes.
Local Open Scope N_scope.

(* ------------------------------------------------------------------ literals *)
Definition b_esc : byte := 27.
Definition b_pct : byte := 37.
Definition b_lbr : byte := 91.   (* [ *)
Definition l_failed : bytes := [70;65;73;76;69;68;58;32;91;99;111;100;101;61].          (* "FAILED: [code=" *)
Definition l_close : bytes := [93;32].                                                 (* "] " *)
Definition l_red : bytes := [27;91;51;49;109].                                         (* ESC [31m *)
Definition l_reset : bytes := [27;91;48;109].                                          (* ESC [0m *)
Definition l_clreol : bytes := [27;91;75].                                             (* ESC [K *)
Definition l_ninja : bytes := [110;105;110;106;97;58;32].                              (* "ninja: " *)
Definition l_warning : bytes := [119;97;114;110;105;110;103;58;32].                    (* "warning: " *)
Definition l_error : bytes := [101;114;114;111;114;58;32].                             (* "error: " *)
Definition l_fatal : bytes := [102;97;116;97;108;58;32].                               (* "fatal: " *)
Definition l_unkph1 : bytes := [117;110;107;110;111;119;110;32;112;108;97;99;101;104;111;108;100;101;114;32;39;37]. (* "unknown placeholder '%" *)
Definition l_unkph2 : bytes := [39;32;105;110;32;36;78;73;78;74;65;95;83;84;65;84;85;83].  (* "' in $NINJA_STATUS" *)
Definition l_unkvar1 : bytes := [117;110;107;110;111;119;110;32;118;97;114;105;97;98;108;101;32;39].  (* "unknown variable '" *)
Definition l_unkvar2 : bytes := [39;32;105;110;32;45;45;115;116;97;116;117;115;32;102;111;114;109;97;116]. (* "' in --status format" *)
Definition l_dots : bytes := [46;46;46].
Definition default_format : bytes := [91;37;102;47;37;116;93;32].                      (* "[%f/%t] " *)
Definition v_description : bytes := [100;101;115;99;114;105;112;116;105;111;110].
Definition v_started : bytes := [115;116;97;114;116;101;100].
Definition v_total : bytes := [116;111;116;97;108].
Definition v_running : bytes := [114;117;110;110;105;110;103].
Definition v_remaining : bytes := [114;101;109;97;105;110;105;110;103].
Definition v_finished : bytes := [102;105;110;105;115;104;101;100].
Definition v_rate : bytes := [114;97;116;101].
Definition v_current_rate : bytes := [99;117;114;114;101;110;116;95;114;97;116;101].
Definition v_progress : bytes := [112;114;111;103;114;101;115;115].
Definition v_predicted_progress : bytes := [112;114;101;100;105;99;116;101;100;95;112;114;111;103;114;101;115;115].
Definition v_elapsed : bytes := [101;108;97;112;115;101;100].
Definition v_elapsed_seconds : bytes := [101;108;97;112;115;101;100;95;115;101;99;111;110;100;115].
Definition v_eta : bytes := [101;116;97].
Definition v_eta_seconds : bytes := [101;116;97;95;115;101;99;111;110;100;115].

(* ------------------------------------------------------------------ C strings, numbers *)
(* what printf("%s", s.c_str()) writes of a std::string: up to the first NUL *)
Fixpoint cstr (s : bytes) : bytes :=
  match s with
  | [] => []
  | c :: r => if N.eqb c 0 then [] else c :: cstr r
  end.

Fixpoint dec_fuel (fuel : nat) (n : N) (acc : bytes) : bytes :=
  match fuel with
  | O => acc
  | S f => let acc' := (48 + N.modulo n 10) :: acc in
           if N.eqb (N.div n 10) 0 then acc' else dec_fuel f (N.div n 10) acc'
  end.
(* "%d" of a non-negative number; the fuel (number of binary digits + 1) is never exhausted *)
Definition dec_N (n : N) : bytes := dec_fuel (S (N.size_nat n)) n [].
(* "%d" of an int (32-bit wrap-around not modelled: the counters stay far below 2^31) *)
Definition dec_Z (z : Z) : bytes :=
  match z with
  | Zneg p => 45 :: dec_N (Npos p)
  | _ => dec_N (Z.to_N z)
  end.
(* "%3i" *)
Definition pad3 (s : bytes) : bytes := repeat 32 (3 - length s)%nat ++ s.

Fixpoint last_byte (s : bytes) (d : byte) : byte :=
  match s with
  | [] => d
  | c :: r => last_byte r c
  end.
(* to_print.empty() || *to_print.rbegin() == '\n' *)
Definition ends_blank (s : bytes) : bool := N.eqb (last_byte s 10) 10.
Definition is_empty (s : bytes) : bool := match s with [] => true | _ => false end.
Definition has_esc (s : bytes) : bool := existsb (N.eqb b_esc) s.

(* ------------------------------------------------------------------ StripAnsiEscapeCodes (util.cc) *)
Definition islatinalpha (c : byte) : bool :=
  (N.leb 97 c && N.leb c 122) || (N.leb 65 c && N.leb c 90).

(* [incsi] = inside "ESC [" ... up to and including the next latin letter *)
Fixpoint strip_go (incsi : bool) (s : bytes) : bytes :=
  match s with
  | [] => []
  | c :: r =>
    if incsi then (if islatinalpha c then strip_go false r else strip_go true r)
    else if negb (N.eqb c b_esc) then c :: strip_go false r
    else match r with
         | [] => []                                        (* if (i + 1 >= in.size()) break; *)
         | d :: r' => if N.eqb d b_lbr then strip_go true r'
                      else strip_go false r                (* not a CSI: only the ESC is dropped *)
         end
  end.
Definition strip_ansi (s : bytes) : bytes := strip_go false s.

(* ------------------------------------------------------------------ ElideMiddleInPlace (elide_middle.cc) *)
Definition is_param (c : byte) : bool := (N.leb 48 c && N.leb c 57) || N.eqb c 59.

(* the parameter-skipping loop of FindNextSequenceFrom on the suffix starting at seq+2:
   Some (number of parameter bytes, the byte that stopped the loop) or None ("Incomplete sequence") *)
Fixpoint skip_params (l : bytes) (k : nat) : option (nat * byte) :=
  match l with
  | [] => None
  | c :: r => if is_param c then skip_params r (S k) else Some (k, c)
  end.

Inductive seq_res := SeqFound (len : nat) | SeqNotM | SeqNo.
(* FindNextSequenceFrom at an ESC ([l] starts with that ESC) *)
Definition seq_at (l : bytes) : seq_res :=
  if Nat.ltb (length l) 4 then SeqNo                        (* if (seq + 4 > input_end_) return false; *)
  else match l with
       | _ :: d :: r2 =>
         if negb (N.eqb d b_lbr) then SeqNo                 (* restart at seq + 1 *)
         else match skip_params r2 O with
              | None => SeqNo                               (* only parameter bytes up to the end *)
              | Some (k, c) => if N.eqb c 109 then SeqFound (k + 3) else SeqNotM   (* restart at seq + 3 *)
              end
       | _ => SeqNo
       end.

(* per input byte: is it visible (not part of a colour sequence found by AnsiColorSequenceIterator)?
   [inv] bytes still belonging to the current sequence, [pass] bytes the search does not look at
   (it restarts at seq + 3 after a non-colour CSI). *)
Fixpoint vis_go (inv pass : nat) (l : bytes) : list bool :=
  match l with
  | [] => []
  | c :: r =>
    match inv with
    | S i => false :: vis_go i O r
    | O =>
      match pass with
      | S p => true :: vis_go O p r
      | O =>
        if N.eqb c b_esc then
          match seq_at l with
          | SeqFound n => false :: vis_go (n - 1) O r
          | SeqNotM => true :: vis_go O 2 r
          | SeqNo => true :: vis_go O O r
          end
        else true :: vis_go O O r
      end
    end
  end.
Definition vis_flags (s : bytes) : list bool := vis_go O O s.
Definition b2n (b : bool) : nat := if b then 1%nat else O.

(* steps 3 and 4 of the ANSI path; [vp] = visible position of the head *)
Fixpoint elide_tail (vp ge : nat) (l : list (byte * bool)) : bytes :=
  match l with
  | [] => []
  | (c, v) :: r =>
    if Nat.eqb vp ge then map fst l
    else (if v then [] else [c]) ++ elide_tail (vp + b2n v) ge r
  end.
(* steps 1 and 2 *)
Fixpoint elide_head (vp gs ge : nat) (ell : bytes) (l : list (byte * bool)) : bytes :=
  match l with
  | [] => ell
  | (c, v) :: r =>
    if Nat.eqb vp gs then ell ++ elide_tail vp ge l
    else c :: elide_head (vp + b2n v) gs ge ell r
  end.

Definition elide_middle (s : bytes) (w : nat) : bytes :=
  if Nat.leb (length s) w then s
  else if negb (has_esc s) then
    if Nat.leb w 3 then firstn w l_dots
    else let rem := (w - 3)%nat in
         let left := Nat.div rem 2 in
         let right := (rem - left)%nat in
         firstn left s ++ l_dots ++ skipn (length s - right) s
  else
    let fl := vis_flags s in
    let vw := length (filter (fun b => b) fl) in
    if Nat.leb vw w then s
    else let ew := Nat.min w 3 in
         let left := Nat.div (w - ew) 2 in
         let right := ((w - ew) - left)%nat in
         elide_head O left (vw - right) (firstn ew l_dots) (combine s fl).

(* ------------------------------------------------------------------ configuration, edges, calls *)
Inductive verbosity := VQuiet | VNoStatus | VNormal | VVerbose.

(* a token of the parsed --status string: (true, name) = $name, (false, text) = literal *)
Definition tok := (bool * bytes)%type.

Record config := mkConfig {
  c_tty : bool;                 (* isatty(1) && TERM set && TERM != "dumb" *)
  c_verb : verbosity;
  c_color : bool;               (* LinePrinter::supports_color_ (tty, NO_COLOR, CLICOLOR_FORCE, FORCE_COLOR) *)
  c_width : nat;                (* ws_col of TIOCGWINSZ; 0 = ioctl failed or reported 0 *)
  c_format : bytes;             (* NINJA_STATUS, or [default_format] *)
  c_eval : option (list tok);   (* the parsed --status string when given *)
  c_time : nat -> bytes -> bytes (* call index -> placeholder letter / variable name -> text *)
}.
(* smart_terminal_ after the constructor of StatusPrinter *)
Definition smart (cfg : config) : bool :=
  c_tty cfg && match c_verb cfg with VNormal => true | _ => false end.

Record edge := mkEdge {
  e_desc : bytes;               (* GetBinding("description") *)
  e_cmd : bytes;                (* GetBinding("command") = EvaluateCommand() *)
  e_console : bool;             (* use_console() *)
  e_outs : list bytes           (* paths of outputs_ *)
}.

Inductive call :=
| Added (e : edge)
| Removed (e : edge)
| Started (e : edge)
| Finished (e : edge) (code : Z) (output : bytes)
| BuildStarted
| BuildFinished
| ConsoleLock (b : bool)        (* printer_.SetConsoleLocked(b) *)
| NewLine
| Info (s : bytes)
| Warning (s : bytes)
| Error (s : bytes).

(* ------------------------------------------------------------------ counters and formats *)
Record counters := mkCn { n_total : Z; n_started : Z; n_finished : Z; n_running : Z }.

(* int percent = 0; if (finished != 0 && total != 0) percent = (100 * finished) / total;  "%3i%%" *)
Definition percent (cn : counters) : bytes :=
  let p := if Z.eqb (n_finished cn) 0 || Z.eqb (n_total cn) 0 then 0%Z
           else Z.quot (100 * n_finished cn) (n_total cn) in
  pad3 (dec_Z p) ++ [b_pct].

(* one placeholder of FormatProgressStatus; None = Fatal *)
Definition placeholder (tm : bytes -> bytes) (cn : counters) (c : byte) : option bytes :=
  if N.eqb c 37 then Some [b_pct]
  else if N.eqb c 115 then Some (dec_Z (n_started cn))                       (* %s *)
  else if N.eqb c 116 then Some (dec_Z (n_total cn))                         (* %t *)
  else if N.eqb c 114 then Some (dec_Z (n_running cn))                       (* %r *)
  else if N.eqb c 117 then Some (dec_Z (n_total cn - n_started cn))          (* %u *)
  else if N.eqb c 102 then Some (dec_Z (n_finished cn))                      (* %f *)
  else if N.eqb c 112 then Some (percent cn)                                 (* %p *)
  else if N.eqb c 111 || N.eqb c 99 || N.eqb c 101 || N.eqb c 119
          || N.eqb c 69 || N.eqb c 87 || N.eqb c 80 then Some (tm [c])      (* %o %c %e %w %E %W %P *)
  else None.

(* FormatProgressStatus over the C string [s]: inl text, or inr (the offending character) *)
Fixpoint format_go (tm : bytes -> bytes) (cn : counters) (s : bytes) : bytes + byte :=
  match s with
  | [] => inl []
  | c :: r =>
    if N.eqb c b_pct then
      match r with
      | [] => inr 0                       (* "%" at the end: *s is the terminating NUL *)
      | d :: r' =>
        match placeholder tm cn d with
        | None => inr d
        | Some x => match format_go tm cn r' with
                    | inl o => inl (x ++ o)
                    | inr b => inr b
                    end
        end
      end
    else match format_go tm cn r with
         | inl o => inl (c :: o)
         | inr b => inr b
         end
  end.
Definition format_progress (tm : bytes -> bytes) (cn : counters) (fmt : bytes) : bytes + byte :=
  format_go tm cn (cstr fmt).

(* FormatStatusVariable; None = Fatal *)
Definition status_variable (tm : bytes -> bytes) (cn : counters) (name : bytes) : option bytes :=
  if bytes_eqb name v_started then Some (dec_Z (n_started cn))
  else if bytes_eqb name v_total then Some (dec_Z (n_total cn))
  else if bytes_eqb name v_running then Some (dec_Z (n_running cn))
  else if bytes_eqb name v_remaining then Some (dec_Z (n_total cn - n_started cn))
  else if bytes_eqb name v_finished then Some (dec_Z (n_finished cn))
  else if bytes_eqb name v_progress then Some (percent cn)
  else if bytes_eqb name v_rate || bytes_eqb name v_current_rate || bytes_eqb name v_predicted_progress
          || bytes_eqb name v_elapsed || bytes_eqb name v_elapsed_seconds
          || bytes_eqb name v_eta || bytes_eqb name v_eta_seconds then Some (tm name)
  else None.

(* EvalString::Evaluate with StatusFormatEnv: inl text or inr (the unknown variable) *)
Fixpoint eval_go (tm : bytes -> bytes) (cn : counters) (desc : bytes) (ts : list tok) : bytes + bytes :=
  match ts with
  | [] => inl []
  | (isvar, x) :: r =>
    let here := if isvar then
                  (if bytes_eqb x v_description then Some desc else status_variable tm cn x)
                else Some x in
    match here with
    | None => inr x
    | Some h => match eval_go tm cn desc r with
                | inl o => inl (h ++ o)
                | inr b => inr b
                end
    end
  end.

(* the line PrintStatus hands to LinePrinter::Print: inl line, or inr (Fatal's message on stderr) *)
Definition description_of (cfg : config) (e : edge) : bytes :=
  if is_empty (e_desc e) || match c_verb cfg with VVerbose => true | _ => false end
  then e_cmd e else e_desc e.

Definition status_text (cfg : config) (idx : nat) (cn : counters) (e : edge) : bytes + bytes :=
  let d := description_of cfg e in
  match c_eval cfg with
  | Some ts =>
    match eval_go (c_time cfg idx) cn d ts with
    | inl o => inl o
    | inr v => inr (l_ninja ++ l_fatal ++ l_unkvar1 ++ cstr v ++ l_unkvar2 ++ [b_lf])
    end
  | None =>
    match format_progress (c_time cfg idx) cn (c_format cfg) with
    | inl o => inl (o ++ d)
    | inr c => inr (l_ninja ++ l_fatal ++ l_unkph1 ++ [c] ++ l_unkph2 ++ [b_lf])
    end
  end.

(* ------------------------------------------------------------------ LinePrinter *)
Record lp := mkLp {
  lp_blank : bool;      (* have_blank_line_ *)
  lp_locked : bool;     (* console_locked_ *)
  lp_line : bytes;      (* line_buffer_ *)
  lp_elide : bool;      (* line_type_ == ELIDE *)
  lp_out : bytes        (* output_buffer_ *)
}.
Definition lp_init : lp := mkLp true false [] true [].

(* LinePrinter::Print(to_print, type) *)
Definition lp_print (cfg : config) (p : lp) (s : bytes) (el : bool) : lp * bytes :=
  if lp_locked p then (mkLp (lp_blank p) true s el (lp_out p), [])
  else if smart cfg then
    if el then
      (mkLp false false (lp_line p) (lp_elide p) (lp_out p),
       [b_cr] ++ cstr (match c_width cfg with O => s | w => elide_middle s w end) ++ l_clreol)
    else (p, [b_cr] ++ cstr s ++ [b_lf])
  else (p, cstr s ++ [b_lf]).

(* LinePrinter::PrintOrBuffer *)
Definition lp_put (p : lp) (s : bytes) : lp * bytes :=
  if lp_locked p then (mkLp (lp_blank p) true (lp_line p) (lp_elide p) (lp_out p ++ s), [])
  else (p, s).

(* LinePrinter::PrintOnNewLine *)
Definition lp_newline (p : lp) (s : bytes) : lp * bytes :=
  let p1 := if lp_locked p && negb (is_empty (lp_line p))
            then mkLp (lp_blank p) true [] (lp_elide p) (lp_out p ++ lp_line p ++ [b_lf])
            else p in
  let '(p2, o2) := if lp_blank p1 then (p1, []) else lp_put p1 [b_lf] in
  let '(p3, o3) := if is_empty s then (p2, []) else lp_put p2 s in
  (mkLp (ends_blank s) (lp_locked p3) (lp_line p3) (lp_elide p3) (lp_out p3), o2 ++ o3).

(* LinePrinter::SetConsoleLocked *)
Definition lp_lock (cfg : config) (p : lp) (b : bool) : lp * bytes :=
  if Bool.eqb b (lp_locked p) then (p, [])
  else if b then
    let '(p1, o1) := lp_newline p [] in
    (mkLp (lp_blank p1) true (lp_line p1) (lp_elide p1) (lp_out p1), o1)
  else
    let p0 := mkLp (lp_blank p) false (lp_line p) (lp_elide p) (lp_out p) in
    let '(p1, o1) := lp_newline p0 (lp_out p0) in
    let '(p2, o2) := if is_empty (lp_line p1) then (p1, [])
                     else lp_print cfg p1 (lp_line p1) (lp_elide p1) in
    (mkLp (lp_blank p2) (lp_locked p2) [] (lp_elide p2) [], o1 ++ o2).

(* ------------------------------------------------------------------ StatusPrinter *)
Record state := mkState {
  s_cn : counters;
  s_lp : lp;
  s_dead : bool;        (* Fatal() was called: the process is gone *)
  s_idx : nat           (* number of calls made so far *)
}.
Definition init_state : state := mkState (mkCn 0 0 0 0) lp_init false O.

(* result of one call: new state, bytes to stdout, bytes to stderr *)
Definition res := (state * bytes * bytes)%type.

(* PrintStatus(edge): new printer, stdout; or the Fatal message *)
Definition print_status (cfg : config) (idx : nat) (cn : counters) (p : lp) (e : edge)
  : (lp * bytes) + bytes :=
  match c_verb cfg with
  | VQuiet | VNoStatus => inl (p, [])
  | v => match status_text cfg idx cn e with
         | inr msg => inr msg
         | inl line => inl (lp_print cfg p line (match v with VVerbose => false | _ => true end))
         end
  end.

Definition outputs_text (e : edge) : bytes := concat (map (fun o => o ++ [b_sp]) (e_outs e)).

(* the "FAILED: " line as handed to PrintOnNewLine *)
Definition failed_line (cfg : config) (e : edge) (code : Z) : bytes :=
  let failed := l_failed ++ dec_Z code ++ l_close in
  (if c_color cfg then l_red ++ failed ++ l_reset else failed) ++ outputs_text e ++ [b_lf].

(* the command output as handed to PrintOnNewLine *)
Definition shown_output (cfg : config) (output : bytes) : bytes :=
  if c_color cfg || negb (has_esc output) then output else strip_ansi output.

(* the tail of BuildEdgeFinished after the status line: FAILED block, output *)
Definition finish_body (cfg : config) (p : lp) (e : edge) (code : Z) (output : bytes) : lp * bytes :=
  let '(p1, o1) :=
    if Z.eqb code 0 then (p, [])
    else let '(pa, oa) := lp_newline p (failed_line cfg e code) in
         let '(pb, ob) := lp_newline pa (e_cmd e ++ [b_lf]) in
         (pb, oa ++ ob) in
  let '(p2, o2) :=
    if is_empty output then (p1, [])
    else lp_newline p1 (shown_output cfg output) in
  (p2, o1 ++ o2).

Definition dead_of (s : state) (cn : counters) (p : lp) (out msg : bytes) : res :=
  (mkState cn p true (S (s_idx s)), out, msg).
Definition ok_of (s : state) (cn : counters) (p : lp) (out : bytes) : res :=
  (mkState cn p false (S (s_idx s)), out, []).

Definition step (cfg : config) (s : state) (c : call) : res :=
  if s_dead s then (s, [], [])
  else
  let cn := s_cn s in
  let p := s_lp s in
  let idx := s_idx s in
  match c with
  | Added _ => ok_of s (mkCn (n_total cn + 1) (n_started cn) (n_finished cn) (n_running cn)) p []
  | Removed _ => ok_of s (mkCn (n_total cn - 1) (n_started cn) (n_finished cn) (n_running cn)) p []
  | BuildStarted => ok_of s (mkCn (n_total cn) 0 0 0) p []
  | Started e =>
    let cn1 := mkCn (n_total cn) (n_started cn + 1) (n_finished cn) (n_running cn + 1) in
    match (if e_console e || smart cfg then print_status cfg idx cn1 p e else inl (p, [])) with
    | inr msg => dead_of s cn1 p [] msg
    | inl (p1, o1) =>
      let '(p2, o2) := if e_console e then lp_lock cfg p1 true else (p1, []) in
      ok_of s cn1 p2 (o1 ++ o2)
    end
  | Finished e code output =>
    let cn1 := mkCn (n_total cn) (n_started cn) (n_finished cn + 1) (n_running cn) in
    let '(p1, o1) := if e_console e then lp_lock cfg p false else (p, []) in
    match c_verb cfg with
    | VQuiet => ok_of s cn1 p1 o1
    | _ =>
      match (if e_console e then inl (p1, []) else print_status cfg idx cn1 p1 e) with
      | inr msg => dead_of s cn1 p1 o1 msg
      | inl (p2, o2) =>
        let cn2 := mkCn (n_total cn1) (n_started cn1) (n_finished cn1) (n_running cn1 - 1) in
        let '(p3, o3) := finish_body cfg p2 e code output in
        ok_of s cn2 p3 (o1 ++ o2 ++ o3)
      end
    end
  | BuildFinished =>
    let '(p1, o1) := lp_lock cfg p false in
    let '(p2, o2) := lp_newline p1 [] in
    (* total_edges_ = 0: the same Status serves the next build of this invocation (manifest regeneration first) *)
    ok_of s (mkCn 0 (n_started cn) (n_finished cn) (n_running cn)) p2 (o1 ++ o2)
  | ConsoleLock b => let '(p1, o1) := lp_lock cfg p b in ok_of s cn p1 o1
  | NewLine => let '(p1, o1) := lp_newline p [] in ok_of s cn p1 o1
  | Info m => ok_of s cn p (l_ninja ++ cstr m ++ [b_lf])
  | Warning m => (mkState cn p false (S idx), [], l_ninja ++ l_warning ++ cstr m ++ [b_lf])
  | Error m => (mkState cn p false (S idx), [], l_ninja ++ l_error ++ cstr m ++ [b_lf])
  end.

(* all calls from a state: final state, stdout, stderr *)
Fixpoint run_from (cfg : config) (s : state) (cs : list call) : res :=
  match cs with
  | [] => (s, [], [])
  | c :: r =>
    let '(s1, o1, e1) := step cfg s c in
    let '(s2, o2, e2) := run_from cfg s1 r in
    (s2, o1 ++ o2, e1 ++ e2)
  end.

Definition run (cfg : config) (cs : list call) : res := run_from cfg init_state cs.
(* the bytes written to stdout / stderr for a call sequence *)
Definition render (cfg : config) (cs : list call) : bytes := snd (fst (run cfg cs)).
Definition render_err (cfg : config) (cs : list call) : bytes := snd (run cfg cs).
Definition final_state (cfg : config) (cs : list call) : state := fst (fst (run cfg cs)).
